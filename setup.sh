#!/bin/bash
# Offline setup after a fresh restore: build the overlay generator and pre-build the harness
# flavours so that later ./check calls are incremental.
set -u
V=${VERIF_ROOT:-/verif}
export VERIF_ROOT=$V
cd $V
export GOFLAGS=-mod=mod GOPROXY=off GOSUMDB=off GOTOOLCHAIN=local
B=$V/.build
mkdir -p $B/plain $B/sched $B/run evidence replays
R=${VERIF_REPO:-/repo}
cat $R/go.sum $R/loader/go.sum 2>/dev/null | sort -u > $V/go.sum
if [ "$R" != /repo ]; then
  # maintainer-side relocation (a snapshot of the repository): only ever in a snapshot of /verif
  [ "$V" != /verif ] && go mod edit -replace github.com/bytedance/sonic=$R -replace github.com/bytedance/sonic/loader=$R/loader
fi
go build -o $B/mkoverlay ./tools/mkoverlay || exit 1
for f in plain sched; do
  $B/mkoverlay $f $B/$f || exit 1
  go build -overlay $B/$f/overlay.json -o $B/vcheck-$f ./cmd/vcheck || exit 1
done
mkdir -p $B/raceov && $B/mkoverlay plain $B/raceov && go build -race -overlay $B/raceov/overlay.json -o $B/vcheck-race ./cmd/vcheck || exit 1
echo setup ok
