package main

// C20: Quote, unquote, HTML-escape and UTF-8 routines match their definitions.
//
// Every input byte string is used in two roles: as a *raw* Go string (Quote / HTMLEscape /
// utf8 / Marshal) and as the *content* of a JSON string literal (unquote / Unmarshal).
// References (all in this file, built on strconv-like hex parsing, unicode/utf16,
// unicode/utf8, encoding/json):
//   c20refUnquote   mirrors encoding/json's unquoteBytes but copies every non-escape byte
//                   unchanged (the property says so); it is itself cross-checked against
//                   encoding/json on every input encoding/json can judge ("ref-selfcheck").
//   c20refCorrect   byte-wise replacement: every byte at which unicode/utf8.DecodeRune reports
//                   (RuneError, 1) is replaced by repl, everything else is copied. This is what
//                   encoding/json does when it coerces strings (NOT strings.ToValidUTF8, which
//                   collapses a run of invalid bytes into a single replacement).
//   double unquote  = c20refUnquote applied twice (composition), which is also what
//                   encoding/json does for a `,string` field.

import (
	"bytes"
	"encoding/hex"
	"encoding/json"
	"fmt"
	"hash/fnv"
	"runtime"
	"runtime/debug"
	"sort"
	"strings"
	"sync"
	"unicode"
	"unicode/utf16"
	stdutf8 "unicode/utf8"

	"github.com/bytedance/sonic"
	"github.com/bytedance/sonic/ast"
	"github.com/bytedance/sonic/decoder"
	"github.com/bytedance/sonic/encoder"
	"github.com/bytedance/sonic/unquote"
	sutf8 "github.com/bytedance/sonic/utf8"
	vh "github.com/bytedance/sonic/verifhooks"

	"verif/internal/ev"
)

// ---------------------------------------------------------------------------------------
// references

func c20hex4(b []byte) (rune, bool) {
	if len(b) < 4 {
		return 0, false
	}
	var r rune
	for _, c := range b[:4] {
		switch {
		case '0' <= c && c <= '9':
			c -= '0'
		case 'a' <= c && c <= 'f':
			c = c - 'a' + 10
		case 'A' <= c && c <= 'F':
			c = c - 'A' + 10
		default:
			return 0, false
		}
		r = r*16 + rune(c)
	}
	return r, true
}

// c20refUnquote decodes the content of a string literal. replace: lone surrogates become
// U+FFFD (else they are an error). strictRaw: an unescaped '"' or a byte < 0x20 is an error
// (JSON grammar); otherwise they are copied like every other byte. Returns the error class
// ("" = ok).
func c20refUnquote(c []byte, replace, strictRaw bool) ([]byte, string) {
	out := make([]byte, 0, len(c))
	i := 0
	for i < len(c) {
		b := c[i]
		if b != '\\' {
			if strictRaw && (b == '"' || b < 0x20) {
				return nil, "raw-quote-or-control"
			}
			out = append(out, b)
			i++
			continue
		}
		if i+1 >= len(c) {
			return nil, "trailing-backslash"
		}
		e := c[i+1]
		switch e {
		case '"', '\\', '/':
			out = append(out, e)
			i += 2
		case 'b':
			out = append(out, '\b')
			i += 2
		case 'f':
			out = append(out, '\f')
			i += 2
		case 'n':
			out = append(out, '\n')
			i += 2
		case 'r':
			out = append(out, '\r')
			i += 2
		case 't':
			out = append(out, '\t')
			i += 2
		case 'u':
			r, ok := c20hex4(c[i+2:])
			if !ok {
				return nil, "malformed-u-escape"
			}
			i += 6
			if utf16.IsSurrogate(r) {
				paired := false
				if r < 0xdc00 && i+6 <= len(c) && c[i] == '\\' && c[i+1] == 'u' {
					if r2, ok2 := c20hex4(c[i+2:]); ok2 {
						if dec := utf16.DecodeRune(r, r2); dec != unicode.ReplacementChar {
							out = stdutf8.AppendRune(out, dec)
							i += 6
							paired = true
						}
					}
				}
				if paired {
					continue
				}
				if !replace {
					return nil, "lone-surrogate"
				}
				r = unicode.ReplacementChar
			}
			out = stdutf8.AppendRune(out, r)
		default:
			return nil, "invalid-escape-char"
		}
	}
	return out, ""
}

// c20refDouble is the reference applied twice. strictInner: the intermediate text must be
// legal string-literal content (no raw quote / control byte), as encoding/json demands for a
// `,string` field; without it those bytes are "copied unchanged" like in the single mode.
func c20refDouble(c []byte, replace, strictInner bool) ([]byte, string) {
	t, e := c20refUnquote(c, replace, false)
	if e != "" {
		return nil, "level1-" + e
	}
	u, e := c20refUnquote(t, replace, strictInner)
	if e != "" {
		return nil, "level2-" + e
	}
	return u, ""
}

// c20cmpDouble: the double mode must agree with the composition. Where the two readings of
// the property differ (a level-1 escape puts a raw quote or control byte into the inner text:
// encoding/json rejects, "copy unchanged" accepts) either answer is tolerated.
func c20cmpDouble(gotOK bool, got []byte, in []byte, replace bool) *c20fail {
	a, aerr := c20refDouble(in, replace, false)
	_, berr := c20refDouble(in, replace, true)
	switch {
	case aerr != "":
		if gotOK {
			return &c20fail{class: "accepted-but-reference-rejects", exp: "error: " + aerr, obs: "accepted, value " + c20q(got)}
		}
	case berr == "":
		if !gotOK {
			return &c20fail{class: "rejected-but-reference-accepts", exp: c20q(a), obs: "error"}
		}
		if !bytes.Equal(got, a) {
			return &c20fail{class: "value-differs", exp: c20q(a), obs: c20q(got)}
		}
	default:
		if gotOK && !bytes.Equal(got, a) {
			return &c20fail{class: "value-differs", exp: c20q(a) + " or an error (" + berr + ")", obs: c20q(got)}
		}
	}
	return nil
}

// c20level2EscapeFromLevel1: after the first unquoting, does some escape sequence of the
// inner text contain a byte that was itself produced by an escape of the outer text (e.g.
// \u005c + n, or \\u12a + \u0061)?
func c20level2EscapeFromLevel1(b []byte) bool {
	var t []byte
	var prov []bool
	for i := 0; i < len(b); {
		if b[i] != '\\' || i+1 >= len(b) {
			t, prov = append(t, b[i]), append(prov, false)
			i++
			continue
		}
		if b[i+1] == 'u' {
			if r, ok := c20hex4(b[i+2:]); ok {
				n := len(t)
				t = stdutf8.AppendRune(t, r)
				for len(prov) < len(t) {
					prov = append(prov, true)
				}
				_ = n
				i += 6
				continue
			}
			return false
		}
		c, _ := c20refUnquote(b[i:i+2], true, false)
		if len(c) != 1 {
			return false
		}
		// \\\\ and \\" are the canonical spelling of an inner backslash / quote
		t, prov = append(t, c[0]), append(prov, b[i+1] != '\\' && b[i+1] != '"')
		i += 2
	}
	for i := 0; i < len(t); {
		if t[i] != '\\' {
			i++
			continue
		}
		n := 2
		if i+1 < len(t) && t[i+1] == 'u' {
			n = 6
		}
		for j := i; j < i+n && j < len(t); j++ {
			if prov[j] {
				return true
			}
		}
		i += n
	}
	return false
}

// c20dblPattern names the construct of a (minimised) double-mode witness, so that one defect
// of the one-pass double unquote gets one key.
func c20dblPattern(b []byte) string {
	if c20level2EscapeFromLevel1(b) {
		return "level2-escape-spelled-with-a-level1-escape"
	}
	syntaxU, surBack, sur, endEsc, bsEsc := false, false, false, false, false
	isSur := func(r rune) bool { return r >= 0xd800 && r < 0xe000 }
	for i := 0; i < len(b); {
		if b[i] != '\\' || i+1 >= len(b) {
			i++
			continue
		}
		e := b[i+1]
		switch {
		case e == 'u':
			if r, ok := c20hex4(b[i+2:]); ok {
				if r == '\\' || r == '"' {
					syntaxU = true
				}
				if isSur(r) {
					sur = true
					if i+6 < len(b) && b[i+6] == '\\' {
						surBack = true
					}
				}
				i += 6
				continue
			}
			i += 2
		case e == '\\':
			if i+3 < len(b) && b[i+2] == '\\' && b[i+3] != '\\' && b[i+3] != '"' {
				bsEsc = true
			}
			if i+2 < len(b) && b[i+2] == 'u' {
				if r, ok := c20hex4(b[i+3:]); ok && isSur(r) {
					sur = true
					if i+7 < len(b) && b[i+7] == '\\' {
						surBack = true
					}
				}
			}
			i += 2
		default:
			if i+2 == len(b) {
				endEsc = true
			}
			i += 2
		}
	}
	_ = syntaxU
	switch {
	case surBack:
		return "surrogate-escape-followed-by-backslash"
	case sur:
		return "surrogate-escape"
	case bsEsc:
		return "escaped-backslash-then-level1-escape"
	case endEsc:
		return "two-char-escape-at-end-of-content"
	}
	return c20features(b, 'c')
}

// c20refLiteral decodes a complete JSON string literal strictly, preserving raw bytes >= 0x20.
func c20refLiteral(lit []byte) ([]byte, bool) {
	if len(lit) < 2 || lit[0] != '"' || lit[len(lit)-1] != '"' {
		return nil, false
	}
	out, e := c20refUnquote(lit[1:len(lit)-1], true, true)
	return out, e == ""
}

func c20refCorrect(dst, src []byte, repl string) []byte {
	for i := 0; i < len(src); {
		if src[i] < 0x80 {
			dst = append(dst, src[i])
			i++
			continue
		}
		r, n := stdutf8.DecodeRune(src[i:])
		if r == stdutf8.RuneError && n == 1 {
			dst = append(dst, repl...)
			i++
			continue
		}
		dst = append(dst, src[i:i+n]...)
		i += n
	}
	return dst
}

const c20fffd = "\xef\xbf\xbd"

func c20toValid(s []byte) []byte { return c20refCorrect(make([]byte, 0, len(s)+8), s, c20fffd) }

func c20stdHTMLEscape(src []byte) []byte {
	var bb bytes.Buffer
	json.HTMLEscape(&bb, src)
	return bb.Bytes()
}

// c20hasRawQuote: an unescaped '"' in content (scanner rule: a backslash hides the next byte)
// would end the literal early; such contents are not string contents of the document.
func c20hasRawQuote(c []byte) bool {
	for i := 0; i < len(c); i++ {
		if c[i] == '\\' {
			i++
			continue
		}
		if c[i] == '"' {
			return true
		}
	}
	return false
}

func c20htmlUnsafe(b []byte) bool {
	for i, c := range b {
		if c == '<' || c == '>' || c == '&' {
			return true
		}
		if c == 0xe2 && i+2 < len(b) && b[i+1] == 0x80 && (b[i+2] == 0xa8 || b[i+2] == 0xa9) {
			return true
		}
	}
	return false
}

// ---------------------------------------------------------------------------------------
// failure description, features, keys

type c20fail struct {
	class string
	exp   string
	obs   string
	nomin bool // do not minimise (panics: the key comes from the message)
}

func c20q(b []byte) string {
	if len(b) > 160 {
		return fmt.Sprintf("%q...(%d bytes)", b[:160], len(b))
	}
	return fmt.Sprintf("%q", b)
}

func c20catch(f func()) (msg string) {
	defer func() {
		if r := recover(); r != nil {
			msg = fmt.Sprint(r)
			if msg == "" {
				msg = "panic"
			}
		}
	}()
	f()
	return ""
}

func c20slug(s string) string {
	var b strings.Builder
	for _, c := range s {
		switch {
		case c >= 'a' && c <= 'z' || c >= 'A' && c <= 'Z':
			b.WriteRune(c)
		case c >= '0' && c <= '9':
			// digits dropped: addresses / lengths must not split a key
		default:
			if b.Len() > 0 && b.String()[b.Len()-1] != '-' {
				b.WriteByte('-')
			}
		}
		if b.Len() > 70 {
			break
		}
	}
	return strings.Trim(b.String(), "-")
}

// c20features abstracts a witness to the set of lexical features it contains.
func c20features(b []byte, role byte) string {
	if len(b) == 0 {
		return "empty"
	}
	set := map[string]bool{}
	prevHigh := false
	for i := 0; i < len(b); {
		c := b[i]
		wasHigh := prevHigh
		prevHigh = false
		switch {
		case c == '\\' && role == 'c':
			if i+1 >= len(b) {
				set["trailing-backslash"] = true
				i++
				continue
			}
			e := b[i+1]
			switch e {
			case '"':
				set["esc-quote"] = true
				i += 2
			case '\\':
				set["esc-backslash"] = true
				i += 2
			case '/', 'b', 'f', 'n', 'r', 't':
				set["esc-simple"] = true
				i += 2
			case 'u':
				r, ok := c20hex4(b[i+2:])
				if !ok {
					set["esc-u-malformed"] = true
					i += 2
					continue
				}
				i += 6
				switch {
				case r >= 0xd800 && r < 0xdc00:
					set["esc-u-high-surrogate"] = true
					prevHigh = true
				case r >= 0xdc00 && r < 0xe000:
					if wasHigh {
						set["surrogate-pair"] = true
					} else {
						set["esc-u-low-surrogate"] = true
					}
				case r == '\\' || r == '"':
					set["esc-u-syntax-char"] = true
				case r < 0x80:
					set["esc-u-ascii"] = true
				default:
					set["esc-u-bmp"] = true
				}
			default:
				set["esc-invalid-char"] = true
				i += 2
			}
			continue
		case c == '\\':
			set["backslash"] = true
		case c == '"':
			set["quote"] = true
		case c < 0x20:
			set["ctrl"] = true
		case c == 0x7f:
			set["del"] = true
		case c == '<' || c == '>' || c == '&':
			set["html"] = true
		case c >= 0x80:
			r, n := stdutf8.DecodeRune(b[i:])
			if r == stdutf8.RuneError && n == 1 {
				set["bad-utf8"] = true
			} else if r == 0x2028 || r == 0x2029 {
				set["u2028"] = true
			} else {
				set[fmt.Sprintf("utf8-%dbyte", n)] = true
			}
			i += n
			continue
		}
		i++
	}
	l := make([]string, 0, len(set))
	for k := range set {
		l = append(l, k)
	}
	sort.Strings(l)
	f := strings.Join(l, "+")
	if f == "" {
		f = "plain"
	}
	switch {
	case len(b) >= 4096:
		f += "@len4096+"
	case len(b) >= 64:
		f += "@len64+"
	case len(b) >= 32:
		f += "@len32+"
	case len(b) >= 16:
		f += "@len16+"
	}
	return f
}

// ---------------------------------------------------------------------------------------
// helpers for buffers with canaries

const (
	c20tailByte = 0xA5
	c20tailLen  = 64
)

func c20prefixByte(i int) byte { return byte(0x50 + i%16) } // 'P'..'_'

// c20mkbuf: backing array = prefix(plen) | free(capFree) | tail canary; returns the slice
// [0:plen:plen+capFree] and the backing array. The backing arrays are recycled (one per
// size) and re-imaged on every call: no allocation in the capacity sweeps.
var (
	c20backs = map[int][]byte{}
	c20tails []byte
)

func c20mkbuf(plen, capFree int) (buf, back []byte) {
	n := plen + capFree + c20tailLen
	back = c20backs[n]
	if back == nil {
		back = make([]byte, n)
		if len(c20backs) < 4096 {
			c20backs[n] = back
		}
	}
	if len(c20tails) < n {
		c20tails = bytes.Repeat([]byte{c20tailByte}, n+1024)
	}
	for i := 0; i < plen; i++ {
		back[i] = c20prefixByte(i)
	}
	copy(back[plen:], c20tails)
	return back[0 : plen : plen+capFree], back
}

// c20template: 8 bytes 0x5A then tail bytes (the pristine image of a native scratch region).
var c20tmpl []byte

func c20template(n int) []byte {
	if len(c20tmpl) < n {
		c20tmpl = make([]byte, n+256)
		for i := range c20tmpl {
			if i < 8 {
				c20tmpl[i] = 0x5A
			} else {
				c20tmpl[i] = c20tailByte
			}
		}
	}
	return c20tmpl[:n]
}

func c20prefixOK(out []byte, plen int) bool {
	if len(out) < plen {
		return false
	}
	for i := 0; i < plen; i++ {
		if out[i] != c20prefixByte(i) {
			return false
		}
	}
	return true
}

func c20tailOK(back []byte, from int) bool {
	t := back[from:]
	if len(c20tails) >= len(t) {
		return bytes.Equal(t, c20tails[:len(t)])
	}
	for _, c := range t {
		if c != c20tailByte {
			return false
		}
	}
	return true
}

// ---------------------------------------------------------------------------------------
// per-byte quote tables of the library (used only to relate partial outputs to consumed
// input; the denotation of every complete output is checked independently)

var (
	c20tabOnce sync.Once
	c20tab     [2][256]string
)

func c20tabs() *[2][256]string {
	c20tabOnce.Do(func() {
		for b := 0; b < 256; b++ {
			s := string([]byte{byte(b)})
			// ample capacity: the table must not depend on the restart path
			q := vh.C20AlgQuote(make([]byte, 0, 64), s, false)
			if len(q) >= 2 {
				c20tab[0][b] = string(q[1 : len(q)-1])
			}
			d := vh.C20AlgQuote(make([]byte, 0, 64), s, true)
			if len(d) >= 6 {
				c20tab[1][b] = string(d[3 : len(d)-3])
			}
		}
	})
	return &c20tab
}

var c20stat struct {
	restarts     int64 // native calls that returned "destination full"
	sweepCalls   int64
	growthPaths  int64 // alg.Quote / HTMLEscape calls that had to grow the destination
	refAccept    int64
	refReject    int64
	skippedQuote int64
}

// ---------------------------------------------------------------------------------------
// entry points

type c20ep struct {
	name  string
	role  byte // 'r' raw string, 'c' content of a string literal
	sweep bool // runs the routine once per destination capacity
	long  bool // cheap enough for the very long UTF-8 strata
	fn    func(in []byte, n *int64) *c20fail
}

type c20strTag struct {
	S string `json:",string"`
}

var (
	c20cfgEsc = sonic.Config{EscapeHTML: true}.Froze()
	c20cfgVal = sonic.Config{ValidateString: true}.Froze()
)

func c20cmpUnq(gotOK bool, got []byte, exp []byte, rerr string) *c20fail {
	switch {
	case rerr != "" && gotOK:
		return &c20fail{class: "accepted-but-reference-rejects(" + rerr + ")", exp: "error: " + rerr, obs: "accepted, value " + c20q(got)}
	case rerr == "" && !gotOK:
		return &c20fail{class: "rejected-but-reference-accepts", exp: c20q(exp), obs: "error"}
	case rerr == "" && !bytes.Equal(got, exp):
		return &c20fail{class: "value-differs", exp: c20q(exp), obs: c20q(got)}
	}
	return nil
}

// c20checkLiteral: lit must be a strict JSON string literal denoting want (byte-exact through
// the reference, U+FFFD-coerced through encoding/json).
func c20checkLiteral(lit []byte, want []byte, levels int, coerced bool) *c20fail {
	cur := lit
	for l := 0; l < levels; l++ {
		if !json.Valid(cur) {
			return &c20fail{class: "output-not-valid-json", exp: "a JSON string literal", obs: c20q(cur)}
		}
		d, ok := c20refLiteral(cur)
		if !ok {
			return &c20fail{class: "output-not-a-string-literal", exp: "a JSON string literal", obs: c20q(cur)}
		}
		cur = d
	}
	if coerced {
		want = c20toValid(want)
	}
	if !bytes.Equal(cur, want) {
		return &c20fail{class: "denotation-differs", exp: c20q(want), obs: c20q(cur) + " from " + c20q(lit)}
	}
	// encoding/json as the upper reference
	var s string
	b := lit
	for l := 0; l < levels; l++ {
		if err := json.Unmarshal(b, &s); err != nil {
			return &c20fail{class: "stdjson-rejects-output", exp: "decodable", obs: c20q(b)}
		}
		b = []byte(s)
	}
	if w := c20toValid(want); string(w) != s {
		return &c20fail{class: "stdjson-decodes-differently", exp: c20q(w), obs: c20q([]byte(s))}
	}
	return nil
}

func c20eps() []c20ep {
	var eps []c20ep
	add := func(name string, role byte, long bool, fn func(in []byte, n *int64) *c20fail) {
		eps = append(eps, c20ep{name, role, strings.Contains(name, "every-capacity"), long, fn})
	}

	// ---------------- raw role: quoting ----------------
	add("encoder.Quote", 'r', false, func(in []byte, n *int64) *c20fail {
		*n++
		s := string(in)
		q := []byte(encoder.Quote(s))
		if f := c20checkLiteral(q, in, 1, false); f != nil {
			return f
		}
		body := string(q[1 : len(q)-1])
		u, e := unquote.String(body)
		*n++
		if e != 0 || u != s {
			return &c20fail{class: "unquote-of-quote-differs", exp: c20q(in), obs: fmt.Sprintf("%q err=%d via %s", u, int(e), c20q(q))}
		}
		var back string
		*n++
		if err := sonic.Unmarshal(append(make([]byte, 0, len(q)), q...), &back); err != nil || back != s {
			return &c20fail{class: "unmarshal-of-quote-differs", exp: c20q(in), obs: fmt.Sprintf("%q err=%v", back, err)}
		}
		return nil
	})
	add("sonic.Marshal(string)", 'r', false, func(in []byte, n *int64) *c20fail {
		*n++
		s := string(in)
		m, err := sonic.Marshal(s)
		q := encoder.Quote(s)
		if err != nil || string(m) != q {
			return &c20fail{class: "differs-from-encoder.Quote", exp: q, obs: fmt.Sprintf("%s err=%v", c20q(m), err)}
		}
		*n++
		m2, err := encoder.Encode(s, 0)
		if err != nil || string(m2) != q {
			return &c20fail{class: "encoder.Encode-differs-from-encoder.Quote", exp: q, obs: fmt.Sprintf("%s err=%v", c20q(m2), err)}
		}
		// into a fresh 16-byte buffer: every restart of the quoting loop happens inside this call
		// (the pooled buffer used above is usually large already)
		*n++
		m3 := make([]byte, 0, 16)
		if err := encoder.EncodeInto(&m3, s, 0); err != nil || string(m3) != q {
			return &c20fail{class: "encoder.EncodeInto(fresh-16-byte-buffer)-differs-from-encoder.Quote", exp: q, obs: fmt.Sprintf("%s err=%v", c20q(m3), err)}
		}
		return nil
	})
	add("ast.NewString.MarshalJSON", 'r', false, func(in []byte, n *int64) *c20fail {
		*n++
		s := string(in)
		nd := ast.NewString(s)
		m, err := nd.MarshalJSON()
		q := encoder.Quote(s)
		if err != nil || string(m) != q {
			return &c20fail{class: "differs-from-encoder.Quote", exp: q, obs: fmt.Sprintf("%s err=%v", c20q(m), err)}
		}
		return nil
	})
	marshalCfg := func(name string, api sonic.API, html, valid bool) {
		add(name, 'r', false, func(in []byte, n *int64) *c20fail {
			*n++
			m, err := api.Marshal(string(in))
			if err != nil {
				return &c20fail{class: "error", exp: "a string literal", obs: err.Error()}
			}
			if f := c20checkLiteral(m, in, 1, true); f != nil {
				// without ValidateString raw invalid bytes are copied: then only the
				// encoding/json denotation applies
				if valid || f.class != "denotation-differs" {
					return f
				}
				if f2 := c20checkLiteral(m, in, 1, false); f2 != nil {
					return f2
				}
			}
			if html && c20htmlUnsafe(m) {
				return &c20fail{class: "html-unsafe-output", exp: "no raw < > & U+2028 U+2029", obs: c20q(m)}
			}
			if valid && !stdutf8.Valid(m) {
				return &c20fail{class: "invalid-utf8-in-output", exp: "valid UTF-8", obs: c20q(m)}
			}
			return nil
		})
	}
	marshalCfg("ConfigStd.Marshal(string)", sonic.ConfigStd, true, true)
	marshalCfg("Config{EscapeHTML}.Marshal(string)", c20cfgEsc, true, false)
	marshalCfg("Config{ValidateString}.Marshal(string)", c20cfgVal, false, true)
	add("sonic.Marshal(struct-string-tag)", 'r', false, func(in []byte, n *int64) *c20fail {
		*n++
		s := string(in)
		m, err := sonic.Marshal(c20strTag{S: s})
		if err != nil {
			return &c20fail{class: "error", exp: "an object", obs: err.Error()}
		}
		want := `{"S":` + string(vh.C20AlgQuote(nil, s, true)) + `}`
		if string(m) != want {
			return &c20fail{class: "differs-from-alg.Quote-double", exp: want, obs: c20q(m)}
		}
		lit := m[len(`{"S":`) : len(m)-1]
		return c20checkLiteral(lit, in, 2, false)
	})
	algQuote := func(double bool) func(in []byte, n *int64) *c20fail {
		return func(in []byte, n *int64) *c20fail {
			s := string(in)
			levels := 1
			if double {
				levels = 2
			}
			*n++
			ref0 := vh.C20AlgQuote(make([]byte, 0, 8*len(in)+16), s, double)
			if f := c20checkLiteral(ref0, in, levels, false); f != nil {
				return f
			}
			needed := len(ref0)
			const plen = 5
			for k := 0; k <= needed+2; k++ {
				buf, back := c20mkbuf(plen, k)
				*n++
				c20stat.sweepCalls++
				out := vh.C20AlgQuote(buf, s, double)
				if len(out) > 0 && &out[0] != &back[0] {
					c20stat.growthPaths++
				}
				if !c20prefixOK(out, plen) {
					return &c20fail{class: "prefix-clobbered", exp: "dst prefix preserved", obs: fmt.Sprintf("free cap %d: %s", k, c20q(out))}
				}
				if !bytes.Equal(out[plen:], ref0) {
					return &c20fail{class: "result-depends-on-capacity", exp: c20q(ref0), obs: fmt.Sprintf("free cap %d: %s", k, c20q(out[plen:]))}
				}
				if !c20tailOK(back, plen+k) {
					return &c20fail{class: "write-past-capacity", exp: "bytes behind cap(dst) untouched", obs: fmt.Sprintf("free cap %d", k)}
				}
			}
			return nil
		}
	}
	add("alg.Quote[single]:every-capacity", 'r', false, algQuote(false))
	add("alg.Quote[double]:every-capacity", 'r', false, algQuote(true))
	nativeQuote := func(mode int) func(in []byte, n *int64) *c20fail {
		return func(in []byte, n *int64) *c20fail {
			if len(in) == 0 {
				return nil
			}
			s := string(in)
			tab := &c20tabs()[mode]
			flags := uint64(0)
			if mode == 1 {
				flags = vh.C20FlagDoubleUnquote
			}
			cum := make([]int, len(in)+1)
			full := make([]byte, 0, len(in)*7)
			for i, b := range in {
				full = append(full, tab[b]...)
				cum[i+1] = len(full)
			}
			needed := len(full)
			scratch := make([]byte, 8+needed+2+c20tailLen)
			tmpl := c20template(len(scratch))
			for dn := 0; dn <= needed+2; dn++ {
				copy(scratch, tmpl)
				*n++
				c20stat.sweepCalls++
				ret, w := vh.C20NativeQuote(s, scratch[8:], dn, flags)
				at := func() string { return fmt.Sprintf("dn=%d ret=%d written=%d", dn, ret, w) }
				if !bytes.Equal(scratch[:8], tmpl[:8]) {
					return &c20fail{class: "write-before-destination", exp: "untouched", obs: at()}
				}
				if !bytes.Equal(scratch[8+dn:], tmpl[8+dn:]) {
					return &c20fail{class: "write-past-capacity", exp: "bytes behind dp+dn untouched", obs: at()}
				}
				if w < 0 || w > dn {
					return &c20fail{class: "reported-length-exceeds-capacity", exp: "0 <= *dn <= capacity", obs: at()}
				}
				got := scratch[8 : 8+w]
				if ret >= 0 {
					if ret != len(in) || !bytes.Equal(got, full) {
						return &c20fail{class: "success-with-wrong-output", exp: c20q(full), obs: at() + " " + c20q(got)}
					}
					continue
				}
				c20stat.restarts++
				k := ^ret
				if k < 0 || k > len(in) {
					return &c20fail{class: "consumed-count-out-of-range", exp: fmt.Sprintf("0..%d", len(in)), obs: at()}
				}
				if w != cum[k] || !bytes.Equal(got, full[:w]) {
					return &c20fail{class: "partial-output-inconsistent-with-consumed-count", exp: fmt.Sprintf("consumed %d => %s", k, c20q(full[:cum[k]])), obs: at() + " " + c20q(got)}
				}
				if dn >= 7*len(in) {
					return &c20fail{class: "destination-full-although-worst-case-fits", exp: "success", obs: at()}
				}
			}
			return nil
		}
	}
	add("native.Quote[single]:every-capacity", 'r', false, nativeQuote(0))
	add("native.Quote[double]:every-capacity", 'r', false, nativeQuote(1))

	// ---------------- raw role: HTML escape ----------------
	htmlOne := func(in, exp []byte, plen, k int, nilDst bool, n *int64) *c20fail {
		var buf, back []byte
		if !nilDst {
			buf, back = c20mkbuf(plen, k)
		}
		src := append(make([]byte, 0, len(in)), in...)
		var out []byte
		*n++
		c20stat.sweepCalls++
		if msg := c20catch(func() { out = encoder.HTMLEscape(buf, src) }); msg != "" {
			return &c20fail{class: "panic(" + c20slug(msg) + ")", exp: "dst + json.HTMLEscape(src)", obs: fmt.Sprintf("len(dst)=%d free cap=%d len(src)=%d: panic: %s", plen, k, len(in), msg), nomin: true}
		}
		if back != nil && len(out) > 0 && &out[0] != &back[0] {
			c20stat.growthPaths++
		}
		if !bytes.Equal(src, in) {
			return &c20fail{class: "source-modified", exp: c20q(in), obs: c20q(src)}
		}
		if !c20prefixOK(out, plen) {
			return &c20fail{class: "prefix-clobbered", exp: "dst prefix preserved", obs: fmt.Sprintf("len(dst)=%d free cap=%d: %s", plen, k, c20q(out))}
		}
		if !bytes.Equal(out[plen:], exp) {
			return &c20fail{class: "differs-from-json.HTMLEscape", exp: c20q(exp), obs: fmt.Sprintf("len(dst)=%d free cap=%d: %s", plen, k, c20q(out[plen:]))}
		}
		if back != nil && !c20tailOK(back, plen+k) {
			return &c20fail{class: "write-past-capacity", exp: "bytes behind cap(dst) untouched", obs: fmt.Sprintf("len(dst)=%d free cap=%d", plen, k)}
		}
		return nil
	}
	add("encoder.HTMLEscape:every-capacity", 'r', false, func(in []byte, n *int64) *c20fail {
		exp := c20stdHTMLEscape(in)
		if f := htmlOne(in, exp, 0, 0, true, n); f != nil {
			return f
		}
		for k := 0; k <= len(exp)+2; k++ {
			if f := htmlOne(in, exp, 5, k, false, n); f != nil {
				return f
			}
		}
		// ample room: no growth at all
		return htmlOne(in, exp, 5, len(exp)+2+64+len(in), false, n)
	})
	add("encoder.HTMLEscape:long-dst", 'r', false, func(in []byte, n *int64) *c20fail {
		exp := c20stdHTMLEscape(in)
		for _, plen := range []int{64, 70, 200} {
			for _, k := range []int{0, 1, len(exp), len(exp) + 70} {
				if f := htmlOne(in, exp, plen, k, false, n); f != nil {
					return f
				}
			}
		}
		return nil
	})
	add("native.HTMLEscape:every-capacity", 'r', false, func(in []byte, n *int64) *c20fail {
		if len(in) == 0 {
			return nil
		}
		exp := c20stdHTMLEscape(in)
		cum := make([]int, len(in)+1)
		o := 0
		for i := 0; i < len(in); {
			c := in[i]
			switch {
			case c == 0xe2 && i+2 < len(in) && in[i+1] == 0x80 && (in[i+2] == 0xa8 || in[i+2] == 0xa9):
				o += 6
				cum[i+1], cum[i+2], cum[i+3] = -1, -1, o
				i += 3
			case c == '<' || c == '>' || c == '&':
				o += 6
				cum[i+1] = o
				i++
			default:
				o++
				cum[i+1] = o
				i++
			}
		}
		if o != len(exp) {
			return &c20fail{class: "reference-selfcheck", exp: fmt.Sprint(len(exp)), obs: fmt.Sprint(o), nomin: true}
		}
		needed := len(exp)
		scratch := make([]byte, 8+needed+2+c20tailLen)
		tmpl := c20template(len(scratch))
		src := append(make([]byte, 0, len(in)), in...)
		for dn := 0; dn <= needed+2; dn++ {
			copy(scratch, tmpl)
			*n++
			c20stat.sweepCalls++
			ret, w := vh.C20NativeHTMLEscape(src, scratch[8:], dn)
			at := func() string { return fmt.Sprintf("dn=%d ret=%d written=%d", dn, ret, w) }
			if !bytes.Equal(scratch[:8], tmpl[:8]) {
				return &c20fail{class: "write-before-destination", exp: "untouched", obs: at()}
			}
			if !bytes.Equal(scratch[8+dn:], tmpl[8+dn:]) {
				return &c20fail{class: "write-past-capacity", exp: "bytes behind dp+dn untouched", obs: at()}
			}
			if w < 0 || w > dn {
				return &c20fail{class: "reported-length-exceeds-capacity", exp: "0 <= *dn <= capacity", obs: at()}
			}
			got := scratch[8 : 8+w]
			if ret >= 0 {
				if ret != len(in) || !bytes.Equal(got, exp) {
					return &c20fail{class: "success-with-wrong-output", exp: c20q(exp), obs: at() + " " + c20q(got)}
				}
				continue
			}
			c20stat.restarts++
			k := ^ret
			if k < 0 || k > len(in) || cum[k] < 0 {
				return &c20fail{class: "consumed-count-out-of-range-or-inside-a-sequence", exp: fmt.Sprintf("0..%d on a character boundary", len(in)), obs: at()}
			}
			if w != cum[k] || !bytes.Equal(got, exp[:w]) {
				return &c20fail{class: "partial-output-inconsistent-with-consumed-count", exp: fmt.Sprintf("consumed %d => %s", k, c20q(exp[:cum[k]])), obs: at() + " " + c20q(got)}
			}
		}
		return nil
	})

	// ---------------- raw role: UTF-8 ----------------
	add("utf8.Validate", 'r', true, func(in []byte, n *int64) *c20fail {
		*n++
		want := stdutf8.Valid(in)
		b := append(make([]byte, 0, len(in)), in...)
		if got := sutf8.Validate(b); got != want {
			return &c20fail{class: fmt.Sprintf("returns-%v-for-%s-input", got, map[bool]string{true: "valid", false: "invalid"}[want]), exp: fmt.Sprint(want), obs: fmt.Sprint(got)}
		}
		return nil
	})
	add("utf8.ValidateString", 'r', true, func(in []byte, n *int64) *c20fail {
		*n++
		want := stdutf8.Valid(in)
		if got := sutf8.ValidateString(string(in)); got != want {
			return &c20fail{class: fmt.Sprintf("returns-%v-for-%s-input", got, map[bool]string{true: "valid", false: "invalid"}[want]), exp: fmt.Sprint(want), obs: fmt.Sprint(got)}
		}
		return nil
	})
	add("utf8.CorrectWith", 'r', true, func(in []byte, n *int64) *c20fail {
		for ri, repl := range []string{c20fffd, "\\ufffd", "", "?"} {
			for _, cfg := range [][2]int{{-1, 0}, {3, 0}, {3, 7}, {3, 2*len(in) + 16}} {
				if len(in) > 1000 && cfg[1] == 7 {
					continue
				}
				plen := cfg[0]
				var buf, back []byte
				if plen >= 0 {
					buf, back = c20mkbuf(plen, cfg[1])
				} else {
					plen = 0
				}
				src := append(make([]byte, 0, len(in)), in...)
				exp := c20refCorrect(nil, in, repl)
				var out []byte
				*n++
				if msg := c20catch(func() { out = sutf8.CorrectWith(buf, src, repl) }); msg != "" {
					return &c20fail{class: "panic(" + c20slug(msg) + ")", exp: c20q(exp), obs: "panic: " + msg, nomin: true}
				}
				at := fmt.Sprintf("repl#%d len(dst)=%d free cap=%d: ", ri, plen, cfg[1])
				if !bytes.Equal(src, in) {
					return &c20fail{class: "source-modified", exp: c20q(in), obs: c20q(src)}
				}
				if !c20prefixOK(out, plen) {
					return &c20fail{class: "prefix-clobbered", exp: "dst prefix preserved", obs: at + c20q(out)}
				}
				if !bytes.Equal(out[plen:], exp) {
					return &c20fail{class: "differs-from-bytewise-replacement", exp: c20q(exp), obs: at + c20q(out[plen:])}
				}
				if back != nil && !c20tailOK(back, plen+cfg[1]) {
					return &c20fail{class: "write-past-capacity", exp: "bytes behind cap(dst) untouched", obs: at}
				}
			}
		}
		return nil
	})

	// ---------------- content role: direct unquote ----------------
	add("unquote.String", 'c', false, func(in []byte, n *int64) *c20fail {
		*n++
		exp, rerr := c20refUnquote(in, true, false)
		got, e := unquote.String(string(in))
		return c20cmpUnq(e == 0, []byte(got), exp, rerr)
	})
	add("unquote.IntoBytes", 'c', false, func(in []byte, n *int64) *c20fail {
		exp, rerr := c20refUnquote(in, true, false)
		s := string(in)
		// exact capacity, after a prefix region that IntoBytes is documented to overwrite
		back := make([]byte, len(in)+c20tailLen)
		for i := range back {
			back[i] = c20tailByte
		}
		m := back[0:0:len(in)]
		*n++
		e := unquote.IntoBytes(s, &m)
		if !c20tailOK(back, len(in)) {
			return &c20fail{class: "write-past-capacity", exp: "bytes behind cap(m)=len(s) untouched", obs: c20q(back[len(in):])}
		}
		if e == 0 && (len(m) > len(in) || (len(m) > 0 && &m[0] != &back[0])) {
			return &c20fail{class: "result-not-in-given-buffer", exp: "output in m", obs: fmt.Sprintf("len=%d", len(m))}
		}
		if f := c20cmpUnq(e == 0, m, exp, rerr); f != nil {
			return f
		}
		if len(in) > 0 {
			short := make([]byte, 0, len(in)-1)
			*n++
			if e := unquote.IntoBytes(s, &short); e == 0 {
				return &c20fail{class: "short-buffer-not-refused", exp: "error (cap(m) < len(s))", obs: "ok"}
			}
		}
		return nil
	})
	nativeUnquote := func(double, replace bool) func(in []byte, n *int64) *c20fail {
		return func(in []byte, n *int64) *c20fail {
			if len(in) == 0 {
				return nil
			}
			flags := uint64(0)
			if double {
				flags |= vh.C20FlagDoubleUnquote
			}
			if replace {
				flags |= vh.C20FlagUnicodeReplace
			}
			back := make([]byte, len(in)+c20tailLen)
			for i := range back {
				back[i] = c20tailByte
			}
			*n++
			ret, _ := vh.C20NativeUnquote(string(in), back, flags)
			if !c20tailOK(back, len(in)) {
				return &c20fail{class: "write-past-input-length", exp: "at most len(src) bytes written", obs: fmt.Sprintf("ret=%d %s", ret, c20q(back[len(in):]))}
			}
			if ret > len(in) {
				return &c20fail{class: "output-longer-than-input", exp: "<= len(src)", obs: fmt.Sprint(ret)}
			}
			var got []byte
			if ret >= 0 {
				got = back[:ret]
			}
			var f *c20fail
			if double {
				f = c20cmpDouble(ret >= 0, got, in, replace)
			} else {
				exp, rerr := c20refUnquote(in, replace, false)
				f = c20cmpUnq(ret >= 0, got, exp, rerr)
			}
			if f != nil && ret < 0 {
				// the native error code separates different causes of a rejection
				code := map[int]string{1: "eof", 2: "invalid-char", 3: "invalid-escape", 4: "invalid-unicode"}[-ret]
				if code == "" {
					code = "other-code"
				}
				f.class = "rejected(" + code + ")-but-reference-accepts"
			}
			return f
		}
	}
	add("native.Unquote[single,replace]", 'c', false, nativeUnquote(false, true))
	add("native.Unquote[single,strict]", 'c', false, nativeUnquote(false, false))
	add("native.Unquote[double,replace]", 'c', false, nativeUnquote(true, true))
	add("native.Unquote[double,strict]", 'c', false, nativeUnquote(true, false))

	// ---------------- content role: through Unmarshal ----------------
	lit := func(c []byte) []byte {
		d := make([]byte, 0, len(c)+2)
		d = append(d, '"')
		d = append(d, c...)
		return append(d, '"')
	}
	// default configuration: same answers as the direct routine (reference: c20refUnquote)
	viaDefault := func(name string, mk func(c []byte) []byte, dec func(doc []byte) (string, error)) {
		add(name, 'c', false, func(in []byte, n *int64) *c20fail {
			if c20hasRawQuote(in) {
				return nil
			}
			*n++
			exp, rerr := c20refUnquote(in, true, false)
			got, err := dec(mk(in))
			return c20cmpUnq(err == nil, []byte(got), exp, rerr)
		})
	}
	viaDefault("sonic.Unmarshal(string)", lit, func(doc []byte) (string, error) {
		var s string
		err := sonic.Unmarshal(doc, &s)
		return s, err
	})
	viaDefault("sonic.Unmarshal(interface)", lit, func(doc []byte) (string, error) {
		var v interface{}
		if err := sonic.Unmarshal(doc, &v); err != nil {
			return "", err
		}
		s, ok := v.(string)
		if !ok {
			return "", fmt.Errorf("not a string: %T", v)
		}
		return s, nil
	})
	viaDefault("sonic.Unmarshal(map-key)", func(c []byte) []byte {
		d := append([]byte(`{`), lit(c)...)
		return append(d, `:0}`...)
	}, func(doc []byte) (string, error) {
		var m map[string]int
		if err := sonic.Unmarshal(doc, &m); err != nil {
			return "", err
		}
		if len(m) != 1 {
			return "", fmt.Errorf("%d keys", len(m))
		}
		for k := range m {
			return k, nil
		}
		return "", nil
	})
	viaDefault("sonic.Get.String", lit, func(doc []byte) (string, error) {
		nd, err := sonic.GetFromString(string(doc))
		if err != nil {
			return "", err
		}
		return nd.String()
	})
	// strict (UseUnicodeErrors) decoder
	add("decoder(UseUnicodeErrors).Decode(string)", 'c', false, func(in []byte, n *int64) *c20fail {
		if c20hasRawQuote(in) {
			return nil
		}
		*n++
		exp, rerr := c20refUnquote(in, false, false)
		d := decoder.NewDecoder(string(lit(in)))
		d.SetOptions(decoder.OptionUseUnicodeErrors)
		var s string
		err := d.Decode(&s)
		return c20cmpUnq(err == nil, []byte(s), exp, rerr)
	})
	add("decoder(UseUnicodeErrors).Decode(interface)", 'c', false, func(in []byte, n *int64) *c20fail {
		if c20hasRawQuote(in) {
			return nil
		}
		*n++
		exp, rerr := c20refUnquote(in, false, false)
		d := decoder.NewDecoder(string(lit(in)))
		d.SetOptions(decoder.OptionUseUnicodeErrors)
		var v interface{}
		err := d.Decode(&v)
		s, _ := v.(string)
		return c20cmpUnq(err == nil, []byte(s), exp, rerr)
	})
	// `,string` field: double unquote
	strTagDoc := func(c []byte) string {
		return `{"S":"\"` + string(c) + `\""}`
	}
	add("sonic.Unmarshal(struct-string-tag)", 'c', false, func(in []byte, n *int64) *c20fail {
		if c20hasRawQuote(in) {
			return nil
		}
		*n++
		var v c20strTag
		err := sonic.UnmarshalString(strTagDoc(in), &v)
		return c20cmpDouble(err == nil, []byte(v.S), in, true)
	})
	add("decoder(UseUnicodeErrors).Decode(struct-string-tag)", 'c', false, func(in []byte, n *int64) *c20fail {
		if c20hasRawQuote(in) {
			return nil
		}
		*n++
		d := decoder.NewDecoder(strTagDoc(in))
		d.SetOptions(decoder.OptionUseUnicodeErrors)
		var v c20strTag
		err := d.Decode(&v)
		f := c20cmpDouble(err == nil, []byte(v.S), in, false)
		if f != nil && err == nil {
			// the option has no effect at all: the answer is the one of the replace mode
			if _, serr := c20refDouble(in, false, false); strings.HasSuffix(serr, "lone-surrogate") && c20cmpDouble(true, []byte(v.S), in, true) == nil {
				return &c20fail{class: "lone-surrogate-replaced-although-UseUnicodeErrors", exp: f.exp, obs: f.obs, nomin: true}
			}
		}
		return f
	})
	// ValidateString configurations: encoding/json is the reference, value and verdict
	viaStd := func(name string, api sonic.API, iface bool) {
		add(name, 'c', false, func(in []byte, n *int64) *c20fail {
			if c20hasRawQuote(in) {
				return nil
			}
			*n++
			doc := lit(in)
			var es, gs string
			var eerr, gerr error
			if iface {
				var ev, gv interface{}
				eerr = json.Unmarshal(doc, &ev)
				gerr = api.Unmarshal(append(make([]byte, 0, len(doc)), doc...), &gv)
				es, _ = ev.(string)
				gs, _ = gv.(string)
			} else {
				eerr = json.Unmarshal(doc, &es)
				gerr = api.Unmarshal(append(make([]byte, 0, len(doc)), doc...), &gs)
			}
			rerr := ""
			if eerr != nil {
				rerr = "encoding/json-error"
				es = ""
			}
			return c20cmpUnq(gerr == nil, []byte(gs), []byte(es), rerr)
		})
	}
	viaStd("ConfigStd.Unmarshal(string)", sonic.ConfigStd, false)
	viaStd("ConfigStd.Unmarshal(interface)", sonic.ConfigStd, true)
	viaStd("Config{ValidateString}.Unmarshal(string)", c20cfgVal, false)

	// the reference against encoding/json wherever encoding/json can judge
	add("ref-selfcheck", 'c', false, func(in []byte, n *int64) *c20fail {
		if c20hasRawQuote(in) {
			return nil
		}
		ctrl := false
		for _, b := range in {
			if b < 0x20 {
				ctrl = true
			}
		}
		exp, rerr := c20refUnquote(in, true, false)
		var s string
		err := json.Unmarshal(lit(in), &s)
		if ctrl {
			if err == nil {
				return &c20fail{class: "reference-selfcheck", exp: "encoding/json rejects control bytes", obs: "accepted", nomin: true}
			}
			return nil
		}
		if (err == nil) != (rerr == "") || (err == nil && s != string(c20toValid(exp))) {
			return &c20fail{class: "reference-selfcheck", exp: fmt.Sprintf("%q %v", s, err), obs: fmt.Sprintf("%s %s", c20q(exp), rerr), nomin: true}
		}
		return nil
	})
	return eps
}

// ---------------------------------------------------------------------------------------
// running one entry point, minimisation, keys

func c20run(ep *c20ep, in []byte, n *int64) (f *c20fail) {
	defer func() {
		if r := recover(); r != nil {
			f = &c20fail{class: "panic(" + c20slug(fmt.Sprint(r)) + ")", exp: "no panic", obs: fmt.Sprint(r), nomin: true}
		}
	}()
	return ep.fn(in, n)
}

// c20shrink: delta-debugging style deletion of chunks while the same entry point fails with
// the same class; bounded number of evaluations.
func c20shrink(ep *c20ep, in []byte, class string) []byte {
	cur := append([]byte{}, in...)
	budget := 1500
	var dummy int64
	pass := func(size int) bool {
		progress := false
		for i := 0; i+size <= len(cur) && budget > 0; {
			cand := append(append(make([]byte, 0, len(cur)-size), cur[:i]...), cur[i+size:]...)
			budget--
			if f := c20run(ep, cand, &dummy); f != nil && f.class == class {
				cur = cand
				progress = true
			} else if size <= 4 {
				i++ // sliding window for small chunks
			} else {
				i += size
			}
		}
		return progress
	}
	for size := (len(cur) + 1) / 2; size > 8; size /= 2 {
		pass(size)
	}
	for again := true; again && budget > 0; {
		again = false
		for size := 8; size >= 1; size-- {
			if pass(size) {
				again = true
			}
		}
	}
	// simplify: replace bytes by plainer ones as long as the failure stays the same, so that
	// the feature set in the key names only what is needed
	reps := []byte{'a'}
	if ep.role == 'r' {
		reps = []byte{'a', '"'}
	}
	for i := 0; i < len(cur) && budget > 0; i++ {
		for _, rb := range reps {
			if cur[i] == rb {
				break
			}
			cand := append([]byte{}, cur...)
			cand[i] = rb
			budget--
			if f := c20run(ep, cand, &dummy); f != nil && f.class == class {
				cur = cand
				break
			}
		}
	}
	return cur
}

type c20case struct {
	EP string `json:"ep"`
	In string `json:"in_hex"`
}

var c20shrinks = map[string]int{}

func c20isDouble(ep *c20ep) bool {
	return ep.role == 'c' && (strings.Contains(ep.name, "double") || strings.Contains(ep.name, "string-tag"))
}

// c20violation builds the violation; ok=false when the minimisation budget of this kind of
// failure is used up (the case is then only counted).
func c20violation(ep *c20ep, in []byte, f *c20fail, force bool) (v ev.Violation, ok bool) {
	var key, minNote string
	if f.nomin {
		key = ep.name + ":" + f.class
	} else {
		b1 := ep.name + "|" + f.class
		b2 := b1 + "|" + c20features(in, ep.role)
		if !force && (c20shrinks[b1] >= 160 || c20shrinks[b2] >= 3) {
			return v, false
		}
		c20shrinks[b1]++
		c20shrinks[b2]++
		min := c20shrink(ep, in, f.class)
		minNote = "  [minimised " + c20q(min) + "]"
		if c20isDouble(ep) {
			key = ep.name + ":" + c20dblPattern(min) + ":" + f.class
		} else {
			key = ep.name + ":" + c20features(min, ep.role) + ":" + f.class
		}
	}
	return ev.Violation{Property: "C20", Key: key,
		What:     ep.name + ": " + f.class,
		Case:     ev.J(c20case{ep.name, hex.EncodeToString(in)}),
		Expected: f.exp,
		Observed: f.obs + "  [input " + c20q(in) + "]" + minNote}, true
}

// ---------------------------------------------------------------------------------------
// spaces

var c20alphabet = []byte{'a', '\\', '"', 'u', 'd', '8', 'D', '0', 'n', '<', 0xC3, 0xA9, 0xFF, 0x01}

const c20U = "\\" + "u"

func c20payloads() []string {
	p := []string{
		"\\n", "\\\"", "\\\\", "\\/", c20U + "00e9",
		c20U + "d83d" + c20U + "de00", // pair
		c20U + "d83d",                 // lone high
		c20U + "de00",                 // lone low
		c20U + "d83d" + "x",
		c20U + "12", "\\x", "\\",
		c20U + "005c", c20U + "0022", c20U + "d83d" + c20U + "0061", c20U + "D83D" + c20U + "DE00",
		// doubly escaped forms (meaningful for the double-unquote mode)
		"\\\\n", "\\\\\\\"", "\\\\\\\\", "\\\\" + "u00e9", "\\\\" + "ud83d" + "\\\\" + "ude00", "\\\\" + "ud83d", "\\\\" + "ude00",
		"<", ">", "&", "\"", "\x7f",
		"\xc3\xa9",                     // U+00E9
		"\xe2\x82\xac",                 // U+20AC
		"\xf0\x9f\x98\x80",             // U+1F600
		"\xe2\x80\xa8", "\xe2\x80\xa9", // U+2028, U+2029
		"\xe2\x80", "\xe2\x80\xaa", "\xe2", // near misses of U+2028
		// malformed UTF-8 classes
		"\x80",             // lone continuation
		"\xc3",             // truncated 2-byte
		"\xe2\x82",         // truncated 3-byte
		"\xf0\x9f\x98",     // truncated 4-byte
		"\xf0\x9f",         //
		"\xc0\xaf",         // overlong 2-byte
		"\xe0\x80\xaf",     // overlong 3-byte
		"\xf0\x80\x80\xaf", // overlong 4-byte
		"\xed\xa0\x80",     // surrogate encoded
		"\xf4\x90\x80\x80", // > U+10FFFF
		"\xf8\x88\x80\x80\x80", "\xff", "\xfe",
	}
	for b := 0; b < 0x20; b++ {
		p = append(p, string([]byte{byte(b)}))
	}
	return p
}

func c20denseUnits() []string {
	return []string{"<", "\"", "\\", "\x01", "\n", "\xe2\x80\xa8", "\xc3\xa9", "\xff", "&a", "a<", "\x01\"", "<\xe2\x80\xa9"}
}

func c20tokens() []string {
	return []string{
		"a", "\\", "\"", "\\\\", "\\\"", "\\n", "\\/", c20U, c20U + "0061", c20U + "00e9",
		c20U + "d83d", c20U + "de00", c20U + "005c", c20U + "0022", c20U + "12", "\\x",
		"\xc3\xa9", "\xff", "\x01", "ude00", "<",
	}
}

// ---------------------------------------------------------------------------------------

func init() {
	eps := c20eps()
	find := func(name string) *c20ep {
		for i := range eps {
			if eps[i].name == name {
				return &eps[i]
			}
		}
		return nil
	}
	ev.Register(&ev.Check{
		ID: "C20", Level: "exploration", Workers: 16, QuickSecs: 150, ThorSecs: 1500,
		Rule: "inputs: (a) every byte string of length <=5 (quick) / <=6 (thorough) over the 14-byte alphabet {a \\ \" u d 8 D 0 n < C3 A9 FF 01}; " +
			"(b) every payload (escapes single and doubly escaped, surrogate pair / lone halves, malformed escapes, each control byte, DEL, < > &, quote, U+2028/9 and near misses, " +
			"2/3/4-byte UTF-8, one representative of each malformed UTF-8 class) at every offset inside 'a' filler for every total length 0..136 (quick: the every-capacity entry points only for lengths <=72 and 13 lengths around 80/96/112/128/136); " +
			"(c) every concatenation of <=4 (quick) / <=5 (thorough) escape tokens; (e) runs of 1..136 repetitions of 12 units that all need escaping (output outgrows the pre-sized destination: grow-and-restart loops); (d) UTF-8 strata around 4096 invalid bytes (CorrectWith position-list overflow). " +
			"Each input is used as a raw string (encoder.Quote, alg.Quote single/double and native.Quote with a canaried destination of EVERY free capacity 0..needed+2, " +
			"encoder.HTMLEscape with every capacity and long dst, native.HTMLEscape every capacity, utf8.Validate/ValidateString/CorrectWith, Marshal under 5 configurations, ast.NewString) " +
			"and as string-literal content (unquote.String/IntoBytes, native.Unquote under the 4 flag combinations, Unmarshal into string/interface/map key/`,string` field, ast String, " +
			"UseUnicodeErrors decoder, ConfigStd and Config{ValidateString} against encoding/json). Oracles: references in this file (see header). " +
			"distinct_nontrivial = distinct input byte strings (64-bit FNV, each string owned by exactly one worker) that contain at least one non-plain feature",
		Assume: []string{
			"encoding/json (Unmarshal, Valid, HTMLEscape), unicode/utf8 and unicode/utf16 are the trusted base; the 60-line unquote reference is cross-checked against encoding/json on every input it can judge",
			"CorrectWith reference = per-byte replacement (each byte where utf8.DecodeRune yields (RuneError,1)), i.e. encoding/json's coercion, not strings.ToValidUTF8's run collapsing",
			"double unquote reference = the single reference applied twice",
			"native routines are exercised as dispatched on this host; reading behind the input is C05's subject",
		},
		Run: func(c *ev.Ctx, r *ev.Report) {
			// worker processes run side by side: keep the Go runtime of each one small
			runtime.GOMAXPROCS(2)
			debug.SetGCPercent(800)
			seen := map[uint64]struct{}{}
			var cnt int64
			stop := false
			noSweep := false // quick tier: long strata lengths are thinned for the capacity sweeps
			visit := func(s0 []byte, kind string, longOnly bool) {
				if stop {
					return
				}
				h := fnv.New64a()
				h.Write(s0)
				hv := h.Sum64()
				if !c.Mine(int(hv % 1000003)) {
					return
				}
				if _, dup := seen[hv]; dup {
					r.Count("inputs_repeated_in_another_space", 1)
					return
				}
				seen[hv] = struct{}{}
				cnt++
				if cnt&0xff == 0 && c.Expired() {
					r.Exhaustive = false
					stop = true
					return
				}
				in := append(make([]byte, 0, len(s0)), s0...)
				c.SetCase(`{"ep":"*","in_hex":"` + hex.EncodeToString(in) + `"}`)
				r.Count("inputs_"+kind, 1)
				fr, fc := c20features(in, 'r'), c20features(in, 'c')
				if !strings.HasPrefix(fr, "plain") || !strings.HasPrefix(fc, "plain") {
					r.Distinct++
				}
				if len(in) <= 140 {
					r.SetAdd("input_length", fmt.Sprintf("%03d", len(in)))
				}
				_, rerr := c20refUnquote(in, true, false)
				if rerr == "" {
					rerr = "accepted"
					c20stat.refAccept++
				} else {
					c20stat.refReject++
				}
				r.SetAdd("reference_unquote_outcomes", rerr)
				if _, derr := c20refDouble(in, false, false); derr != "" {
					r.SetAdd("reference_double_strict_outcomes", derr)
				} else {
					r.SetAdd("reference_double_strict_outcomes", "accepted")
				}
				for _, f := range strings.Split(strings.SplitN(fc, "@", 2)[0], "+") {
					r.SetAdd("content_features", f)
				}
				for _, f := range strings.Split(strings.SplitN(fr, "@", 2)[0], "+") {
					r.SetAdd("raw_features", f)
				}
				if c20hasRawQuote(in) {
					c20stat.skippedQuote++
				}
				for i := range eps {
					ep := &eps[i]
					if longOnly && !ep.long {
						continue
					}
					if noSweep && ep.sweep {
						r.Count("strata_inputs_x_sweep_entry_points_left_to_thorough", 1)
						continue
					}
					var n int64
					f := c20run(ep, in, &n)
					r.Evaluations += n
					if f != nil {
						if v, ok := c20violation(ep, in, f, false); ok {
							r.Violate(v)
						} else {
							r.Count("violating_cases_total", 1)
							r.Count("violating_cases_not_minimised_kind_already_reported", 1)
						}
					}
				}
			}

			// (a) alphabet
			maxLen := 5
			if c.Thorough() {
				maxLen = 6
			}
			buf := make([]byte, 0, 8)
			var rec func()
			rec = func() {
				visit(buf, "alphabet", false)
				if len(buf) == maxLen || stop {
					return
				}
				for _, b := range c20alphabet {
					buf = append(buf, b)
					rec()
					buf = buf[:len(buf)-1]
				}
			}
			rec()

			// (c) escape tokens
			toks := c20tokens()
			maxTok := 4
			if c.Thorough() {
				maxTok = 5
			}
			var recT func(depth int)
			tb := make([]byte, 0, 64)
			recT = func(depth int) {
				visit(tb, "tokens", false)
				if depth == maxTok || stop {
					return
				}
				for _, t := range toks {
					l := len(tb)
					tb = append(tb, t...)
					recT(depth + 1)
					tb = tb[:l]
				}
			}
			recT(0)

			// (b) length strata
			const maxL = 136
			pls := c20payloads()
			sb := make([]byte, 0, maxL+8)
			sweepL := map[int]bool{79: true, 80: true, 81: true, 95: true, 96: true, 97: true, 111: true, 112: true, 113: true, 127: true, 128: true, 129: true, 136: true}
			for L := 0; L <= maxL && !stop; L++ {
				noSweep = !c.Thorough() && L > 72 && !sweepL[L]
				sb = sb[:0]
				for i := 0; i < L; i++ {
					sb = append(sb, 'a')
				}
				visit(sb, "strata", false)
				for _, p := range pls {
					if len(p) > L {
						continue
					}
					for off := 0; off+len(p) <= L; off++ {
						sb = sb[:0]
						for i := 0; i < off; i++ {
							sb = append(sb, 'a')
						}
						sb = append(sb, p...)
						for len(sb) < L {
							sb = append(sb, 'a')
						}
						visit(sb, "strata", false)
					}
				}
			}

			noSweep = false

			// (e) dense strata: runs of bytes that all need escaping, so that the output outgrows
			// every pre-sized destination and the grow-and-restart loops of alg.Quote and
			// alg.HtmlEscape are entered (a single payload never does that for HtmlEscape)
			for _, u := range c20denseUnits() {
				for N := 1; N <= maxL && !stop; N++ {
					sb = sb[:0]
					for i := 0; i < N; i++ {
						sb = append(sb, u...)
					}
					visit(sb, "dense", false)
					sb = append(sb[:0], 'a')
					for i := 0; i < N; i++ {
						sb = append(sb, u...)
					}
					visit(sb, "dense", false)
				}
			}

			// (d) long UTF-8 strata: more invalid bytes than the position list holds
			for _, s := range c20longUTF8() {
				visit(s, "utf8_long", true)
			}

			r.Count("native_calls_returning_destination_full", c20stat.restarts)
			r.Count("capacity_sweep_calls", c20stat.sweepCalls)
			r.Count("calls_that_grew_the_destination", c20stat.growthPaths)
			r.Count("reference_unquote_accepts", c20stat.refAccept)
			r.Count("reference_unquote_rejects", c20stat.refReject)
			r.Count("unmarshal_skipped_raw_quote_in_content", c20stat.skippedQuote)
			r.Count("entry_points", 0)
			if c.Shard == 0 {
				r.Count("entry_points", int64(len(eps)))
				r.Sample(map[string]string{"in": "a\\" + "ud83d" + "\\" + "ude00", "roles": "raw+content"})
				r.Sample(map[string]string{"in_hex": "61c3ff5c22", "roles": "raw+content"})
			}
		},
		Replay: func(c *ev.Ctx, desc json.RawMessage) *ev.Violation {
			var cs c20case
			if err := json.Unmarshal(desc, &cs); err != nil {
				return nil
			}
			in, err := hex.DecodeString(cs.In)
			if err != nil {
				return nil
			}
			var n int64
			if cs.EP == "*" || cs.EP == "" {
				for i := range eps {
					if eps[i].long || len(in) <= 1000 {
						if f := c20run(&eps[i], in, &n); f != nil {
							v, _ := c20violation(&eps[i], in, f, true)
							return &v
						}
					}
				}
				return nil
			}
			ep := find(cs.EP)
			if ep == nil {
				return nil
			}
			if f := c20run(ep, in, &n); f != nil {
				v, _ := c20violation(ep, in, f, true)
				return &v
			}
			return nil
		},
	})
}

func c20longUTF8() [][]byte {
	var out [][]byte
	rep := func(s string, n int) []byte { return []byte(strings.Repeat(s, n)) }
	for _, n := range []int{4094, 4095, 4096, 4097, 4098, 8191, 8192, 8193, 12289} {
		out = append(out, rep("\xff", n))
		out = append(out, rep("a\xff", n))
		out = append(out, append(rep("\xff", n), "\xc3\xa9"...))
		out = append(out, append(rep("\xff", n), "\xc3"...))
		out = append(out, append([]byte("\xc3\xa9a"), rep("\x80", n)...))
		out = append(out, rep("\xe2\x82", n/2))
		out = append(out, rep("\xc3\xa9", n))
		out = append(out, append(rep("\xc3\xa9", n), 0xc3))
		out = append(out, append(rep("a", n), 0xff))
	}
	return out
}
