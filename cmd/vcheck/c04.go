package main

import (
	"bytes"
	"encoding/json"
	"fmt"
	"math"
	"reflect"
	"strings"
	"unicode/utf8"

	"github.com/bytedance/sonic"
	"github.com/bytedance/sonic/encoder"

	"verif/internal/ev"
	"verif/internal/gen"
)

// C04: Marshal output is well-formed JSON and round-trips, under every option set.
// Engine E1: VAL over a subset of TYPE(2) x ALL 512 encoder option sets.

var encOptNames = []struct {
	bit  encoder.Options
	name string
}{
	{encoder.SortMapKeys, "SortMapKeys"}, {encoder.EscapeHTML, "EscapeHTML"}, {encoder.CompactMarshaler, "CompactMarshaler"},
	{encoder.NoQuoteTextMarshaler, "NoQuoteTextMarshaler"}, {encoder.NoNullSliceOrMap, "NoNullSliceOrMap"}, {encoder.ValidateString, "ValidateString"},
	{encoder.NoValidateJSONMarshaler, "NoValidateJSONMarshaler"}, {encoder.NoEncoderNewline, "NoEncoderNewline"}, {encoder.EncodeNullForInfOrNan, "EncodeNullForInfOrNan"},
}

// encOpts maps an index 0..511 to an option set.
func encOpts(i int) encoder.Options {
	var o encoder.Options
	for b, e := range encOptNames {
		if i&(1<<b) != 0 {
			o |= e.bit
		}
	}
	return o
}

func encOptString(i int) string {
	var l []string
	for b, e := range encOptNames {
		if i&(1<<b) != 0 {
			l = append(l, e.name)
		}
	}
	return strings.Join(l, "|")
}

// c04types: the subset of TYPE(2) used with all 512 option sets.
func c04types(thorough bool) []gen.TypeCase {
	var out []gen.TypeCase
	out = append(out, gen.LeafTypes()...)
	out = append(out, gen.UnsupportedLeaves()...)
	out = append(out, gen.HandTypes()...)
	reps := gen.RepLeaves()
	if thorough {
		reps = append(reps, gen.LeafTypes()[3], gen.LeafTypes()[12], gen.LeafTypes()[15], gen.LeafTypes()[17], gen.LeafTypes()[18], gen.LeafTypes()[25], gen.LeafTypes()[28])
	}
	for _, l := range reps {
		out = append(out, gen.Construct(l)...)
	}
	return out
}

// extra hand-made values: cyclic and very deep data
type c04extra struct {
	name  string
	mk    func() interface{}
	typed bool // mk returns plain data: the round trip is checked too
}

// long strings dense with characters that need escaping: the restartable native routines
// (HTML escape, quote) must grow their destination several times within one call
func c04longStrings() []c04extra {
	var l []c04extra
	for _, n := range []int{70, 1400, 9000, 40000} {
		for _, unit := range []string{"<", "&>", "\"", "a<", "\u2028", "\x00\"<"} {
			n, unit := n, unit
			s := strings.Repeat(unit, n/len(unit)+1)
			l = append(l, c04extra{fmt.Sprintf("long-string(%d x %q)", n, unit), func() interface{} { return s }, true})
			l = append(l, c04extra{fmt.Sprintf("long-string-in-struct(%d x %q)", n, unit), func() interface{} {
				return struct {
					A int
					S []string
					M map[string]string
				}{7, []string{"x", s}, map[string]string{s[:n/2]: s}}
			}, true})
		}
	}
	return l
}

// integer-keyed maps large enough, and with keys sharing enough leading digits, to send the
// key sorter past its insertion-sort size and its quicksort depth budget (heapsort fallback):
// under SortMapKeys every value must still come back under its own key
func c04intKeyMaps() []c04extra {
	var l []c04extra
	for _, n := range []int{11, 12, 16, 40, 100} {
		n := n
		l = append(l, c04extra{fmt.Sprintf("int64-key-map(%d keys, 16 shared digits)", n), func() interface{} {
			m := map[int64]string{}
			for i := 0; i < n; i++ {
				m[1700000000000000000+int64(i*7)] = fmt.Sprint("v", i)
			}
			return m
		}, true})
		l = append(l, c04extra{fmt.Sprintf("uint64-key-map-in-struct(%d keys, 17 shared digits)", n), func() interface{} {
			m := map[uint64]int{}
			for i := 0; i < n; i++ {
				m[18000000000000000000+uint64(i*3)] = i
			}
			return struct {
				A string
				M map[uint64]int
			}{"x", m}
		}, true})
	}
	return l
}

// values nested to the encoder's depth limit and one level either side of it (4096 states;
// a linked struct and a nested map take two states per level)
func c04depthLimit() []c04extra {
	var l []c04extra
	for _, n := range []int{2046, 2047, 2048, 2049, 4094, 4095, 4096, 4097} {
		n := n
		l = append(l, c04extra{fmt.Sprintf("nested-slices-%d", n), func() interface{} {
			var v interface{} = 1
			for i := 0; i < n; i++ {
				v = []interface{}{v}
			}
			return v
		}, false})
		l = append(l, c04extra{fmt.Sprintf("nested-maps-%d", n), func() interface{} {
			var v interface{} = 1
			for i := 0; i < n; i++ {
				v = map[string]interface{}{"a": v}
			}
			return v
		}, false})
		l = append(l, c04extra{fmt.Sprintf("linked-%d", n), func() interface{} {
			var head *gen.Rec
			for i := 0; i < n; i++ {
				head = &gen.Rec{V: i, Next: head}
			}
			return head
		}, false})
	}
	return l
}

func c04extras() []c04extra {
	return append(append(append(c04longStrings(), c04intKeyMaps()...), c04depthLimit()...), []c04extra{
		{"cyclic-pointer", func() interface{} { r := &gen.Rec{V: 1}; r.Next = r; return r }, false},
		{"cyclic-map", func() interface{} { m := map[string]interface{}{}; m["self"] = m; return m }, false},
		{"cyclic-slice", func() interface{} { s := make([]interface{}, 1); s[0] = s; return s }, false},
		{"deep-chain-5000", func() interface{} {
			var head *gen.Rec
			for i := 0; i < 5000; i++ {
				head = &gen.Rec{V: i, Next: head}
			}
			return head
		}, false},
		{"deep-slices-5000", func() interface{} {
			var v interface{} = 1
			for i := 0; i < 5000; i++ {
				v = []interface{}{v}
			}
			return v
		}, false},
	}...)
}

// plainData reports whether values of t round-trip through JSON by construction.
func plainData(t reflect.Type, d int) bool {
	if d > 6 {
		return false
	}
	if t.PkgPath() != "" && t.NumMethod() > 0 {
		return false
	}
	if reflect.PtrTo(t).NumMethod() > 0 && t.Name() != "" {
		return false
	}
	switch t.Kind() {
	case reflect.Bool, reflect.Int, reflect.Int8, reflect.Int16, reflect.Int32, reflect.Int64,
		reflect.Uint, reflect.Uint8, reflect.Uint16, reflect.Uint32, reflect.Uint64, reflect.Uintptr,
		reflect.Float32, reflect.Float64:
		return true
	case reflect.String:
		return t != reflect.TypeOf(json.Number(""))
	case reflect.Ptr:
		// **T: a pointer to a nil pointer encodes as null and decodes as a nil outer pointer
		return t.Elem().Kind() != reflect.Ptr && plainData(t.Elem(), d+1)
	case reflect.Slice:
		if t == reflect.TypeOf(json.RawMessage(nil)) {
			return false
		}
		return plainData(t.Elem(), d+1) && t.Elem().Kind() != reflect.Ptr
	case reflect.Array:
		return plainData(t.Elem(), d+1)
	case reflect.Map:
		k := t.Key().Kind()
		okKey := k == reflect.String || k == reflect.Int || k == reflect.Int8 || k == reflect.Int64 || k == reflect.Uint64
		return okKey && t.Key().NumMethod() == 0 && reflect.PtrTo(t.Key()).NumMethod() == 0 && plainData(t.Elem(), d+1) && t.Elem().Kind() != reflect.Ptr
	case reflect.Struct:
		for i := 0; i < t.NumField(); i++ {
			f := t.Field(i)
			if f.PkgPath != "" || f.Anonymous {
				return false
			}
			tag := f.Tag.Get("json")
			if tag == "-" || strings.Contains(tag, ",string") || strings.Contains(tag, "omitempty") {
				// "-" drops data; ",string" on non-scalar kinds is ignored differently;
				// omitempty + pointer-to-zero does not round-trip
				if tag == "-" || f.Type.Kind() == reflect.Ptr || strings.Contains(tag, ",string") {
					return false
				}
			}
			if !plainData(f.Type, d+1) {
				return false
			}
		}
		// two fields whose names only differ in case make decoding ambiguous
		seen := map[string]bool{}
		for i := 0; i < t.NumField(); i++ {
			n := t.Field(i).Name
			if tag := t.Field(i).Tag.Get("json"); tag != "" {
				if j := strings.IndexByte(tag, ','); j > 0 {
					n = tag[:j]
				} else if j < 0 {
					n = tag
				}
			}
			l := strings.ToLower(n)
			if seen[l] {
				return false
			}
			seen[l] = true
		}
		return true
	}
	return false
}

type valFacts struct {
	nanInf       bool
	invalidUTF8  bool
	nilContainer bool
}

func walkFacts(v reflect.Value, f *valFacts, d int) {
	if d > 50 || !v.IsValid() {
		return
	}
	switch v.Kind() {
	case reflect.Float32, reflect.Float64:
		if math.IsNaN(v.Float()) || math.IsInf(v.Float(), 0) {
			f.nanInf = true
		}
	case reflect.String:
		if !utf8.ValidString(v.String()) {
			f.invalidUTF8 = true
		}
	case reflect.Ptr, reflect.Interface:
		if !v.IsNil() {
			walkFacts(v.Elem(), f, d+1)
		}
	case reflect.Slice:
		if v.IsNil() {
			f.nilContainer = true
		}
		if v.Type().Elem().Kind() == reflect.Uint8 {
			return
		}
		for i := 0; i < v.Len(); i++ {
			walkFacts(v.Index(i), f, d+1)
		}
	case reflect.Array:
		for i := 0; i < v.Len(); i++ {
			walkFacts(v.Index(i), f, d+1)
		}
	case reflect.Map:
		if v.IsNil() {
			f.nilContainer = true
		}
		it := v.MapRange()
		for it.Next() {
			walkFacts(it.Key(), f, d+1)
			walkFacts(it.Value(), f, d+1)
		}
	case reflect.Struct:
		for i := 0; i < v.NumField(); i++ {
			walkFacts(v.Field(i), f, d+1)
		}
	}
}

// expectedAfterRoundTrip applies the *documented* option effects to a dump of the original:
// computed on a copy of the value.
func normalizeForRoundTrip(v reflect.Value, noNull, nullNaN bool, d int) {
	if d > 50 || !v.IsValid() {
		return
	}
	switch v.Kind() {
	case reflect.Float32, reflect.Float64:
		if nullNaN && v.CanSet() && (math.IsNaN(v.Float()) || math.IsInf(v.Float(), 0)) {
			v.SetFloat(0)
		}
	case reflect.Ptr:
		if !v.IsNil() {
			// a pointer to NaN/Inf is written as null, which decodes as a nil pointer
			if e := v.Elem(); nullNaN && v.CanSet() && (e.Kind() == reflect.Float64 || e.Kind() == reflect.Float32) && (math.IsNaN(e.Float()) || math.IsInf(e.Float(), 0)) {
				v.Set(reflect.Zero(v.Type()))
				return
			}
			// a pointer to a nil slice / map is written as null (without NoNullSliceOrMap),
			// which decodes as a nil pointer - in encoding/json as well
			if e := v.Elem(); !noNull && v.CanSet() && (e.Kind() == reflect.Slice || e.Kind() == reflect.Map) && e.IsNil() {
				v.Set(reflect.Zero(v.Type()))
				return
			}
			normalizeForRoundTrip(v.Elem(), noNull, nullNaN, d+1)
		}
	case reflect.Slice:
		if v.IsNil() {
			if noNull && v.CanSet() {
				v.Set(reflect.MakeSlice(v.Type(), 0, 0))
			}
			return
		}
		if v.Len() == 0 && v.Type().Elem().Kind() == reflect.Uint8 {
			return
		}
		for i := 0; i < v.Len(); i++ {
			normalizeForRoundTrip(v.Index(i), noNull, nullNaN, d+1)
		}
	case reflect.Array:
		for i := 0; i < v.Len(); i++ {
			normalizeForRoundTrip(v.Index(i), noNull, nullNaN, d+1)
		}
	case reflect.Map:
		if v.IsNil() {
			if noNull && v.CanSet() {
				v.Set(reflect.MakeMap(v.Type()))
			}
			return
		}
		it := v.MapRange()
		for it.Next() {
			e := reflect.New(v.Type().Elem()).Elem()
			e.Set(it.Value())
			normalizeForRoundTrip(e, noNull, nullNaN, d+1)
			v.SetMapIndex(it.Key(), e)
		}
	case reflect.Struct:
		for i := 0; i < v.NumField(); i++ {
			normalizeForRoundTrip(v.Field(i), noNull, nullNaN, d+1)
		}
	}
}

type c04case struct {
	Thorough bool   `json:"thorough"`
	TI       int    `json:"type_index"`
	VI       int    `json:"value_index"`
	Addr     bool   `json:"addr"`
	Opts     int    `json:"opts"`
	Type     string `json:"type"`
	OptNames string `json:"opt_names"`
	Extra    string `json:"extra,omitempty"`
}

func safeEncode(val interface{}, o encoder.Options) (out []byte, err error, pan string) {
	defer func() {
		if r := recover(); r != nil {
			pan = fmt.Sprint(r)
		}
	}()
	out, err = encoder.Encode(val, o)
	return
}

// freshEncode encodes into a fresh 16-byte buffer: every growth step of the output happens
// inside this one call, whatever earlier calls left in the encoder's buffer pool.
func freshEncode(val interface{}, o encoder.Options) (out []byte, err error, pan string) {
	defer func() {
		if r := recover(); r != nil {
			pan = fmt.Sprint(r)
		}
	}()
	buf := make([]byte, 0, 16)
	err = encoder.EncodeInto(&buf, val, o)
	return buf, err, ""
}

func typeHas(t reflect.Type, pred func(reflect.Type) bool, d int) bool {
	if d > 6 {
		return false
	}
	if pred(t) {
		return true
	}
	switch t.Kind() {
	case reflect.Ptr, reflect.Slice, reflect.Array:
		return typeHas(t.Elem(), pred, d+1)
	case reflect.Map:
		return typeHas(t.Key(), pred, d+1) || typeHas(t.Elem(), pred, d+1)
	case reflect.Struct:
		for i := 0; i < t.NumField(); i++ {
			if typeHas(t.Field(i).Type, pred, d+1) {
				return true
			}
		}
	}
	return false
}

var (
	textMarshalerT = reflect.TypeOf((*interface{ MarshalText() ([]byte, error) })(nil)).Elem()
	jsonMarshalerT = reflect.TypeOf((*json.Marshaler)(nil)).Elem()
)

func hasTextMarshaler(t reflect.Type) bool {
	return typeHas(t, func(x reflect.Type) bool {
		return x.Implements(textMarshalerT) || reflect.PtrTo(x).Implements(textMarshalerT) || x.Kind() == reflect.Interface
	}, 0)
}
func hasJSONMarshaler(t reflect.Type) bool {
	return typeHas(t, func(x reflect.Type) bool {
		return x.Implements(jsonMarshalerT) || reflect.PtrTo(x).Implements(jsonMarshalerT) || x.Kind() == reflect.Interface || x == reflect.TypeOf(json.RawMessage(nil))
	}, 0)
}

func c04judge(cs c04case, t reflect.Type, rv reflect.Value, val interface{}) *ev.Violation {
	o := encOpts(cs.Opts)
	out, err, pan := safeEncode(val, o)
	mk := func(class, exp, obs string) *ev.Violation {
		return &ev.Violation{Property: "C04", Key: "encode:" + class, What: "Marshal under option set {" + cs.OptNames + "}: " + class,
			Case: ev.J(cs), Expected: exp, Observed: clipS(obs, 300)}
	}
	if pan != "" {
		return mk("panic", "error value or output", pan)
	}
	if strings.HasPrefix(cs.Extra, "long-string") {
		// the same value into a fresh small buffer: the output grows several times inside one
		// call (the pooled buffer used above is usually large already)
		out2, err2, pan2 := freshEncode(val, o)
		if pan2 != "" {
			return mk("panic(fresh-buffer)", "error value or output", pan2)
		}
		if (err == nil) != (err2 == nil) || !bytes.Equal(out, out2) {
			i := 0
			for i < len(out) && i < len(out2) && out[i] == out2[i] {
				i++
			}
			return mk("output-depends-on-the-capacity-of-the-output-buffer", fmt.Sprintf("%d bytes, err=%v (pooled buffer)", len(out), err), fmt.Sprintf("%d bytes, err=%v (fresh 16-byte buffer); first difference at byte %d", len(out2), err2, i))
		}
	}
	_, jerr, jpan := safeMarshal(json.Marshal, val)
	var facts valFacts
	if rv.IsValid() {
		walkFacts(rv, &facts, 0)
	}
	if err == nil {
		// (a) exactly one well-formed value, no trailing bytes
		skipValid := (o&encoder.NoValidateJSONMarshaler != 0 && t != nil && hasJSONMarshaler(t)) ||
			(o&encoder.NoQuoteTextMarshaler != 0 && t != nil && hasTextMarshaler(t))
		if !skipValid && !json.Valid(out) {
			return mk("malformed-output", "well-formed JSON", string(out))
		}
		// (c) unrepresentable values must be errors
		if jerr != nil || jpan != "" {
			excused := false
			if ute, ok := jerr.(*json.UnsupportedTypeError); ok && ute.Type.Kind() == reflect.Map {
				k := ute.Type.Key().Kind()
				excused = k == reflect.Bool || k == reflect.Float64 || k == reflect.Float32 // recorded under C03
			}
			if _, ok := jerr.(*json.UnsupportedValueError); ok && facts.nanInf && o&encoder.EncodeNullForInfOrNan != 0 {
				excused = true
			}
			if me, ok := jerr.(*json.MarshalerError); ok {
				// invalid output of a user Marshaler may pass only when validation is disabled
				if o&encoder.NoValidateJSONMarshaler != 0 && !strings.Contains(me.Error(), "em-error") {
					excused = true
				}
				// NoQuoteTextMarshaler is a different contract for text marshalers
				if o&encoder.NoQuoteTextMarshaler != 0 {
					excused = true
				}
			}
			if !excused {
				return mk("text-for-unrepresentable-value", "error (encoding/json: "+fmt.Sprint(jerr)+jpan+")", string(out))
			}
		}
	}
	if err != nil {
		return nil
	}
	// (b) round trip for plain data
	if t == nil || !plainData(t, 0) || facts.invalidUTF8 {
		return nil
	}
	if facts.nanInf && o&encoder.EncodeNullForInfOrNan == 0 {
		return nil // was an error in std; handled above
	}
	want := reflect.New(t).Elem()
	want.Set(rv)
	// deep copy through the dump is not possible; normalise a structural copy instead
	want = deepCopy(want)
	normalizeForRoundTrip(want, o&encoder.NoNullSliceOrMap != 0, o&encoder.EncodeNullForInfOrNan != 0, 0)
	wd := gen.Dump(want)
	for _, dec := range []struct {
		name string
		f    func([]byte, interface{}) error
	}{{"sonic.Unmarshal", sonic.Unmarshal}, {"encoding/json.Unmarshal", json.Unmarshal}} {
		got := reflect.New(t)
		if e := dec.f(out, got.Interface()); e != nil {
			return mk("round-trip:"+dec.name+":rejects-output", "decodes", fmt.Sprintf("%v on %s", e, clipS(string(out), 120)))
		}
		gd := gen.Dump(got.Elem())
		if gd != wd && !equalModuloEmptyVsNil(gd, wd) {
			nz := strings.NewReplacer("f64(8000000000000000)", "f64(0000000000000000)", "f32(80000000)", "f32(00000000)")
			if nz.Replace(wd) == gd {
				// exact predicate: the only difference is that -0 came back as +0
				return mk("round-trip:"+dec.name+":negative-zero-decoded-as-positive-zero", clipS(wd, 300), gd+" via "+clipS(string(out), 100))
			}
			return mk("round-trip:"+dec.name+":value-differs", clipS(wd, 300), gd+" via "+clipS(string(out), 100))
		}
	}
	return nil
}

// equalModuloEmptyVsNil: JSON cannot distinguish an empty []byte from a nil one under "",
// nor (without NoNullSliceOrMap) can decoding `[]` / `{}` produce nil: those were normalised
// already; what remains is []byte("") -> "" -> empty non-nil.
func equalModuloEmptyVsNil(a, b string) bool {
	r := strings.NewReplacer("bytes()", "B", "nilslice", "B")
	return r.Replace(a) == r.Replace(b)
}

func deepCopy(v reflect.Value) reflect.Value {
	out := reflect.New(v.Type()).Elem()
	switch v.Kind() {
	case reflect.Ptr:
		if v.IsNil() {
			return out
		}
		p := reflect.New(v.Type().Elem())
		p.Elem().Set(deepCopy(v.Elem()))
		out.Set(p)
	case reflect.Slice:
		if v.IsNil() {
			return out
		}
		s := reflect.MakeSlice(v.Type(), v.Len(), v.Len())
		for i := 0; i < v.Len(); i++ {
			s.Index(i).Set(deepCopy(v.Index(i)))
		}
		out.Set(s)
	case reflect.Array:
		for i := 0; i < v.Len(); i++ {
			out.Index(i).Set(deepCopy(v.Index(i)))
		}
	case reflect.Map:
		if v.IsNil() {
			return out
		}
		m := reflect.MakeMap(v.Type())
		it := v.MapRange()
		for it.Next() {
			m.SetMapIndex(it.Key(), deepCopy(it.Value()))
		}
		out.Set(m)
	case reflect.Struct:
		for i := 0; i < v.NumField(); i++ {
			if out.Field(i).CanSet() {
				out.Field(i).Set(deepCopy(v.Field(i)))
			}
		}
	default:
		out.Set(v)
	}
	return out
}

// encOptSuite enumerates (type, value, addressability, option set). Unit = type index.
func encOptSuite(c *ev.Ctx, thorough bool, f func(cs c04case, t reflect.Type, rv reflect.Value, val interface{}) bool) {
	types := c04types(thorough)
	for ti, t := range types {
		if !c.Mine(ti) {
			continue
		}
		vals := gen.Values(t.T, 0)
		for vi, v := range vals {
			for _, addr := range []bool{false, true} {
				var val interface{} = v.Interface()
				if addr {
					p := reflect.New(t.T)
					p.Elem().Set(v)
					val = p.Interface()
				}
				for o := 0; o < 512; o++ {
					cs := c04case{thorough, ti, vi, addr, o, t.Name, encOptString(o), ""}
					if !f(cs, t.T, v, val) {
						return
					}
				}
			}
		}
	}
	for xi, x := range c04extras() {
		if !c.Mine(len(types) + xi) {
			continue
		}
		for o := 0; o < 512; o++ {
			cs := c04case{thorough, -1, xi, false, o, x.name, encOptString(o), x.name}
			v := x.mk()
			if x.typed {
				if !f(cs, reflect.TypeOf(v), reflect.ValueOf(v), v) {
					return
				}
				continue
			}
			if !f(cs, nil, reflect.Value{}, v) {
				return
			}
		}
	}
}

func init() {
	ev.Register(&ev.Check{
		ID: "C04", Level: "exploration", Workers: 16, QuickSecs: 150, ThorSecs: 1500,
		Rule: "VAL(T) over a subset of TYPE(2) (all leaves, hand-written shapes, every constructor over 6 (quick) / 13 (thorough) leaves) plus cyclic and 5000-deep values, by value and through a pointer, x ALL 512 encoder option sets; " +
			"oracle: success => json.Valid(out) (except where NoValidateJSONMarshaler/NoQuoteTextMarshaler hand the bytes to user code); whatever encoding/json cannot represent is an error, not text; " +
			"for plain-data types out decodes with sonic AND encoding/json to a value equal to the original (floats by bits) modulo the documented effects of NoNullSliceOrMap / EncodeNullForInfOrNan. " +
			"distinct_nontrivial = distinct (type,value,addr,option set) cases that produced output",
		Assume: []string{"encoding/json decides representability", "round trip is only asserted for types that are plain data by construction"},
		Run: func(c *ev.Ctx, r *ev.Report) {
			n := 0
			encOptSuite(c, c.Thorough(), func(cs c04case, t reflect.Type, rv reflect.Value, val interface{}) bool {
				n++
				if n&0xfff == 0 && c.Expired() {
					r.Exhaustive = false
					return false
				}
				if cs.Opts == 0 {
					c.SetCase(string(ev.J(cs)))
				}
				r.Evaluations++
				if v := c04judge(cs, t, rv, val); v != nil {
					r.Violate(*v)
				} else {
					r.Distinct++
				}
				if n%200000 == 1 {
					r.Sample(cs)
				}
				return true
			})
			r.SetAdd("option_sets", "512")
		},
		Replay: func(c *ev.Ctx, desc json.RawMessage) *ev.Violation {
			var cs c04case
			json.Unmarshal(desc, &cs)
			if cs.TI < 0 {
				xs := c04extras()
				if cs.VI >= len(xs) {
					return nil
				}
				v := xs[cs.VI].mk()
				if xs[cs.VI].typed {
					return c04judge(cs, reflect.TypeOf(v), reflect.ValueOf(v), v)
				}
				return c04judge(cs, nil, reflect.Value{}, v)
			}
			types := c04types(cs.Thorough)
			if cs.TI >= len(types) {
				return nil
			}
			t := types[cs.TI]
			vals := gen.Values(t.T, 0)
			if cs.VI >= len(vals) {
				return nil
			}
			var val interface{} = vals[cs.VI].Interface()
			if cs.Addr {
				p := reflect.New(t.T)
				p.Elem().Set(vals[cs.VI])
				val = p.Interface()
			}
			return c04judge(cs, t.T, vals[cs.VI], val)
		},
	})
}
