package main

// C18: each Config switch has exactly its documented effect (part A: all 2^16 Config values x
// probe set, judged as neighbour pairs c / c^bit) and every alternative entry point behaves
// like the corresponding frozen Config (part B: all 2^9 encoder / 192 legal decoder option sets).

import (
	"bytes"
	"encoding/json"
	"fmt"
	"hash/fnv"
	"math"
	"reflect"
	"regexp"
	"runtime/debug"
	"sort"
	"strconv"
	"strings"
	"unicode/utf8"
	"unsafe"

	"github.com/bytedance/sonic"
	"github.com/bytedance/sonic/decoder"
	"github.com/bytedance/sonic/encoder"

	"verif/internal/ev"
)

// ---------------------------------------------------------------------------------------
// configuration space

const (
	c18EscapeHTML = iota
	c18SortMapKeys
	c18CompactMarshaler
	c18NoQuoteTextMarshaler
	c18NoNullSliceOrMap
	c18UseInt64
	c18UseNumber
	c18UseUnicodeErrors
	c18DisallowUnknownFields
	c18CopyString
	c18ValidateString
	c18NoValidateJSONMarshaler
	c18NoValidateJSONSkip
	c18NoEncoderNewline
	c18EncodeNullForInfOrNan
	c18CaseSensitive
	c18NBits
)

var c18bitName = [c18NBits]string{"EscapeHTML", "SortMapKeys", "CompactMarshaler", "NoQuoteTextMarshaler",
	"NoNullSliceOrMap", "UseInt64", "UseNumber", "UseUnicodeErrors", "DisallowUnknownFields", "CopyString",
	"ValidateString", "NoValidateJSONMarshaler", "NoValidateJSONSkip", "NoEncoderNewline",
	"EncodeNullForInfOrNan", "CaseSensitive"}

// bits acting on the encoder / the decoder (ValidateString acts on both)
var c18encBits = []int{c18EscapeHTML, c18SortMapKeys, c18CompactMarshaler, c18NoQuoteTextMarshaler, c18NoNullSliceOrMap,
	c18ValidateString, c18NoValidateJSONMarshaler, c18NoEncoderNewline, c18EncodeNullForInfOrNan}
var c18decBits = []int{c18UseInt64, c18UseNumber, c18UseUnicodeErrors, c18DisallowUnknownFields, c18CopyString,
	c18ValidateString, c18NoValidateJSONSkip, c18CaseSensitive}

func c18has(cfg uint32, bit int) bool { return cfg>>uint(bit)&1 == 1 }

func c18isEncBit(bit int) bool {
	for _, b := range c18encBits {
		if b == bit {
			return true
		}
	}
	return false
}
func c18isDecBit(bit int) bool {
	for _, b := range c18decBits {
		if b == bit {
			return true
		}
	}
	return false
}

func c18cfg(b uint32) sonic.Config {
	return sonic.Config{
		EscapeHTML:              c18has(b, c18EscapeHTML),
		SortMapKeys:             c18has(b, c18SortMapKeys),
		CompactMarshaler:        c18has(b, c18CompactMarshaler),
		NoQuoteTextMarshaler:    c18has(b, c18NoQuoteTextMarshaler),
		NoNullSliceOrMap:        c18has(b, c18NoNullSliceOrMap),
		UseInt64:                c18has(b, c18UseInt64),
		UseNumber:               c18has(b, c18UseNumber),
		UseUnicodeErrors:        c18has(b, c18UseUnicodeErrors),
		DisallowUnknownFields:   c18has(b, c18DisallowUnknownFields),
		CopyString:              c18has(b, c18CopyString),
		ValidateString:          c18has(b, c18ValidateString),
		NoValidateJSONMarshaler: c18has(b, c18NoValidateJSONMarshaler),
		NoValidateJSONSkip:      c18has(b, c18NoValidateJSONSkip),
		NoEncoderNewline:        c18has(b, c18NoEncoderNewline),
		EncodeNullForInfOrNan:   c18has(b, c18EncodeNullForInfOrNan),
		CaseSensitive:           c18has(b, c18CaseSensitive),
	}
}

// c18legal: UseInt64 together with UseNumber panics in Decoder.SetOptions (documented in code).
func c18legal(b uint32) bool { return !(c18has(b, c18UseInt64) && c18has(b, c18UseNumber)) }

func c18encOpts(b uint32) encoder.Options {
	var o encoder.Options
	m := map[int]encoder.Options{c18EscapeHTML: encoder.EscapeHTML, c18SortMapKeys: encoder.SortMapKeys,
		c18CompactMarshaler: encoder.CompactMarshaler, c18NoQuoteTextMarshaler: encoder.NoQuoteTextMarshaler,
		c18NoNullSliceOrMap: encoder.NoNullSliceOrMap, c18ValidateString: encoder.ValidateString,
		c18NoValidateJSONMarshaler: encoder.NoValidateJSONMarshaler, c18NoEncoderNewline: encoder.NoEncoderNewline,
		c18EncodeNullForInfOrNan: encoder.EncodeNullForInfOrNan}
	for bit, opt := range m {
		if c18has(b, bit) {
			o |= opt
		}
	}
	return o
}

func c18decOpts(b uint32) decoder.Options {
	var o decoder.Options
	m := map[int]decoder.Options{c18UseInt64: decoder.OptionUseInt64, c18UseNumber: decoder.OptionUseNumber,
		c18UseUnicodeErrors: decoder.OptionUseUnicodeErrors, c18DisallowUnknownFields: decoder.OptionDisableUnknown,
		c18CopyString: decoder.OptionCopyString, c18ValidateString: decoder.OptionValidateString,
		c18NoValidateJSONSkip: decoder.OptionNoValidateJSON, c18CaseSensitive: decoder.OptionCaseSensitive}
	for bit, opt := range m {
		if c18has(b, bit) {
			o |= opt
		}
	}
	return o
}

// c18spread maps a dense index over the given bit list to a Config bit-set.
func c18spread(idx uint32, bits []int) uint32 {
	var c uint32
	for i, b := range bits {
		if idx>>uint(i)&1 == 1 {
			c |= 1 << uint(b)
		}
	}
	return c
}

// ---------------------------------------------------------------------------------------
// canonical rendering of decoded values (with type tags)

var c18numType = reflect.TypeOf(json.Number(""))
var c18intLit = regexp.MustCompile(`^-?[0-9]+$`)

func c18f64(f float64) string {
	s := strconv.FormatFloat(f, 'g', -1, 64)
	if f == 0 && math.Signbit(f) {
		s = "-0"
	}
	return s
}

// mode 0: as is; 1: json.Number inside interface{} rendered as the float64 it denotes;
// 2: as int64 when it is an integer literal in range, else float64.
func c18render(sb *strings.Builder, v reflect.Value, mode int, inIface bool) {
	if !v.IsValid() {
		sb.WriteString("invalid")
		return
	}
	t := v.Type()
	if mode == 3 && t == c18numType {
		sb.WriteString("#")
		return
	}
	if inIface {
		if t == c18numType && mode != 0 {
			lit := v.String()
			if mode == 2 && c18intLit.MatchString(lit) {
				if i, err := strconv.ParseInt(lit, 10, 64); err == nil {
					sb.WriteString("int64:" + strconv.FormatInt(i, 10))
					return
				}
			}
			f, err := strconv.ParseFloat(lit, 64)
			if err != nil {
				sb.WriteString("float64:ERR(" + lit + ")")
				return
			}
			sb.WriteString("float64:" + c18f64(f))
			return
		}
		sb.WriteString(t.String())
		sb.WriteByte(':')
	}
	switch v.Kind() {
	case reflect.Interface:
		if v.IsNil() {
			sb.WriteString("nil")
			return
		}
		sb.WriteByte('<')
		c18render(sb, v.Elem(), mode, true)
		sb.WriteByte('>')
	case reflect.Ptr:
		if v.IsNil() {
			sb.WriteString("nilptr")
			return
		}
		sb.WriteByte('&')
		c18render(sb, v.Elem(), mode, false)
	case reflect.Struct:
		sb.WriteByte('{')
		for i := 0; i < v.NumField(); i++ {
			sb.WriteString(t.Field(i).Name)
			sb.WriteByte('=')
			c18render(sb, v.Field(i), mode, false)
			sb.WriteByte(';')
		}
		sb.WriteByte('}')
	case reflect.Map:
		if v.IsNil() {
			sb.WriteString("nilmap")
			return
		}
		type kv struct{ k, v string }
		var l []kv
		it := v.MapRange()
		for it.Next() {
			var kb, vb strings.Builder
			c18render(&kb, it.Key(), mode, false)
			c18render(&vb, it.Value(), mode, false)
			l = append(l, kv{kb.String(), vb.String()})
		}
		sort.Slice(l, func(i, j int) bool { return l[i].k < l[j].k })
		sb.WriteString("map[")
		for _, e := range l {
			sb.WriteString(e.k + "=>" + e.v + ",")
		}
		sb.WriteByte(']')
	case reflect.Slice:
		if v.IsNil() {
			sb.WriteString("nilslice")
			return
		}
		if t.Elem().Kind() == reflect.Uint8 {
			sb.WriteString(fmt.Sprintf("bytes:%x", v.Bytes()))
			return
		}
		fallthrough
	case reflect.Array:
		sb.WriteByte('[')
		for i := 0; i < v.Len(); i++ {
			c18render(sb, v.Index(i), mode, false)
			sb.WriteByte(',')
		}
		sb.WriteByte(']')
	case reflect.String:
		if t == c18numType {
			sb.WriteString("N" + strconv.Quote(v.String()))
		} else {
			sb.WriteString(strconv.Quote(v.String()))
		}
	case reflect.Float32, reflect.Float64:
		sb.WriteString(c18f64(v.Float()))
	case reflect.Int, reflect.Int8, reflect.Int16, reflect.Int32, reflect.Int64:
		sb.WriteString(strconv.FormatInt(v.Int(), 10))
	case reflect.Uint, reflect.Uint8, reflect.Uint16, reflect.Uint32, reflect.Uint64:
		sb.WriteString(strconv.FormatUint(v.Uint(), 10))
	case reflect.Bool:
		sb.WriteString(strconv.FormatBool(v.Bool()))
	default:
		sb.WriteString("?" + t.String())
	}
}

func c18renderDst(dst interface{}, mode int) string {
	var sb strings.Builder
	c18render(&sb, reflect.ValueOf(dst).Elem(), mode, false)
	return sb.String()
}

// ---------------------------------------------------------------------------------------
// error classes

func c18decErrClass(err error) string {
	if err == nil {
		return "ok"
	}
	switch e := err.(type) {
	case decoder.SyntaxError:
		return "syntax:" + e.Code.Message()
	case *decoder.SyntaxError:
		return "syntax:" + e.Code.Message()
	case *decoder.MismatchTypeError:
		return "mismatch"
	}
	m := err.Error()
	if strings.HasPrefix(m, "json: unknown field") {
		return "unknown-field"
	}
	if m == "EOF" || m == "unexpected EOF" {
		return "io:" + m
	}
	if len(m) > 40 {
		m = m[:40]
	}
	return fmt.Sprintf("%T:%s", err, m)
}

func c18encErrClass(err error) string {
	switch err.(type) {
	case *json.UnsupportedValueError:
		return "unsupported-value"
	case *json.SyntaxError:
		return "marshaler-invalid"
	}
	m := err.Error()
	if strings.HasPrefix(m, "invalid Marshaler output") {
		return "marshaler-invalid"
	}
	if strings.Contains(m, "c18 marshaler failure") {
		return "marshaler-returned-error"
	}
	if len(m) > 40 {
		m = m[:40]
	}
	return fmt.Sprintf("%T:%s", err, m)
}

// ---------------------------------------------------------------------------------------
// references: key-order canonicalisation, UTF-8 correction, quoting

// c18unquoteKey decodes a raw JSON string literal (with quotes) leniently to bytes.
func c18unquoteKey(raw []byte) string {
	if len(raw) < 2 {
		return string(raw)
	}
	s := raw[1 : len(raw)-1]
	out := make([]byte, 0, len(s))
	for i := 0; i < len(s); i++ {
		c := s[i]
		if c != '\\' || i+1 >= len(s) {
			out = append(out, c)
			continue
		}
		i++
		switch s[i] {
		case 'n':
			out = append(out, '\n')
		case 't':
			out = append(out, '\t')
		case 'r':
			out = append(out, '\r')
		case 'b':
			out = append(out, '\b')
		case 'f':
			out = append(out, '\f')
		case 'u':
			if i+5 <= len(s) {
				if r, err := strconv.ParseUint(string(s[i+1:i+5]), 16, 32); err == nil {
					out = utf8.AppendRune(out, rune(r))
					i += 4
					continue
				}
			}
			out = append(out, 'u')
		default:
			out = append(out, s[i])
		}
	}
	return string(out)
}

type c18cp struct {
	s []byte
	i int
}

func (p *c18cp) ws() {
	for p.i < len(p.s) && (p.s[p.i] == ' ' || p.s[p.i] == '\n' || p.s[p.i] == '\t' || p.s[p.i] == '\r') {
		p.i++
	}
}

func (p *c18cp) str() ([]byte, bool) {
	st := p.i
	p.i++
	for p.i < len(p.s) {
		if p.s[p.i] == '\\' {
			p.i += 2
			continue
		}
		if p.s[p.i] == '"' {
			p.i++
			return p.s[st:p.i], true
		}
		p.i++
	}
	return nil, false
}

func (p *c18cp) wsRaw() []byte {
	st := p.i
	p.ws()
	return p.s[st:p.i]
}

// value parses one value at p.i (no leading whitespace) and returns it with the members of
// every object re-ordered by decoded key; all other bytes (whitespace included) are kept.
func (p *c18cp) value() ([]byte, bool) {
	if p.i >= len(p.s) {
		return nil, false
	}
	switch p.s[p.i] {
	case '{':
		p.i++
		type mem struct {
			k   string
			raw []byte
		}
		var ms []mem
		lead := p.wsRaw()
		if p.i < len(p.s) && p.s[p.i] == '}' {
			p.i++
			return append(append([]byte{'{'}, lead...), '}'), true
		}
		for {
			if p.i >= len(p.s) || p.s[p.i] != '"' {
				return nil, false
			}
			k, ok := p.str()
			if !ok {
				return nil, false
			}
			raw := append(append([]byte{}, lead...), k...)
			raw = append(raw, p.wsRaw()...)
			if p.i >= len(p.s) || p.s[p.i] != ':' {
				return nil, false
			}
			p.i++
			raw = append(raw, ':')
			raw = append(raw, p.wsRaw()...)
			v, ok := p.value()
			if !ok {
				return nil, false
			}
			raw = append(raw, v...)
			raw = append(raw, p.wsRaw()...)
			ms = append(ms, mem{c18unquoteKey(k), raw})
			if p.i >= len(p.s) {
				return nil, false
			}
			if p.s[p.i] == ',' {
				p.i++
				lead = p.wsRaw()
				continue
			}
			if p.s[p.i] == '}' {
				p.i++
				break
			}
			return nil, false
		}
		sort.SliceStable(ms, func(i, j int) bool { return ms[i].k < ms[j].k })
		out := []byte{'{'}
		for i, m := range ms {
			if i > 0 {
				out = append(out, ',')
			}
			out = append(out, m.raw...)
		}
		return append(out, '}'), true
	case '[':
		p.i++
		out := []byte{'['}
		out = append(out, p.wsRaw()...)
		if p.i < len(p.s) && p.s[p.i] == ']' {
			p.i++
			return append(out, ']'), true
		}
		for {
			v, ok := p.value()
			if !ok {
				return nil, false
			}
			out = append(out, v...)
			out = append(out, p.wsRaw()...)
			if p.i >= len(p.s) {
				return nil, false
			}
			if p.s[p.i] == ',' {
				p.i++
				out = append(out, ',')
				out = append(out, p.wsRaw()...)
				continue
			}
			if p.s[p.i] == ']' {
				p.i++
				return append(out, ']'), true
			}
			return nil, false
		}
	case '"':
		return p.str()
	default:
		st := p.i
		for p.i < len(p.s) && !strings.ContainsRune(",]} \n\t\r", rune(p.s[p.i])) {
			p.i++
		}
		if st == p.i {
			return nil, false
		}
		return p.s[st:p.i], true
	}
}

// c18canon re-emits a JSON text with the members of every object in (decoded) key byte
// order; text that does not parse is returned unchanged.
func c18canon(b []byte) []byte {
	p := &c18cp{s: b}
	lead := p.wsRaw()
	out, ok := p.value()
	if !ok {
		return b
	}
	trail := p.wsRaw()
	if p.i != len(b) {
		return b
	}
	return append(append(append([]byte{}, lead...), out...), trail...)
}

// c18fixUTF8: every byte that is not part of a valid UTF-8 sequence becomes the six
// characters \ufffd (what encoding/json emits for invalid UTF-8 in strings).
func c18fixUTF8(b []byte, repl string) []byte {
	if utf8.Valid(b) {
		return b
	}
	out := make([]byte, 0, len(b)+8)
	for i := 0; i < len(b); {
		r, n := utf8.DecodeRune(b[i:])
		if r == utf8.RuneError && n == 1 {
			out = append(out, repl...)
			i++
			continue
		}
		out = append(out, b[i:i+n]...)
		i += n
	}
	return out
}

func c18htmlEscape(b []byte) []byte {
	var w bytes.Buffer
	json.HTMLEscape(&w, b)
	return w.Bytes()
}

// c18fin applies the whole-buffer finishing steps of a config to a text fragment.
func c18fin(cfg uint32, s string) string {
	b := []byte(s)
	if c18has(cfg, c18EscapeHTML) {
		b = c18htmlEscape(b)
	}
	if c18has(cfg, c18ValidateString) {
		b = c18fixUTF8(b, c18repl)
	}
	return string(b)
}

// c18quote: JSON quoting of a text without control characters (only " and \ need escapes);
// invalid UTF-8 is kept (sonic keeps it unless ValidateString).
func c18quote(s string) string {
	var sb strings.Builder
	sb.WriteByte('"')
	for i := 0; i < len(s); i++ {
		if s[i] == '"' || s[i] == '\\' {
			sb.WriteByte('\\')
		}
		sb.WriteByte(s[i])
	}
	sb.WriteByte('"')
	return sb.String()
}

func c18hash(s string) uint64 {
	h := fnv.New64a()
	h.Write([]byte(s))
	return h.Sum64()
}

var _ = unsafe.Pointer(nil)

// c18repl: the six characters backslash-u-f-f-f-d
const c18repl = "\\u" + "fffd"

// ---------------------------------------------------------------------------------------
// encode probes

type c18tm struct{ s string }

func (t c18tm) MarshalText() ([]byte, error) { return []byte(t.s), nil }

type c18jm struct{ s string }

func (j c18jm) MarshalJSON() ([]byte, error) { return []byte(j.s), nil }

type c18jmErr struct{}

func (c18jmErr) MarshalJSON() ([]byte, error) { return nil, fmt.Errorf("c18 marshaler failure") }

// field names are in byte order on purpose: the key-order canonicalisation re-sorts every
// object, and must be the identity on struct objects (c18run verifies this for every atom).
type c18nils struct {
	B  []byte
	E  []int
	EM map[string]int
	I  interface{}
	IS interface{}
	M  map[string]int
	P  *int
	S  []int
}
type c18nilsShadow struct {
	B  []int
	E  []int
	EM map[string]int
	I  interface{}
	IS interface{}
	M  map[string]int
	P  *int
	S  []int
}
type c18omit struct {
	O []int          `json:"O,omitempty"`
	M map[string]int `json:"M,omitempty"`
	K int
}
type c18plain struct {
	A int
	B string
	C bool
	D *int
}

type c18jmInfo struct {
	text   string
	valid  bool
	marker string // valid compact placeholder used by the raw-insertion shadow
}

// c18enc is one encode probe. The shadows are values of the same shape whose output is what
// the documented effect of one switch must produce.
type c18enc struct {
	name     string
	class    string    // failure-class label used in violation keys
	parts    []*c18enc // composite: the atoms
	v        interface{}
	vEmpty   interface{} // nil slices/maps replaced by empty ones
	vNoNaN   interface{} // NaN/Inf replaced by something encoding as null
	vJMark   interface{} // invalid json.Marshaler texts replaced by their markers
	hasNil   bool
	hasNaN   bool
	multiKey bool
	jms      []c18jmInfo
	tms      []string
	unsafeJ  bool // output may not be valid JSON (raw text / invalid marshaler)
}

func (p *c18enc) shadow(kind string) *c18enc {
	q := &c18enc{name: p.name + "~" + kind, multiKey: p.multiKey, unsafeJ: p.unsafeJ}
	switch kind {
	case "empty":
		q.v = p.vEmpty
	case "nonan":
		q.v = p.vNoNaN
	case "jmark":
		q.v = p.vJMark
	}
	q.vEmpty, q.vNoNaN, q.vJMark = q.v, q.v, q.v
	return q
}

func c18encAtoms() []*c18enc {
	nan, inf := math.NaN(), math.Inf(1)
	one := 1.0
	var nilInts []int
	mk := func(name string, v interface{}) *c18enc {
		return &c18enc{name: name, v: v, vEmpty: v, vNoNaN: v, vJMark: v}
	}
	var l []*c18enc
	add := func(p *c18enc) *c18enc { l = append(l, p); return p }
	add(mk("html-string", "<a href=\"x\">&</a>\u2028\u2029"))
	add(mk("html-key", map[string]int{"<k>&": 1}))
	add(mk("html-tag", struct {
		X string `json:"<&>"`
	}{"v>"}))
	add(mk("map-multi", map[string]int{"b": 1, "a": 2, "c": 3, "B": 4, "aa": 5, "": 6})).multiKey = true
	add(mk("map-int-keys", map[int]string{10: "x", 9: "y", -1: "z", 100: "w"})).multiKey = true
	add(mk("map-html-keys", map[string]int{"<": 1, "a": 2, "&": 3, "\\": 4, "z": 5})).multiKey = true
	add(mk("map-nested", map[string]map[string]int{"z": {"b": 1, "a": 2}, "y": {"d": 1, "c": 2}})).multiKey = true
	add(mk("map-iface", map[string]interface{}{"b": []interface{}{1, "x"}, "a": nil, "c": true})).multiKey = true
	p := add(mk("nil-fields", c18nils{E: []int{}, EM: map[string]int{}, IS: []int(nil)}))
	p.hasNil, p.vEmpty = true, c18nilsShadow{S: []int{}, M: map[string]int{}, E: []int{}, EM: map[string]int{}, B: []int{}, IS: []int{}}
	p = add(mk("nil-slice-top", []int(nil)))
	p.hasNil, p.vEmpty = true, []int{}
	p = add(mk("nil-map-top", map[string]int(nil)))
	p.hasNil, p.vEmpty = true, map[string]int{}
	p = add(mk("nil-in-slice", [][]int{nil, {}}))
	p.hasNil, p.vEmpty = true, [][]int{{}, {}}
	p = add(mk("nil-in-map", map[string][]int{"a": nil}))
	p.hasNil, p.vEmpty = true, map[string][]int{"a": {}}
	p = add(mk("nil-in-iface", []interface{}{[]int(nil), map[string]interface{}(nil), []byte(nil), (*int)(nil), nil}))
	p.hasNil, p.vEmpty = true, []interface{}{[]int{}, map[string]interface{}{}, []int{}, (*int)(nil), nil}
	add(mk("nil-omitempty", c18omit{K: 3}))
	p = add(mk("nil-behind-ptr", struct{ P *[]int }{&nilInts}))
	p.hasNil, p.vEmpty = true, struct{ P *[]int }{&[]int{}}
	p = add(mk("nan-top", nan))
	p.hasNaN, p.vNoNaN = true, (*int)(nil)
	p = add(mk("inf-in-slice", []float64{1, inf}))
	p.hasNaN, p.vNoNaN = true, []*float64{&one, nil}
	p = add(mk("neginf-f32-field", struct{ F float32 }{float32(math.Inf(-1))}))
	p.hasNaN, p.vNoNaN = true, struct{ F *float32 }{nil}
	p = add(mk("nan-in-iface-map", map[string]interface{}{"a": nan}))
	p.hasNaN, p.vNoNaN = true, map[string]interface{}{"a": nil}
	p = add(mk("nan-behind-ptr", struct{ P *float64 }{&nan}))
	p.hasNaN, p.vNoNaN = true, struct{ P *float64 }{nil}
	p = add(mk("tm-value-html", c18tm{"tm<x>"}))
	p.tms, p.unsafeJ = []string{"tm<x>"}, true
	p = add(mk("tm-prequoted", c18tm{`"tmQ"`}))
	p.tms, p.unsafeJ = []string{`"tmQ"`}, true
	p = add(mk("tm-key", map[c18tm]int{{"tmK"}: 1}))
	p.tms, p.unsafeJ = []string{"tmK"}, true
	p = add(mk("tm-in-slice", []c18tm{{`tm"b`}}))
	p.tms, p.unsafeJ = []string{`tm"b`}, true
	p = add(mk("tm-badutf8", struct{ T c18tm }{c18tm{"tm\xff"}}))
	p.tms, p.unsafeJ = []string{"tm\xff"}, true
	p = add(mk("jm-noncompact", c18jm{`{ "a" : [81, 82] }`}))
	p.jms = []c18jmInfo{{`{ "a" : [81, 82] }`, true, ""}}
	p = add(mk("jm-invalid", []interface{}{"x", c18jm{`{"a":}`}}))
	p.jms, p.unsafeJ = []c18jmInfo{{`{"a":}`, false, `"@J1@"`}}, true
	p.vJMark = []interface{}{"x", c18jm{`"@J1@"`}}
	p = add(mk("jm-html", c18jm{`{"a":"<"}`}))
	p.jms = []c18jmInfo{{`{"a":"<"}`, true, ""}}
	p = add(mk("jm-empty", struct{ J c18jm }{c18jm{``}}))
	p.jms, p.unsafeJ = []c18jmInfo{{``, false, `"@J2@"`}}, true
	p.vJMark = struct{ J c18jm }{c18jm{`"@J2@"`}}
	p = add(mk("jm-ws", []c18jm{{"71 "}, {" 72"}, {"[73,\n74]"}}))
	p.jms = []c18jmInfo{{"71 ", true, ""}, {" 72", true, ""}, {"[73,\n74]", true, ""}}
	p = add(mk("jm-invalid-html", map[string]c18jm{"k": {`<bad>`}}))
	p.jms, p.unsafeJ = []c18jmInfo{{`<bad>`, false, `"@J3@"`}}, true
	p.vJMark = map[string]c18jm{"k": {`"@J3@"`}}
	p = add(mk("rawmessage-noncompact", json.RawMessage(`{ "r" : 91 }`)))
	p.jms = []c18jmInfo{{`{ "r" : 91 }`, true, ""}}
	p = add(mk("rawmessage-invalid", struct{ R json.RawMessage }{json.RawMessage(`{"r":}`)}))
	p.jms, p.unsafeJ = []c18jmInfo{{`{"r":}`, false, `"@J4@"`}}, true
	p.vJMark = struct{ R json.RawMessage }{json.RawMessage(`"@J4@"`)}
	add(mk("jm-returns-error", []interface{}{1, c18jmErr{}}))
	add(mk("json-number", json.Number("1e2")))
	add(mk("badutf8-string", "a\xffb"))
	add(mk("badutf8-key-val", map[string]string{"k\xff": "v\xfe"}))
	add(mk("badutf8-truncated", "x\xe2\x82y"))
	add(mk("ctl-string", "\x01\x1f\x7f\n\t\"\\"))
	add(mk("plain-struct", c18plain{1, "x", true, nil}))
	add(mk("scalars", []interface{}{1.5, -2, true, nil, "s", uint8(7), int64(-1 << 62)}))
	for _, p := range l {
		p.class = c18classOf(p.name, [][2]string{{"html-", "html-characters"}, {"map-", "multi-key-map"}, {"nil-", "nil-slice-or-map"},
			{"nan-", "nan-or-inf"}, {"inf-", "nan-or-inf"}, {"neginf-", "nan-or-inf"}, {"tm-key", "text-marshaler-map-key"}, {"tm-", "text-marshaler-value"},
			{"jm-invalid", "invalid-json-marshaler"}, {"jm-empty", "invalid-json-marshaler"}, {"rawmessage-invalid", "invalid-json-marshaler"},
			{"jm-returns-error", "failing-json-marshaler"}, {"jm-", "json-marshaler"}, {"rawmessage-", "json-marshaler"}, {"badutf8-", "invalid-utf8-string"}})
	}
	return l
}

// c18classOf maps a probe name to its failure-class label by prefix (default: the name).
func c18classOf(name string, m [][2]string) string {
	for _, e := range m {
		if strings.HasPrefix(name, e[0]) {
			return e[1]
		}
	}
	return name
}

// c18encProbes: the atoms, plus (thorough) every ordered pair of atoms as []interface{}{a,b}.
func c18encProbes(thorough bool) []*c18enc {
	atoms := c18encAtoms()
	out := append([]*c18enc{}, atoms...)
	if !thorough {
		// a few composites so that switch interactions inside one value are covered in quick too
		pairs := [][2]string{{"html-string", "nil-fields"}, {"nan-top", "jm-invalid"}, {"jm-invalid", "nan-top"},
			{"tm-value-html", "badutf8-string"}, {"map-multi", "nil-in-slice"}, {"jm-noncompact", "inf-in-slice"}}
		for _, pr := range pairs {
			var a, b *c18enc
			for _, x := range atoms {
				if x.name == pr[0] {
					a = x
				}
				if x.name == pr[1] {
					b = x
				}
			}
			out = append(out, c18compose(a, b))
		}
		return out
	}
	for _, a := range atoms {
		for _, b := range atoms {
			if (a.multiKey && b.unsafeJ) || (b.multiKey && a.unsafeJ) {
				continue // key-order canonicalisation needs well-formed output
			}
			out = append(out, c18compose(a, b))
		}
	}
	return out
}

func c18compose(a, b *c18enc) *c18enc {
	return &c18enc{name: a.name + "+" + b.name, parts: []*c18enc{a, b},
		v:      []interface{}{a.v, b.v},
		vEmpty: []interface{}{a.vEmpty, b.vEmpty}, vNoNaN: []interface{}{a.vNoNaN, b.vNoNaN}, vJMark: []interface{}{a.vJMark, b.vJMark},
		hasNil: a.hasNil || b.hasNil, hasNaN: a.hasNaN || b.hasNaN, multiKey: a.multiKey || b.multiKey,
		jms: append(append([]c18jmInfo{}, a.jms...), b.jms...), tms: append(append([]string{}, a.tms...), b.tms...),
		unsafeJ: a.unsafeJ || b.unsafeJ}
}

// ---------------------------------------------------------------------------------------
// encode observation: "M-part \x00 S-part"; a part is "E:<class>" or "O:<bytes>"

func c18encPart(out []byte, err error, p *c18enc, cfg uint32) string {
	if err != nil {
		return "E:" + c18encErrClass(err)
	}
	if p.multiKey && !c18has(cfg, c18SortMapKeys) {
		nl := bytes.HasSuffix(out, []byte("\n"))
		body := c18canon(bytes.TrimSuffix(out, []byte("\n")))
		if nl {
			body = append(append([]byte{}, body...), '\n')
		}
		out = body
	}
	return "O:" + string(out)
}

func c18encObs(api sonic.API, p *c18enc, cfg uint32, evals *int64) string {
	out, err := api.Marshal(p.v)
	m := c18encPart(out, err, p, cfg)
	var w bytes.Buffer
	err = api.NewEncoder(&w).Encode(p.v)
	s := c18encPart(w.Bytes(), err, p, cfg)
	*evals += 2
	return m + "\x00" + s
}

func c18split(obs string) (string, string) {
	i := strings.IndexByte(obs, 0)
	if i < 0 {
		return obs, ""
	}
	return obs[:i], obs[i+1:]
}

func c18isErr(part string) bool { return strings.HasPrefix(part, "E:") }

// c18replaceAll applies the replacements longest-pattern-first.
func c18replaceAll(s string, pairs [][2]string) string {
	sort.SliceStable(pairs, func(i, j int) bool { return len(pairs[i][0]) > len(pairs[j][0]) })
	for _, pr := range pairs {
		if pr[0] == "" || pr[0] == pr[1] {
			continue
		}
		s = strings.ReplaceAll(s, pr[0], pr[1])
	}
	return s
}

func c18compact(s string) string {
	var w bytes.Buffer
	if json.Compact(&w, []byte(s)) != nil {
		return s
	}
	return w.String()
}

// ---------------------------------------------------------------------------------------
// observation source: whole-table mode for Run, on-demand mode for Replay

type c18tab struct {
	ids  []uint32
	strs []string
	idx  map[string]uint32
}

func c18newTab(n int) *c18tab { return &c18tab{ids: make([]uint32, n), idx: map[string]uint32{}} }

func (t *c18tab) put(i uint32, s string) {
	id, ok := t.idx[s]
	if !ok {
		id = uint32(len(t.strs))
		t.strs = append(t.strs, s)
		t.idx[s] = id
	}
	t.ids[i] = id
}
func (t *c18tab) get(i uint32) string { return t.strs[t.ids[i]] }

type c18world struct {
	full     bool
	c        *ev.Ctx
	apis     []sonic.API
	enc      map[string]*c18tab
	dec      map[string]*c18decTabs
	evals    int64
	distinct map[uint64]struct{}
	classes  map[string]bool
	qual     map[string]string
	wq       *c18world
}

func c18newWorld(c *ev.Ctx, full bool) *c18world {
	return &c18world{full: full, c: c, apis: make([]sonic.API, 1<<c18NBits), enc: map[string]*c18tab{},
		dec: map[string]*c18decTabs{}, distinct: map[uint64]struct{}{}, classes: map[string]bool{}, qual: map[string]string{}}
}

func (w *c18world) api(cfg uint32) sonic.API {
	if w.apis[cfg] == nil {
		w.apis[cfg] = c18cfg(cfg).Froze()
	}
	return w.apis[cfg]
}

func (w *c18world) setCase(part, probe string, cfg uint32) {
	if w.c != nil {
		w.c.SetCase(`{"part":"` + part + `","probe":"` + probe + `","cfg":` + strconv.FormatUint(uint64(cfg), 10) + `,"bit":-1}`)
	}
}

func (w *c18world) encObs(p *c18enc, cfg uint32) string {
	if !w.full {
		return c18encObs(w.api(cfg), p, cfg, &w.evals)
	}
	t := w.enc[p.name]
	if t == nil {
		t = c18newTab(1 << c18NBits)
		for c := uint32(0); c < 1<<c18NBits; c++ {
			if c&0xff == 0 {
				w.setCase("A-enc", p.name, c)
			}
			t.put(c, c18encObs(w.api(c), p, c, &w.evals))
		}
		for _, s := range t.strs {
			w.distinct[c18hash(p.name+"\x01"+s)] = struct{}{}
			m, _ := c18split(s)
			if c18isErr(m) {
				w.classes["enc:"+m] = true
			} else {
				w.classes["enc:ok"] = true
			}
		}
		w.enc[p.name] = t
	}
	return t.get(cfg)
}

type c18fail struct {
	key, expected, observed string
}

func c18clip(s string) string {
	if len(s) > 300 {
		s = s[:300] + "..."
	}
	return strconv.QuoteToASCII(s)
}

// encRel judges the neighbour pair (off, off|bit) on an encode probe.
func (w *c18world) encRel(p *c18enc, off uint32, bit int) *c18fail {
	on := off | 1<<uint(bit)
	oM, oS := c18split(w.encObs(p, off))
	nM, nS := c18split(w.encObs(p, on))
	name := c18bitName[bit]
	for which, o := range []string{oM, oS} {
		n := nM
		what := "Marshal"
		if which == 1 {
			n, what = nS, "stream-Encode"
		}
		shadowPart := func(kind string, cfg uint32) string {
			m, s := c18split(w.encObs(p.shadow(kind), cfg))
			if which == 1 {
				return s
			}
			return m
		}
		var allowed []string
		anyErr := false
		if !c18isEncBit(bit) {
			if n != o {
				return &c18fail{"bit:" + name + ":decoder-only-switch-changes-" + what + "-output", c18clip(o), c18clip(n)}
			}
			continue
		}
		switch bit {
		case c18EscapeHTML:
			if c18isErr(o) {
				allowed = []string{o}
			} else {
				allowed = []string{"O:" + string(c18htmlEscape([]byte(o[2:])))}
			}
		case c18SortMapKeys:
			allowed = []string{o} // o is already key-order canonical when SortMapKeys is off
		case c18CompactMarshaler:
			anyInvalid := false
			var pairs [][2]string
			for _, j := range p.jms {
				if !j.valid {
					anyInvalid = true
				}
				pairs = append(pairs, [2]string{c18fin(off, j.text), c18fin(off, c18compact(j.text))})
			}
			if c18isErr(o) || anyInvalid {
				anyErr = true
			} else {
				allowed = []string{"O:" + c18replaceAll(o[2:], pairs)}
			}
		case c18NoValidateJSONMarshaler:
			if o == "E:marshaler-invalid" && !c18has(off, c18CompactMarshaler) {
				sh := shadowPart("jmark", on)
				if c18isErr(sh) {
					allowed = []string{sh}
				} else {
					var pairs [][2]string
					for _, j := range p.jms {
						if !j.valid {
							pairs = append(pairs, [2]string{c18fin(off, j.marker), c18fin(off, j.text)})
						}
					}
					allowed = []string{"O:" + c18replaceAll(sh[2:], pairs)}
				}
			} else {
				allowed = []string{o}
			}
		case c18NoQuoteTextMarshaler:
			if c18isErr(o) {
				allowed = []string{o}
			} else {
				var pairs [][2]string
				for _, x := range p.tms {
					pairs = append(pairs, [2]string{c18fin(off, c18quote(x)), c18fin(off, x)})
				}
				allowed = []string{"O:" + c18replaceAll(o[2:], pairs)}
			}
		case c18NoNullSliceOrMap:
			if p.hasNil {
				allowed = []string{shadowPart("empty", off)}
			} else {
				allowed = []string{o}
			}
		case c18EncodeNullForInfOrNan:
			if p.hasNaN {
				if !c18isErr(o) {
					return &c18fail{"bit:" + name + ":NaN-or-Inf-encoded-without-the-switch:" + what, "an error", c18clip(o)}
				}
				allowed = []string{shadowPart("nonan", off)}
			} else {
				allowed = []string{o}
			}
		case c18ValidateString:
			if c18isErr(o) {
				allowed = []string{o}
			} else {
				allowed = []string{"O:" + string(c18fixUTF8([]byte(o[2:]), c18repl))}
			}
		case c18NoEncoderNewline:
			if which == 0 || c18isErr(o) {
				allowed = []string{o}
			} else if !strings.HasSuffix(o, "\n") {
				return &c18fail{"bit:" + name + ":no-newline-without-the-switch:" + what, "output ending in newline", c18clip(o)}
			} else {
				allowed = []string{strings.TrimSuffix(o, "\n")}
			}
		}
		ok := anyErr && c18isErr(n)
		for _, a := range allowed {
			if a == n {
				ok = true
			}
		}
		if ok {
			continue
		}
		exp := "an error"
		if len(allowed) > 0 {
			exp = c18clip(allowed[0])
		}
		if n == o {
			return &c18fail{"bit:" + name + ":documented-effect-did-not-happen:" + what, exp, c18clip(n)}
		}
		return &c18fail{"bit:" + name + ":changed-something-else:" + what, exp, c18clip(n)}
	}
	return nil
}

// ---------------------------------------------------------------------------------------
// decode probes

type c18sA struct {
	A    int
	Name string
}
type c18sN struct {
	I interface{}
	F float64
	N json.Number
	K int64
	U uint8
}
type c18sInner struct{ B int }
type c18sOuter struct {
	A  int
	In c18sInner
}
type c18sTag struct {
	X int `json:"camelCase"`
}

type c18dec struct {
	name  string
	class string // failure-class label used in violation keys
	doc   string
	mk    func() interface{}
	// attributes (what the document gives each switch to act on)
	valid          bool   // computed: json.Valid && utf8.Valid
	rawCtl         bool   // raw control character inside a string literal
	rawCtlSkipped  bool   // ... and that literal is in a skipped value
	otherMalformed bool   // some other malformed string content (invalid escape)
	docFixed       string // computed for invalid UTF-8: invalid bytes replaced by U+FFFD
	docFFFD        string // lone surrogate escape in a decoded string: same doc with U+FFFD escape instead
	loneSurSkipped bool   // lone surrogate escape only inside a skipped value
	unknownCI      bool   // has a key matching no field even ignoring case
	unknownCS      bool   // has a key matching no field exactly
	docCS          string // keys that match a field only when ignoring case renamed to unknown keys
	ifaceNum       bool   // numbers land in interface{}
	relaxDoc       string // malformed skipped value replaced by a well-formed one
	noStream       bool   // stream decoders are documented to behave differently (trailing data / EOF)
	noWrap         bool
}

const c18ufffd = "\\u" + "fffd"

func c18u(hex string) string { return "\\u" + hex }

func c18decAtoms() []*c18dec {
	ifc := func() interface{} { return new(interface{}) }
	str := func() interface{} { return new(string) }
	sa := func() interface{} { return new(c18sA) }
	sn := func() interface{} { return new(c18sN) }
	var l []*c18dec
	add := func(name, doc string, mk func() interface{}) *c18dec {
		p := &c18dec{name: name, doc: doc, mk: mk}
		l = append(l, p)
		return p
	}
	add("iface-numbers", `{"a":1,"b":12345678901234567890,"c":1.5,"d":-3,"e":1e2,"f":9223372036854775807,"g":9223372036854775808,"i":[0.1,2],"j":-9223372036854775808,"k":-9223372036854775809,"l":0,"m":1E-2}`, ifc).ifaceNum = true
	add("iface-number-top", `42`, ifc).ifaceNum = true
	add("map-iface-numbers", `{"x":[1,{"y":2.5}]}`, func() interface{} { return new(map[string]interface{}) }).ifaceNum = true
	add("slice-iface-numbers", `[1,2.0,3e0,"4"]`, func() interface{} { return new([]interface{}) }).ifaceNum = true
	add("struct-mixed-numbers", `{"I":7,"F":7,"N":7,"K":7,"U":7}`, sn).ifaceNum = true
	add("typed-numbers-only", `{"F":1.5,"K":-3,"N":1e2,"U":255}`, sn)
	p := add("unknown-field", `{"A":1,"unknown":2}`, sa)
	p.unknownCI, p.unknownCS = true, true
	p = add("unknown-field-nested", `{"A":1,"In":{"B":2,"zz":[1,{"q":2}]}}`, func() interface{} { return new(c18sOuter) })
	p.unknownCI, p.unknownCS = true, true
	add("no-unknown-field", `{"A":1,"Name":"n"}`, sa)
	p = add("case-variants", `{"a":1,"A":2,"Name":"x","name":"y","NAME":"z"}`, sa)
	p.unknownCS, p.docCS = true, `{"_":1,"A":2,"Name":"x","____":"y","____":"z"}`
	p = add("case-exact-first", `{"A":2,"a":1}`, sa)
	p.unknownCS, p.docCS = true, `{"A":2,"_":1}`
	p = add("case-tagged", `{"CAMELCASE":1,"camelcase":2}`, func() interface{} { return new(c18sTag) })
	p.unknownCS, p.docCS = true, `{"_________":1,"_________":2}`
	p = add("case-only-inexact", `{"name":"y","a":5}`, sa)
	p.unknownCS, p.docCS = true, `{"____":"y","_":5}`
	add("case-map-destination", `{"a":1,"A":2}`, func() interface{} { return new(map[string]int) })
	add("escapes-string", `"a\n\t\"\\\/`+c18u("00e9")+``+c18u("d83d")+``+c18u("de00")+`é😀\b\f\r"`, str)
	add("escapes-key-iface", `{"k\n`+c18u("0041")+`":"v\t"}`, ifc)
	add("escapes-field", `{"Name":"x`+c18u("0041")+`\\"}`, sa)
	add("base64-bytes", `"aGVsbG8="`, func() interface{} { return new([]byte) })
	add("long-string", `"0123456789abcdef0123456789abcdef0123456789abcdef0123456789abcdef\n0123456789abcdef"`, str)
	add("lone-high-string", `"\ud800"`, str).docFFFD = `"` + c18ufffd + `"`
	add("lone-high-iface", `"x\ud800y"`, ifc).docFFFD = `"x` + c18ufffd + `y"`
	add("lone-high-field", `{"Name":"\ud800x"}`, sa).docFFFD = `{"Name":"` + c18ufffd + `x"}`
	// the same through the double-unquote path of a field tagged `,string`
	add("lone-high-string-tagged-field", `{"S":"\"\\ud800x\""}`, func() interface{} {
		return new(struct {
			S string `json:"S,string"`
		})
	}).docFFFD = `{"S":"\"\` + c18ufffd + `x\""}`
	add("lone-low-key", `{"\udc00":1}`, func() interface{} { return new(map[string]int) }).docFFFD = `{"` + c18ufffd + `":1}`
	add("high-then-nonlow", `"\ud800`+c18u("0041")+`"`, str).docFFFD = `"` + c18ufffd + c18u("0041") + `"`
	p = add("lone-high-skipped", `{"zz":"\ud800","A":3}`, sa)
	p.loneSurSkipped, p.unknownCI, p.unknownCS = true, true, true
	add("rawctl-string", "\"a\x01b\"", str).rawCtl = true
	add("rawctl-newline-iface", "\"a\nb\"", ifc).rawCtl = true
	add("rawctl-tab-field", "{\"Name\":\"\t\"}", sa).rawCtl = true
	add("rawctl-key", "{\"a\tb\":1}", ifc).rawCtl = true
	p = add("rawctl-skipped", "{\"x\":\"\x01\",\"A\":1}", sa)
	p.rawCtl, p.rawCtlSkipped, p.unknownCI, p.unknownCS = true, true, true, true
	add("badutf8-string", "\"a\xffb\"", str)
	add("badutf8-iface", "[\"a\xffb\"]", ifc)
	add("badutf8-field", "{\"Name\":\"\xc3\"}", sa)
	add("badutf8-key", "{\"k\xff\":1}", func() interface{} { return new(map[string]int) })
	p = add("badutf8-skipped", "{\"x\":\"\xff\",\"A\":1}", sa)
	p.unknownCI, p.unknownCS = true, true
	p = add("bad-escape-skipped", `{"x":"\q","A":1}`, sa)
	p.otherMalformed, p.unknownCI, p.unknownCS = true, true, true
	for i, bad := range []string{`[1,,2]`, `{"a" 1}`, `01`, `[1}]`} {
		p = add(fmt.Sprintf("skip-invalid-%d", i), `{"x":`+bad+`,"A":1}`, sa)
		p.unknownCI, p.unknownCS, p.relaxDoc = true, true, `{"x":0,"A":1}`
	}
	p = add("skip-invalid-literal", `{"x":tru,"A":1}`, sa)
	p.unknownCI, p.unknownCS = true, true
	add("mismatch-skip-invalid", `{"A":{"q":[1,,]},"Name":"n"}`, sa).relaxDoc = `{"A":{},"Name":"n"}`
	p = add("skip-valid-deep", `{"x":{"deep":[1,2,{"z":null}],"s":"str\n"},"A":1,"y":[[[]]]}`, sa)
	p.unknownCI, p.unknownCS = true, true
	add("mismatch-type", `{"A":"str","Name":"n"}`, sa)
	add("redundant-elements", `[1,2,3]`, func() interface{} { return new([2]int) })
	add("null-fields", `{"A":null,"Name":null}`, sa)
	p = add("trailing-garbage", ` {"A":1} x`, sa)
	p.noStream, p.noWrap = true, true
	add("trailing-space", `{"A":1} `, sa)
	p = add("truncated", `{"A":1`, sa)
	p.noStream, p.noWrap = true, true
	p = add("empty-document", ``, sa)
	p.noStream, p.noWrap = true, true
	return l
}

func c18decFinish(p *c18dec) *c18dec {
	if p.class == "" {
		p.class = c18classOf(p.name, [][2]string{{"iface-number", "interface-numbers"}, {"map-iface-numbers", "interface-numbers"},
			{"slice-iface-numbers", "interface-numbers"}, {"struct-mixed-numbers", "interface-numbers"}, {"unknown-field", "unknown-field"},
			{"case-", "case-variant-keys"}, {"escapes-", "string-escapes"}, {"lone-high-skipped", "lone-surrogate-in-skipped-value"},
			{"lone-", "lone-surrogate"}, {"high-then-nonlow", "lone-surrogate"}, {"rawctl-skipped", "raw-control-char-in-skipped-value"},
			{"rawctl-", "raw-control-char"}, {"badutf8-skipped", "invalid-utf8-in-skipped-value"}, {"badutf8-", "invalid-utf8"},
			{"skip-invalid-", "malformed-skipped-value"}})
	}
	p.valid = json.Valid([]byte(p.doc)) && utf8.ValidString(p.doc)
	if !utf8.ValidString(p.doc) {
		p.docFixed = string(c18fixUTF8([]byte(p.doc), "\xef\xbf\xbd"))
	}
	if p.docCS == "" {
		p.docCS = p.doc
	}
	return p
}

// c18decProbes: the atoms; thorough adds every atom wrapped as [doc,doc] into []T and as
// {"k":doc} into map[string]T.
func c18decProbes(thorough bool) []*c18dec {
	atoms := c18decAtoms()
	out := []*c18dec{}
	for _, a := range atoms {
		out = append(out, c18decFinish(a))
	}
	if !thorough {
		return out
	}
	for _, a := range atoms {
		if a.noWrap {
			continue
		}
		et := reflect.TypeOf(a.mk()).Elem()
		for _, kind := range []string{"arr", "map"} {
			kind := kind
			wrap := func(d string) string {
				if d == "" {
					return ""
				}
				if kind == "arr" {
					return "[" + d + "," + d + "]"
				}
				return `{"k":` + d + `}`
			}
			q := *a
			q.name = a.name + "/" + kind
			q.doc, q.docFFFD, q.relaxDoc = wrap(a.doc), wrap(a.docFFFD), wrap(a.relaxDoc)
			q.docCS = wrap(a.docCS)
			q.docFixed = ""
			if kind == "arr" {
				q.mk = func() interface{} { return reflect.New(reflect.SliceOf(et)).Interface() }
			} else {
				q.mk = func() interface{} { return reflect.New(reflect.MapOf(reflect.TypeOf(""), et)).Interface() }
			}
			out = append(out, c18decFinish(&q))
		}
	}
	return out
}

func (p *c18dec) shadow(kind string) *c18dec {
	q := &c18dec{name: p.name + "~" + kind, mk: p.mk}
	switch kind {
	case "cs":
		q.doc = p.docCS
	case "fixed":
		q.doc = p.docFixed
	case "fffd":
		q.doc = p.docFFFD
	case "relax":
		q.doc = p.relaxDoc
	}
	return q
}

// ---------------------------------------------------------------------------------------
// decode observation: "<error class>|<rendering>"; for UseNumber configs additionally the
// renderings with json.Number mapped to float64 / int64-or-float64.

type c18decTabs struct {
	obs, asF, asI *c18tab
	alias         []uint8 // 0 not measured, 1 no alias, 2 aliased
	valid         []uint8 // api.Valid(doc): 1 false, 2 true
}

func c18decCall(f func(dst interface{}) error, p *c18dec) (cls string, dst interface{}) {
	dst = p.mk()
	defer func() {
		if r := recover(); r != nil {
			cls = "panic:" + fmt.Sprint(r)
		}
	}()
	return c18decErrClass(f(dst)), dst
}

func c18decObs3(api sonic.API, p *c18dec, cfg uint32, evals *int64) (string, string, string) {
	*evals++
	doc := append(make([]byte, 0, len(p.doc)), p.doc...)
	cls, dst := c18decCall(func(d interface{}) error { return api.Unmarshal(doc, d) }, p)
	o := cls + "|" + c18renderDst(dst, 0)
	if c18has(cfg, c18UseNumber) && c18legal(cfg) {
		return o, cls + "|" + c18renderDst(dst, 1), cls + "|" + c18renderDst(dst, 2)
	}
	return o, "", ""
}

// c18alias decodes from a string laid over a private mutable buffer, then overwrites the
// buffer: the rendering changes iff decoded strings refer to the input.
func c18alias(api sonic.API, p *c18dec, evals *int64) uint8 {
	if len(p.doc) == 0 {
		return 1
	}
	*evals++
	buf := append(make([]byte, 0, len(p.doc)), p.doc...)
	s := unsafe.String(&buf[0], len(buf))
	cls, dst := c18decCall(func(d interface{}) error { return api.UnmarshalFromString(s, d) }, p)
	if cls != "ok" {
		return 1
	}
	r1, n1 := c18renderDst(dst, 3), c18renderDst(dst, 0)
	for i := range buf {
		buf[i] = 'Z'
	}
	r2, n2 := c18renderDst(dst, 3), c18renderDst(dst, 0)
	if r1 != r2 {
		return 2
	}
	if n1 != n2 {
		return 3 // only json.Number literals refer to the input
	}
	return 1
}

func (w *c18world) decTabs(p *c18dec) *c18decTabs {
	t := w.dec[p.name]
	if t != nil {
		return t
	}
	n := 1 << c18NBits
	t = &c18decTabs{obs: c18newTab(n), asF: c18newTab(n), asI: c18newTab(n), alias: make([]uint8, n), valid: make([]uint8, n)}
	for c := uint32(0); c < uint32(n); c++ {
		if c&0xff == 0 {
			w.setCase("A-dec", p.name, c)
		}
		o, f, i := c18decObs3(w.api(c), p, c, &w.evals)
		t.obs.put(c, o)
		t.asF.put(c, f)
		t.asI.put(c, i)
		if c18legal(c) {
			t.alias[c] = c18alias(w.api(c), p, &w.evals)
		}
		w.evals++
		t.valid[c] = 1
		if w.api(c).Valid([]byte(p.doc)) {
			t.valid[c] = 2
		}
	}
	for _, s := range t.obs.strs {
		w.distinct[c18hash(p.name+"\x01"+s)] = struct{}{}
		w.classes["dec:"+s[:strings.IndexByte(s, '|')]] = true
	}
	w.dec[p.name] = t
	return t
}

// decObs returns (observation, as-float64 variant, as-int64 variant, alias, valid).
func (w *c18world) decObs(p *c18dec, cfg uint32) (string, string, string, uint8, uint8) {
	if w.full {
		t := w.decTabs(p)
		return t.obs.get(cfg), t.asF.get(cfg), t.asI.get(cfg), t.alias[cfg], t.valid[cfg]
	}
	o, f, i := c18decObs3(w.api(cfg), p, cfg, &w.evals)
	var al uint8
	if c18legal(cfg) {
		al = c18alias(w.api(cfg), p, &w.evals)
	}
	v := uint8(1)
	if w.api(cfg).Valid([]byte(p.doc)) {
		v = 2
	}
	return o, f, i, al, v
}

func c18cls(obs string) string {
	if i := strings.IndexByte(obs, '|'); i >= 0 {
		return obs[:i]
	}
	return obs
}

const c18panicMsg = "panic:can't set OptionUseInt64 and OptionUseNumber both!"

// decRel judges the neighbour pair (off, off|bit) on a decode probe. Both must be legal.
func (w *c18world) decRel(p *c18dec, off uint32, bit int) *c18fail {
	on := off | 1<<uint(bit)
	o, _, _, _, oValid := w.decObs(p, off)
	n, nF, _, nAlias, nValid := w.decObs(p, on)
	name := c18bitName[bit]
	if oValid != nValid {
		return &c18fail{"bit:" + name + ":changes-Valid-verdict", fmt.Sprint(oValid == 2), fmt.Sprint(nValid == 2)}
	}
	if !c18isDecBit(bit) {
		if n != o {
			return &c18fail{"bit:" + name + ":encoder-only-switch-changes-Unmarshal-result", c18clip(o), c18clip(n)}
		}
		return nil
	}
	shadow := func(kind string, cfg uint32) string {
		s, _, _, _, _ := w.decObs(p.shadow(kind), cfg)
		return s
	}
	isErr := func(s string) bool { return c18cls(s) != "ok" }
	var allowed []string
	anyErr := false
	switch bit {
	case c18UseNumber:
		// off must be what on denotes with every json.Number in interface{} read as float64
		if nF != o {
			k := ":changed-something-else"
			if n == o {
				k = ":documented-effect-did-not-happen"
			}
			return &c18fail{"bit:" + name + k, "off == on with json.Number in interface{} mapped to float64: " + c18clip(nF), c18clip(o)}
		}
		if p.ifaceNum && n == o {
			return &c18fail{"bit:" + name + ":documented-effect-did-not-happen", "json.Number in interface{}", c18clip(n)}
		}
		return nil
	case c18UseInt64:
		// reference: the UseNumber observation of the same config tells the literals
		_, _, refI, _, _ := w.decObs(p, off|1<<c18UseNumber)
		allowed = []string{refI}
	case c18DisallowUnknownFields:
		unk := p.unknownCI
		if c18has(off, c18CaseSensitive) {
			unk = p.unknownCS
		}
		if !unk {
			allowed = []string{o}
		} else {
			if isErr(n) && (c18cls(n) == "unknown-field" || c18cls(n) == c18cls(o)) {
				return nil
			}
			if n == o {
				return &c18fail{"bit:" + name + ":documented-effect-did-not-happen", "unknown-field error", c18clip(n)}
			}
			return &c18fail{"bit:" + name + ":changed-something-else", "unknown-field error", c18clip(n)}
		}
	case c18CaseSensitive:
		allowed = []string{shadow("cs", off)}
	case c18CopyString:
		if nAlias == 2 {
			return &c18fail{"bit:" + name + ":decoded-strings-still-refer-to-input", "no aliasing", "rendering changed after overwriting the input buffer"}
		}
		if !p.valid {
			return nil
		}
		allowed = []string{o}
	case c18NoValidateJSONSkip:
		if p.relaxDoc != "" {
			allowed = []string{shadow("relax", off)}
		} else if p.valid {
			allowed = []string{o}
		} else {
			return nil
		}
	case c18ValidateString:
		switch {
		case p.rawCtl:
			anyErr = true
			if p.rawCtlSkipped && c18has(off, c18NoValidateJSONSkip) {
				allowed = []string{o} // "do not validate skipped values" and "reject control characters" both documented
			}
		case p.docFixed != "":
			anyErr = true
			allowed = []string{shadow("fixed", off)}
		case p.otherMalformed:
			anyErr = true
			allowed = []string{o}
		default:
			allowed = []string{o}
		}
	case c18UseUnicodeErrors:
		switch {
		case p.docFFFD != "":
			if sh := shadow("fffd", off); sh != o {
				return &c18fail{"bit:" + name + ":lone-surrogate-not-replaced-without-the-switch", c18clip(sh), c18clip(o)}
			}
			anyErr = true
		case p.loneSurSkipped:
			anyErr = true
			allowed = []string{o}
		default:
			allowed = []string{o}
		}
	}
	ok := anyErr && isErr(n)
	for _, a := range allowed {
		if a == n {
			ok = true
		}
	}
	if ok {
		return nil
	}
	exp := "an error"
	if len(allowed) > 0 {
		exp = c18clip(allowed[0])
		if anyErr {
			exp = "an error or " + exp
		}
	}
	if n == o {
		return &c18fail{"bit:" + name + ":documented-effect-did-not-happen", exp, c18clip(n)}
	}
	return &c18fail{"bit:" + name + ":changed-something-else", exp, c18clip(n)}
}

// ---------------------------------------------------------------------------------------
// part B: entry-point equivalence

type c18encEntry struct {
	name string
	kind int // 0 Marshal-like, 1 stream-like, 2 indented Marshal, 3 indented stream
	want func(ce uint32) uint32
	only func(ce uint32) bool
	run  func(ce uint32, v interface{}) ([]byte, error)
}

var c18stdEnc = uint32(1<<c18EscapeHTML | 1<<c18SortMapKeys | 1<<c18CompactMarshaler | 1<<c18ValidateString)
var c18fastEnc = uint32(1 << c18NoValidateJSONMarshaler)
var c18stdDec = uint32(1<<c18CopyString | 1<<c18ValidateString)
var c18fastDec = uint32(1 << c18NoValidateJSONSkip)

func c18setEnc(enc *encoder.Encoder, ce uint32, offPath bool) {
	noSetter := uint32(1<<c18NoNullSliceOrMap | 1<<c18EncodeNullForInfOrNan | 1<<c18SortMapKeys)
	if offPath {
		var all uint32
		for _, b := range c18encBits {
			all |= 1 << uint(b)
		}
		enc.Opts = c18encOpts(all&^noSetter | ce&noSetter)
	} else {
		enc.Opts = c18encOpts(ce & (noSetter &^ (1 << c18SortMapKeys)))
		if c18has(ce, c18SortMapKeys) {
			enc.SortKeys()
		}
	}
	set := func(bit int, f func(bool)) {
		if c18has(ce, bit) {
			f(true)
		} else if offPath {
			f(false)
		}
	}
	set(c18EscapeHTML, enc.SetEscapeHTML)
	set(c18ValidateString, enc.SetValidateString)
	set(c18NoValidateJSONMarshaler, enc.SetNoValidateJSONMarshaler)
	set(c18NoEncoderNewline, enc.SetNoEncoderNewline)
	set(c18CompactMarshaler, enc.SetCompactMarshaler)
	set(c18NoQuoteTextMarshaler, enc.SetNoQuoteTextMarshaler)
}

func c18encEntries(api func(uint32) sonic.API) []c18encEntry {
	id := func(c uint32) uint32 { return c }
	always := func(uint32) bool { return true }
	zero := func(c uint32) bool { return c == 0 }
	stream := func(mk func(w *bytes.Buffer, ce uint32) interface{ Encode(interface{}) error }) func(uint32, interface{}) ([]byte, error) {
		return func(ce uint32, v interface{}) ([]byte, error) {
			var w bytes.Buffer
			err := mk(&w, ce).Encode(v)
			return w.Bytes(), err
		}
	}
	return []c18encEntry{
		{"api.MarshalToString", 0, id, always, func(ce uint32, v interface{}) ([]byte, error) {
			s, err := api(ce).MarshalToString(v)
			return []byte(s), err
		}},
		{"api.MarshalIndent", 2, id, always, func(ce uint32, v interface{}) ([]byte, error) { return api(ce).MarshalIndent(v, "", "  ") }},
		{"api.NewEncoder", 1, id, always, stream(func(w *bytes.Buffer, ce uint32) interface{ Encode(interface{}) error } { return api(ce).NewEncoder(w) })},
		{"api.NewEncoder.SetIndent", 3, id, always, stream(func(w *bytes.Buffer, ce uint32) interface{ Encode(interface{}) error } {
			e := api(ce).NewEncoder(w)
			e.SetIndent("", "  ")
			return e
		})},
		{"api.NewEncoder.SetEscapeHTML(true)", 1, func(c uint32) uint32 { return c | 1<<c18EscapeHTML }, always, stream(func(w *bytes.Buffer, ce uint32) interface{ Encode(interface{}) error } {
			e := api(ce).NewEncoder(w)
			e.SetEscapeHTML(true)
			return e
		})},
		{"api.NewEncoder.SetEscapeHTML(false)", 1, func(c uint32) uint32 { return c &^ (1 << c18EscapeHTML) }, always, stream(func(w *bytes.Buffer, ce uint32) interface{ Encode(interface{}) error } {
			e := api(ce).NewEncoder(w)
			e.SetEscapeHTML(false)
			return e
		})},
		{"encoder.Encode", 0, id, always, func(ce uint32, v interface{}) ([]byte, error) { return encoder.Encode(v, c18encOpts(ce)) }},
		{"encoder.EncodeInto", 0, id, always, func(ce uint32, v interface{}) ([]byte, error) {
			buf := make([]byte, 0, 16)
			err := encoder.EncodeInto(&buf, v, c18encOpts(ce))
			return buf, err
		}},
		{"encoder.EncodeIndented", 2, id, always, func(ce uint32, v interface{}) ([]byte, error) {
			return encoder.EncodeIndented(v, "", "  ", c18encOpts(ce))
		}},
		{"encoder.Encoder.Opts", 0, id, always, func(ce uint32, v interface{}) ([]byte, error) {
			return (&encoder.Encoder{Opts: c18encOpts(ce)}).Encode(v)
		}},
		{"encoder.Encoder.SetIndent", 2, id, always, func(ce uint32, v interface{}) ([]byte, error) {
			e := &encoder.Encoder{Opts: c18encOpts(ce)}
			e.SetIndent("", "  ")
			return e.Encode(v)
		}},
		{"encoder.Encoder.setters(true)", 0, id, always, func(ce uint32, v interface{}) ([]byte, error) {
			e := &encoder.Encoder{}
			c18setEnc(e, ce, false)
			return e.Encode(v)
		}},
		{"encoder.Encoder.setters(false)", 0, id, always, func(ce uint32, v interface{}) ([]byte, error) {
			e := &encoder.Encoder{}
			c18setEnc(e, ce, true)
			return e.Encode(v)
		}},
		{"encoder.StreamEncoder.Opts", 1, id, always, stream(func(w *bytes.Buffer, ce uint32) interface{ Encode(interface{}) error } {
			e := encoder.NewStreamEncoder(w)
			e.Opts = c18encOpts(ce)
			return e
		})},
		{"encoder.StreamEncoder.setters(true)", 1, id, always, stream(func(w *bytes.Buffer, ce uint32) interface{ Encode(interface{}) error } {
			e := encoder.NewStreamEncoder(w)
			c18setEnc(&e.Encoder, ce, false)
			return e
		})},
		{"encoder.StreamEncoder.setters(false)", 1, id, always, stream(func(w *bytes.Buffer, ce uint32) interface{ Encode(interface{}) error } {
			e := encoder.NewStreamEncoder(w)
			c18setEnc(&e.Encoder, ce, true)
			return e
		})},
		{"sonic.Marshal", 0, id, zero, func(ce uint32, v interface{}) ([]byte, error) { return sonic.Marshal(v) }},
		{"sonic.MarshalString", 0, id, zero, func(ce uint32, v interface{}) ([]byte, error) {
			s, err := sonic.MarshalString(v)
			return []byte(s), err
		}},
		{"sonic.MarshalIndent", 2, id, zero, func(ce uint32, v interface{}) ([]byte, error) { return sonic.MarshalIndent(v, "", "  ") }},
		{"sonic.ConfigDefault.Marshal", 0, id, zero, func(ce uint32, v interface{}) ([]byte, error) { return sonic.ConfigDefault.Marshal(v) }},
		{"sonic.ConfigStd.Marshal", 0, id, func(c uint32) bool { return c == c18stdEnc }, func(ce uint32, v interface{}) ([]byte, error) { return sonic.ConfigStd.Marshal(v) }},
		{"sonic.ConfigFastest.Marshal", 0, id, func(c uint32) bool { return c == c18fastEnc }, func(ce uint32, v interface{}) ([]byte, error) { return sonic.ConfigFastest.Marshal(v) }},
	}
}

// c18encEntryPart runs one entry and renders its result comparably to the reference part.
func c18encEntryPart(e *c18encEntry, ce uint32, p *c18enc) string {
	out, err := e.run(ce, p.v)
	if err != nil {
		return "E:" + c18encErrClass(err)
	}
	if e.kind >= 2 && p.multiKey && !c18has(ce, c18SortMapKeys) {
		nl := bytes.HasSuffix(out, []byte("\n"))
		var w bytes.Buffer
		if json.Compact(&w, bytes.TrimSuffix(out, []byte("\n"))) == nil {
			out = w.Bytes()
			if nl {
				out = append(out, '\n')
			}
		}
	}
	return c18encPart(out, nil, p, ce)
}

// c18encEntryWant derives the expected part of an entry from the config's observation.
func c18encEntryWant(e *c18encEntry, ce uint32, p *c18enc, refObs string) string {
	m, s := c18split(refObs)
	switch e.kind {
	case 0:
		return m
	case 1:
		return s
	}
	if c18isErr(m) {
		return m
	}
	nl := ""
	if e.kind == 3 && !c18has(ce, c18NoEncoderNewline) {
		nl = "\n"
	}
	if p.multiKey && !c18has(ce, c18SortMapKeys) {
		if !json.Valid([]byte(m[2:])) {
			return "E:marshaler-invalid"
		}
		return "O:" + c18compact(m[2:]) + nl
	}
	var w bytes.Buffer
	if err := json.Indent(&w, []byte(m[2:]), "", "  "); err != nil {
		return "E:" + c18encErrClass(err)
	}
	return "O:" + w.String() + nl
}

type c18decEntry struct {
	name   string
	stream bool // a stream decoder: judged against api.NewDecoder of the wanted config ("api.NewDecoder" itself against Unmarshal)
	want   func(cd uint32) uint32
	only   func(cd uint32) bool
	run    func(cd uint32, doc string, dst interface{}) error
}

type c18decSetters interface {
	SetOptions(decoder.Options)
	UseInt64()
	UseNumber()
	UseUnicodeErrors()
	DisallowUnknownFields()
	CopyString()
	ValidateString()
}

func c18setDec(d c18decSetters, cd uint32, override bool) {
	d.SetOptions(c18decOpts(cd & (1<<c18NoValidateJSONSkip | 1<<c18CaseSensitive)))
	if override {
		// the later of UseInt64()/UseNumber() wins
		if c18has(cd, c18UseInt64) {
			d.UseNumber()
		} else if c18has(cd, c18UseNumber) {
			d.UseInt64()
		}
	}
	if c18has(cd, c18UseInt64) {
		d.UseInt64()
	}
	if c18has(cd, c18UseNumber) {
		d.UseNumber()
	}
	if c18has(cd, c18UseUnicodeErrors) {
		d.UseUnicodeErrors()
	}
	if c18has(cd, c18DisallowUnknownFields) {
		d.DisallowUnknownFields()
	}
	if c18has(cd, c18CopyString) {
		d.CopyString()
	}
	if c18has(cd, c18ValidateString) {
		d.ValidateString()
	}
}

func c18decEntries(api func(uint32) sonic.API) []c18decEntry {
	id := func(c uint32) uint32 { return c }
	always := func(uint32) bool { return true }
	zero := func(c uint32) bool { return c == 0 }
	direct := func(prep func(d *decoder.Decoder, cd uint32)) func(uint32, string, interface{}) error {
		return func(cd uint32, doc string, dst interface{}) error {
			d := decoder.NewDecoder(doc)
			prep(d, cd)
			if err := d.Decode(dst); err != nil {
				return err
			}
			return d.CheckTrailings()
		}
	}
	return []c18decEntry{
		{"api.UnmarshalFromString", false, id, always, func(cd uint32, doc string, dst interface{}) error { return api(cd).UnmarshalFromString(doc, dst) }},
		{"api.NewDecoder", true, id, always, func(cd uint32, doc string, dst interface{}) error {
			return c18twice(api(cd).NewDecoder(strings.NewReader(c18two(doc))), dst)
		}},
		{"api.NewDecoder.UseNumber()", true, func(c uint32) uint32 { return c&^(1<<c18UseInt64) | 1<<c18UseNumber }, always, func(cd uint32, doc string, dst interface{}) error {
			d := api(cd).NewDecoder(strings.NewReader(c18two(doc)))
			d.UseNumber()
			return c18twice(d, dst)
		}},
		{"api.NewDecoder.DisallowUnknownFields()", true, func(c uint32) uint32 { return c | 1<<c18DisallowUnknownFields }, always, func(cd uint32, doc string, dst interface{}) error {
			d := api(cd).NewDecoder(strings.NewReader(c18two(doc)))
			d.DisallowUnknownFields()
			return c18twice(d, dst)
		}},
		{"decoder.Decoder.SetOptions", false, id, always, direct(func(d *decoder.Decoder, cd uint32) { d.SetOptions(c18decOpts(cd)) })},
		{"decoder.Decoder.setters", false, id, always, direct(func(d *decoder.Decoder, cd uint32) { c18setDec(d, cd, false) })},
		{"decoder.Decoder.setters-last-of-UseInt64/UseNumber-wins", false, id,
			func(c uint32) bool { return c18has(c, c18UseInt64) || c18has(c, c18UseNumber) },
			direct(func(d *decoder.Decoder, cd uint32) { c18setDec(d, cd, true) })},
		{"decoder.StreamDecoder.SetOptions", true, id, always, func(cd uint32, doc string, dst interface{}) error {
			d := decoder.NewStreamDecoder(strings.NewReader(c18two(doc)))
			d.SetOptions(c18decOpts(cd))
			return c18twice(d, dst)
		}},
		{"decoder.StreamDecoder.setters", true, id, always, func(cd uint32, doc string, dst interface{}) error {
			d := decoder.NewStreamDecoder(strings.NewReader(c18two(doc)))
			c18setDec(d, cd, false)
			return c18twice(d, dst)
		}},
		{"sonic.Unmarshal", false, id, zero, func(cd uint32, doc string, dst interface{}) error { return sonic.Unmarshal([]byte(doc), dst) }},
		{"sonic.UnmarshalString", false, id, zero, func(cd uint32, doc string, dst interface{}) error { return sonic.UnmarshalString(doc, dst) }},
		{"sonic.ConfigDefault.Unmarshal", false, id, zero, func(cd uint32, doc string, dst interface{}) error {
			return sonic.ConfigDefault.Unmarshal([]byte(doc), dst)
		}},
		{"sonic.ConfigStd.Unmarshal", false, id, func(c uint32) bool { return c == c18stdDec }, func(cd uint32, doc string, dst interface{}) error { return sonic.ConfigStd.Unmarshal([]byte(doc), dst) }},
		{"sonic.ConfigFastest.Unmarshal", false, id, func(c uint32) bool { return c == c18fastDec }, func(cd uint32, doc string, dst interface{}) error {
			return sonic.ConfigFastest.Unmarshal([]byte(doc), dst)
		}},
	}
}

// c18decEntryApplies: stream decoders are not compared on documents with trailing data or
// truncation, and api.NewDecoder is compared with Unmarshal only on documents whose bracket /
// string framing is well-formed (the stream decoder frames a value before decoding it).
func c18decEntryApplies(e *c18decEntry, cd uint32, p *c18dec) bool {
	if !e.only(cd) || !c18legal(e.want(cd)) || (e.stream && p.noStream) {
		return false
	}
	if e.name == "api.NewDecoder" && !lenientValid([]byte(p.doc)) {
		return false
	}
	return true
}

func c18decEntryObs(e *c18decEntry, cd uint32, p *c18dec) string {
	doc := string(append(make([]byte, 0, len(p.doc)), p.doc...))
	cls, dst := c18decCall(func(d interface{}) error { return e.run(cd, doc, d) }, p)
	return cls + "|" + c18renderDst(dst, 0)
}

func c18attribute(bits []int, c uint32, got, ref func(uint32) string) string {
	g, r := got(c), ref(c)
	for _, b := range bits {
		if c2 := c ^ 1<<uint(b); c18legal(c2) && ref(c2) == g {
			return c18bitName[b]
		}
	}
	for _, b := range bits {
		if c2 := c ^ 1<<uint(b); c18legal(c2) && got(c2) == r {
			return c18bitName[b]
		}
	}
	return "unattributed"
}

// ---------------------------------------------------------------------------------------
// driver

type c18case struct {
	Part  string `json:"part"` // A-enc | A-dec | B-enc | B-dec | B-valid
	Probe string `json:"probe"`
	Cfg   uint32 `json:"cfg"`   // Config bit-set (bit i = i-th field of sonic.Config)
	Bit   int    `json:"bit"`   // part A: the switch of the neighbour pair (cfg has it clear)
	Entry string `json:"entry"` // part B: entry point
	Names string `json:"cfg_names,omitempty"`
}

func c18cfgNames(cfg uint32) string {
	var l []string
	for b := 0; b < c18NBits; b++ {
		if c18has(cfg, b) {
			l = append(l, c18bitName[b])
		}
	}
	return strings.Join(l, ",")
}

func c18violation(cs c18case, f *c18fail, what string) *ev.Violation {
	cs.Names = c18cfgNames(cs.Cfg)
	return &ev.Violation{Property: "C18", Key: f.key, What: what, Case: ev.J(cs), Expected: f.expected, Observed: f.observed}
}

func (w *c18world) checkA(part string, pe *c18enc, pd *c18dec, off uint32, bit int) *ev.Violation {
	var f *c18fail
	name := ""
	if pe != nil {
		name = pe.name
		f = w.encRel(pe, off, bit)
	} else {
		name = pd.name
		f = w.decRel(pd, off, bit)
	}
	if f == nil {
		return nil
	}
	f.key = w.qualify(pe, pd, off, bit, f.key)
	return c18violation(c18case{Part: part, Probe: name, Cfg: off, Bit: bit}, f,
		"switch "+c18bitName[bit]+" on probe "+name+": the pair (config, config+switch) is not related by exactly the documented effect")
}

// qualify computes the complete part-A key from the witness: relation failure + the probe's
// failure class + whether the failure needs another switch. A composite probe is attributed
// to the atom that fails alone under the same configuration (and gets that atom's key).
func (w *c18world) qualify(pe *c18enc, pd *c18dec, off uint32, bit int, base string) string {
	name := ""
	if pe != nil {
		name = pe.name
	} else {
		name = pd.name
	}
	mk := name + "\x00" + strconv.Itoa(bit) + "\x00" + base
	if q, ok := w.qual[mk]; ok {
		return q
	}
	if w.wq == nil {
		w.wq = c18newWorld(nil, false)
	}
	q := w.wq
	rel := func(pe2 *c18enc, cfg uint32) *c18fail {
		if c18has(cfg, bit) || !c18legal(cfg) || !c18legal(cfg|1<<uint(bit)) {
			return nil
		}
		if pe2 != nil {
			return q.encRel(pe2, cfg, bit)
		}
		return q.decRel(pd, cfg, bit)
	}
	cls, target := "", pe
	if pe != nil {
		cls = pe.class
		if len(pe.parts) > 0 {
			cls = "composite"
			for _, a := range pe.parts {
				if f := rel(a, off); f != nil {
					cls, target, base = a.class, a, f.key
					break
				}
			}
		}
	} else {
		cls = pd.class
	}
	given := "given-several-switches"
	if f := rel(target, 0); f != nil && f.key == base {
		given = "unconditional"
	} else {
		for s := 0; s < c18NBits; s++ {
			if s == bit {
				continue
			}
			if f := rel(target, 1<<uint(s)); f != nil && f.key == base {
				given = "given-" + c18bitName[s]
				break
			}
		}
	}
	res := base + ":" + cls + ":" + given
	w.qual[mk] = res
	w.evals += q.evals
	q.evals = 0
	return res
}

func (w *c18world) checkEncEntry(e *c18encEntry, ce uint32, p *c18enc) *ev.Violation {
	got := func(c uint32) string {
		if !e.only(c) {
			return "\x00n/a"
		}
		w.evals++
		return c18encEntryPart(e, c, p)
	}
	ref := func(c uint32) string { return c18encEntryWant(e, c, p, w.encObs(p, e.want(c))) }
	g, r := got(ce), ref(ce)
	if g == r {
		return nil
	}
	opt := c18attribute(c18encBits, ce, got, ref)
	return c18violation(c18case{Part: "B-enc", Probe: p.name, Cfg: ce, Bit: -1, Entry: e.name},
		&c18fail{"entry:" + e.name + ":" + opt + ":differs-from-config", c18clip(r), c18clip(g)},
		"entry point "+e.name+" with the option set differs from the frozen Config with the same switches")
}

// A stream decoder is given the document followed by a second one of the same shape and
// length with every digit and letter changed, and decodes both: the value handed out by the
// first Decode is observed only afterwards, when the stream's buffer holds the second
// document (a result that still points into the buffer has changed by then).
func c18two(doc string) string { return doc + "\n" + c18scramble(doc) }

func c18scramble(doc string) string {
	b := []byte(doc)
	in := false
	for i := 0; i < len(b); i++ {
		c := b[i]
		switch {
		case in && c == '\\':
			i++
			if i < len(b) && b[i] == 'u' {
				i += 4
			}
		case c == '"':
			in = !in
		case in && (c >= 'a' && c < 'z' || c >= 'A' && c < 'Z'):
			b[i] = c + 1
		case c >= '1' && c < '9':
			b[i] = c + 1
		}
	}
	return string(b)
}

func c18twice(d interface{ Decode(interface{}) error }, dst interface{}) error {
	if err := d.Decode(dst); err != nil {
		return err
	}
	func() {
		defer func() { recover() }()
		d.Decode(reflect.New(reflect.TypeOf(dst).Elem()).Interface())
	}()
	return nil
}

func (w *c18world) checkDecEntry(e *c18decEntry, cd uint32, p *c18dec) *ev.Violation {
	got := func(c uint32) string {
		if !e.only(c) {
			return "\x00n/a"
		}
		w.evals++
		return c18decEntryObs(e, c, p)
	}
	ref := func(c uint32) string {
		if e.stream && e.name != "api.NewDecoder" {
			w.evals++
			return c18decEntryObs(&c18decEntries(w.api)[1], e.want(c), p)
		}
		o, _, _, _, _ := w.decObs(p, e.want(c))
		return o
	}
	g, r := got(cd), ref(cd)
	if g == r {
		return nil
	}
	opt := c18attribute(c18decBits, cd, got, ref)
	return c18violation(c18case{Part: "B-dec", Probe: p.name, Cfg: cd, Bit: -1, Entry: e.name},
		&c18fail{"entry:" + e.name + ":" + opt + ":differs-from-config", c18clip(r), c18clip(g)},
		"entry point "+e.name+" with the option set differs from the frozen Config with the same switches")
}

func c18validEntries() map[string]func(doc string) bool {
	return map[string]func(string) bool{
		"sonic.Valid":               func(d string) bool { return sonic.Valid([]byte(d)) },
		"sonic.ValidString":         func(d string) bool { return sonic.ValidString(d) },
		"sonic.ConfigDefault.Valid": func(d string) bool { return sonic.ConfigDefault.Valid([]byte(d)) },
		"sonic.ConfigStd.Valid":     func(d string) bool { return sonic.ConfigStd.Valid([]byte(d)) },
		"encoder.Valid":             func(d string) bool { ok, _ := encoder.Valid([]byte(d)); return ok },
	}
}

func c18run(c *ev.Ctx, r *ev.Report) {
	debug.SetGCPercent(400)
	if n := reflect.TypeOf(sonic.Config{}).NumField(); n != c18NBits {
		r.Violate(ev.Violation{Property: "C18", Key: "harness:Config-field-count-changed", What: "sonic.Config no longer has 16 fields; the check enumerates 2^16",
			Case: ev.J(c18case{Part: "harness"}), Expected: "16", Observed: fmt.Sprint(n)})
	}
	ct := reflect.TypeOf(sonic.Config{})
	for i := 0; i < ct.NumField() && i < c18NBits; i++ {
		if ct.Field(i).Name != c18bitName[i] {
			r.Violate(ev.Violation{Property: "C18", Key: "harness:Config-field-order-changed", What: "field order of sonic.Config changed",
				Case: ev.J(c18case{Part: "harness"}), Expected: c18bitName[i], Observed: ct.Field(i).Name})
		}
	}
	for _, a := range c18encAtoms() {
		if out, err := sonic.Marshal(a.v); err == nil && !a.multiKey && !bytes.Equal(c18canon(out), out) {
			r.Violate(ev.Violation{Property: "C18", Key: "harness:atom-has-struct-with-unsorted-field-names", What: "key-order canonicalisation must be the identity on probe " + a.name,
				Case: ev.J(c18case{Part: "harness", Probe: a.name}), Expected: string(out), Observed: string(c18canon(out))})
		}
	}
	encs := c18encProbes(c.Thorough())
	decs := c18decProbes(c.Thorough())
	w := c18newWorld(c, true)
	expired := func() bool {
		if c.Expired() {
			r.Exhaustive = false
			return true
		}
		return false
	}
	flush := func() {
		w.enc = map[string]*c18tab{}
		w.dec = map[string]*c18decTabs{}
	}
	// ---- part A, encode probes
	for i, p := range encs {
		if !c.Mine(i) || expired() {
			continue
		}
		for off := uint32(0); off < 1<<c18NBits; off++ {
			for bit := 0; bit < c18NBits; bit++ {
				if c18has(off, bit) {
					continue
				}
				r.Count("A_pairs_encode", 1)
				if v := w.checkA("A-enc", p, nil, off, bit); v != nil {
					r.Violate(*v)
				}
			}
		}
		r.Count("A_cells_encode", 1<<c18NBits)
		r.Count("A_probes_encode", 1)
		flush()
	}
	// ---- part A, decode probes
	for i, p := range decs {
		if !c.Mine(10000+i) || expired() {
			continue
		}
		for off := uint32(0); off < 1<<c18NBits; off++ {
			if !c18legal(off) {
				o, _, _, _, _ := w.decObs(p, off)
				r.Count("A_illegal_configs_decode_cells", 1)
				if c18cls(o) != c18panicMsg {
					r.Violate(*c18violation(c18case{Part: "A-dec", Probe: p.name, Cfg: off, Bit: -1},
						&c18fail{"illegal:UseInt64+UseNumber:no-documented-panic", c18panicMsg, c18clip(o)}, "UseInt64 together with UseNumber must panic in Decoder.SetOptions"))
				}
				continue
			}
			for bit := 0; bit < c18NBits; bit++ {
				if c18has(off, bit) {
					continue
				}
				if !c18legal(off | 1<<uint(bit)) {
					r.Skipped++
					continue
				}
				r.Count("A_pairs_decode", 1)
				if v := w.checkA("A-dec", nil, p, off, bit); v != nil {
					r.Violate(*v)
				}
			}
		}
		t := w.decTabs(p)
		for cfg := range t.alias {
			if t.alias[cfg] == 2 {
				r.Count("A_decode_cells_with_strings_referring_to_input", 1)
			}
			if t.alias[cfg] == 3 && c18has(uint32(cfg), c18CopyString) {
				r.Count("A_decode_cells_CopyString_on_but_json.Number_refers_to_input", 1)
			}
		}
		r.Count("A_cells_decode", 1<<c18NBits)
		r.Count("A_probes_decode", 1)
		flush()
	}
	// ---- part B
	wb := c18newWorld(c, false)
	wb.distinct, wb.classes = w.distinct, w.classes
	memoE := map[uint32]string{}
	encEntries := c18encEntries(wb.api)
	for i, p := range encs {
		if !c.Mine(20000+i) || expired() {
			continue
		}
		for k := range memoE {
			delete(memoE, k)
		}
		for idx := uint32(0); idx < 1<<uint(len(c18encBits)); idx++ {
			ce := c18spread(idx, c18encBits)
			wb.setCase("B-enc", p.name, ce)
			for ei := range encEntries {
				e := &encEntries[ei]
				if !e.only(ce) {
					continue
				}
				r.Count("B_cases_encode", 1)
				r.SetAdd("B_entry_points", e.name)
				if v := wb.checkEncEntry(e, ce, p); v != nil {
					r.Violate(*v)
				}
			}
		}
		r.Count("B_probes_encode", 1)
	}
	decEntries := c18decEntries(wb.api)
	for i, p := range decs {
		if !c.Mine(30000+i) || expired() {
			continue
		}
		for idx := uint32(0); idx < 1<<uint(len(c18decBits)); idx++ {
			cd := c18spread(idx, c18decBits)
			if !c18legal(cd) {
				continue
			}
			wb.setCase("B-dec", p.name, cd)
			for ei := range decEntries {
				e := &decEntries[ei]
				if !c18decEntryApplies(e, cd, p) {
					continue
				}
				r.Count("B_cases_decode", 1)
				r.SetAdd("B_entry_points", e.name)
				if v := wb.checkDecEntry(e, cd, p); v != nil {
					r.Violate(*v)
				}
			}
		}
		r.Count("B_probes_decode", 1)
		if c.Mine(30000 + i) {
			ref := c18cfg(0).Froze().Valid([]byte(p.doc))
			for name, f := range c18validEntries() {
				wb.evals++
				r.Count("B_cases_valid", 1)
				r.SetAdd("B_entry_points", name)
				if got := f(p.doc); got != ref {
					r.Violate(*c18violation(c18case{Part: "B-valid", Probe: p.name, Bit: -1, Entry: name},
						&c18fail{"entry:" + name + ":-:differs-from-config", fmt.Sprint(ref), fmt.Sprint(got)}, "Valid entry point differs from Config{}.Froze().Valid"))
				}
			}
		}
	}
	r.Evaluations += w.evals + wb.evals
	r.Distinct = int64(len(w.distinct))
	for k := range w.classes {
		r.SetAdd("outcome_classes", k)
	}
	if c.Shard == 0 {
		r.Sample(map[string]string{"probe": encs[0].name, "config": "EscapeHTML", "observation": w0sample(encs[0], 1<<c18EscapeHTML)})
		r.Sample(map[string]string{"probe": decs[0].name, "config": "UseInt64", "observation": w0sampleDec(decs[0], 1<<c18UseInt64)})
	}
}

func w0sample(p *c18enc, cfg uint32) string {
	var n int64
	return strconv.QuoteToASCII(c18encObs(c18cfg(cfg).Froze(), p, cfg, &n))
}
func w0sampleDec(p *c18dec, cfg uint32) string {
	var n int64
	o, _, _ := c18decObs3(c18cfg(cfg).Froze(), p, cfg, &n)
	return strconv.QuoteToASCII(o)
}

func c18replay(c *ev.Ctx, desc json.RawMessage) *ev.Violation {
	var cs c18case
	if json.Unmarshal(desc, &cs) != nil {
		return nil
	}
	w := c18newWorld(nil, false)
	var pe *c18enc
	var pd *c18dec
	for _, th := range []bool{false, true} {
		for _, p := range c18encProbes(th) {
			if pe == nil && p.name == cs.Probe {
				pe = p
			}
		}
		for _, p := range c18decProbes(th) {
			if pd == nil && p.name == cs.Probe {
				pd = p
			}
		}
	}
	switch cs.Part {
	case "A-enc":
		if pe == nil {
			return nil
		}
		if cs.Bit < 0 {
			w.encObs(pe, cs.Cfg)
			for _, k := range []string{"empty", "nonan", "jmark"} {
				w.encObs(pe.shadow(k), cs.Cfg)
			}
			return nil
		}
		return w.checkA("A-enc", pe, nil, cs.Cfg, cs.Bit)
	case "A-dec":
		if pd == nil {
			return nil
		}
		if cs.Bit < 0 {
			o, _, _, _, _ := w.decObs(pd, cs.Cfg)
			if !c18legal(cs.Cfg) && c18cls(o) != c18panicMsg {
				return c18violation(cs, &c18fail{"illegal:UseInt64+UseNumber:no-documented-panic", c18panicMsg, c18clip(o)}, "UseInt64 together with UseNumber must panic in Decoder.SetOptions")
			}
			return nil
		}
		return w.checkA("A-dec", nil, pd, cs.Cfg, cs.Bit)
	case "B-enc":
		if pe == nil {
			return nil
		}
		es := c18encEntries(w.api)
		for i := range es {
			if (es[i].name == cs.Entry || cs.Entry == "") && es[i].only(cs.Cfg) {
				if v := w.checkEncEntry(&es[i], cs.Cfg, pe); v != nil {
					return v
				}
			}
		}
	case "B-dec":
		if pd == nil {
			return nil
		}
		es := c18decEntries(w.api)
		for i := range es {
			e := &es[i]
			if (e.name == cs.Entry || cs.Entry == "") && c18decEntryApplies(e, cs.Cfg, pd) {
				if v := w.checkDecEntry(e, cs.Cfg, pd); v != nil {
					return v
				}
			}
		}
	case "B-valid":
		if pd == nil {
			return nil
		}
		ref := c18cfg(0).Froze().Valid([]byte(pd.doc))
		if f := c18validEntries()[cs.Entry]; f != nil && f(pd.doc) != ref {
			return c18violation(cs, &c18fail{"entry:" + cs.Entry + ":-:differs-from-config", fmt.Sprint(ref), fmt.Sprint(!ref)}, "Valid entry point differs from Config{}.Froze().Valid")
		}
	}
	return nil
}

func init() {
	ev.Register(&ev.Check{
		ID: "C18", Level: "exploration", Workers: 16, QuickSecs: 150, ThorSecs: 1500,
		Rule: "part A: ALL 2^16 values of sonic.Config (16 boolean fields) x probe set (quick: 42 encode atoms + 6 two-atom composites, 50 decode (document,destination) pairs; " +
			"thorough: + every ordered pair of encode atoms as a 2-element slice, + every decode atom wrapped in [d,d] and {\"k\":d}); observation = Marshal result + stream Encode result, " +
			"resp. Unmarshal error class + decoded value rendered with type tags (+ whether decoded strings refer to the input, + Valid verdict); every neighbour pair (c, c+switch) " +
			"must be related by exactly the documented effect of the switch (reference: json.HTMLEscape, key-sorted re-emission, json.Compact, shadow values/documents that spell out the effect); " +
			"UseInt64+UseNumber (16384 configs) must panic as coded and is excluded from decode pairs. part B: all 2^9 encoder option sets x 22 entry points and all 192 legal decoder option sets x 14 entry points " +
			"must give the observation of the frozen Config with the same switches. distinct_nontrivial = number of distinct (probe, observation) values seen over all configs (64-bit hash set per worker, summed)",
		Assume: []string{"encoding/json HTMLEscape/Compact/Indent/Valid, unicode/utf8 and strconv are the references",
			"map iteration order is not an observation: without SortMapKeys outputs are compared after re-emitting object members in decoded-key byte order",
			"stream decoders are compared only on documents without trailing data / truncation (C17 covers those)"},
		Run:    c18run,
		Replay: c18replay,
	})
}
