package main

import (
	"bytes"
	"fmt"
	"reflect"

	"github.com/bytedance/sonic"
	"github.com/bytedance/sonic/encoder"

	"verif/internal/ev"
	"verif/internal/gen"
)

// C03, long values: strings dense with characters that need escaping (the quote and the
// HTML-escape post-pass are restartable loops that grow their destination and resume) and
// integer-keyed maps past the sorter's thresholds, compared with encoding/json like every
// other value - and, because what the pooled output buffer already holds decides how many
// growth steps one call needs, encoded once more into a fresh 16-byte buffer under the same
// options: both outputs must be the same bytes.

const c03stdOpts = encoder.EscapeHTML | encoder.SortMapKeys | encoder.CompactMarshaler | encoder.ValidateString

func c03extraValues() []c04extra {
	return append(c04longStrings(), c04intKeyMaps()...)
}

func c03extraJudge(xi int) *ev.Violation {
	xs := c03extraValues()
	if xi < 0 || xi >= len(xs) {
		return nil
	}
	x := xs[xi]
	val := x.mk()
	t := gen.TypeCase{Name: x.name, T: reflect.TypeOf(val)}
	if v := c03judge(t, 0, -1, xi, false, val); v != nil {
		return v
	}
	so, serr, span := safeMarshal(sonic.ConfigStd.Marshal, val)
	fo, ferr, fpan := freshEncode(val, c03stdOpts)
	if span != "" || fpan != "" || (serr == nil) != (ferr == nil) || !bytes.Equal(so, fo) {
		i := 0
		for i < len(so) && i < len(fo) && so[i] == fo[i] {
			i++
		}
		return &ev.Violation{Property: "C03", Key: "marshal:output-depends-on-the-capacity-of-the-output-buffer",
			What: "the same value under the same options encodes differently into a fresh 16-byte buffer", Case: ev.J(c03case{0, -1, xi, false, x.name}),
			Expected: fmt.Sprintf("%d bytes, err=%v %s (ConfigStd.Marshal, pooled buffer)", len(so), serr, span),
			Observed: fmt.Sprintf("%d bytes, err=%v %s (EncodeInto a fresh 16-byte buffer); first difference at byte %d", len(fo), ferr, fpan, i)}
	}
	return nil
}

func c03extras(c *ev.Ctx, r *ev.Report) {
	for xi := range c03extraValues() {
		if !c.Mine(800000 + xi) {
			continue
		}
		if c.Expired() {
			r.Exhaustive = false
			return
		}
		c.SetCase(string(ev.J(c03case{0, -1, xi, false, "extra"})))
		r.Evaluations++
		r.Count("long-values", 1)
		if v := c03extraJudge(xi); v != nil {
			r.Violate(*v)
		}
	}
}
