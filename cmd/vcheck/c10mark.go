package main

import (
	"encoding/json"
	"fmt"
	"runtime"
	"runtime/debug"
	"time"
	"unsafe"

	"github.com/bytedance/sonic"
	"github.com/bytedance/sonic/verifhooks"

	"verif/internal/ev"
)

// C10, companion pass "stores during a mark phase" (free-running, like the -race passes of
// C08/C16: the collector's progress is not under the harness's control, so this pass is not
// part of the exhaustive count). The enumerated events fire BETWEEN opcodes, where no mark
// phase is in progress while generated code stores pointers; the write barrier that generated
// code emits for every pointer store only matters while the collector is marking. Here
// long-lived objects, reachable only through the tail of a 3*10^6-node list (the marker needs
// tens of milliseconds to get there), are decoded into a second time inside a mark phase,
// after the caller copied the previous value of every pointer field into locals of a stack
// that this cycle has already scanned. The store must report the pointer it overwrites
// (deletion barrier); otherwise the previous value - now referenced by the locals only - is
// freed by this cycle (and poisoned: GODEBUG=clobberfree=1).

type c10mrec struct {
	Name string            `json:"name"`
	Num  json.Number       `json:"num"`
	Raw  json.RawMessage   `json:"raw"`
	Bin  []byte            `json:"bin"`
	List []string          `json:"list"`
	Any  interface{}       `json:"any"`
	Map  map[string]string `json:"map"`
	Str  string            `json:"str,string"`
}

type c10mlink struct {
	next *c10mlink
	obj  *c10mrec
}

const (
	c10mTargets = 128
	c10mChain   = 3000000
)

var (
	c10mHead    *c10mlink
	c10mHidden  [c10mTargets]uintptr // addresses of the records, invisible to the collector
	c10mKeep    []string
	c10mFiller  []string
	c10mInputs2 [c10mTargets]string
)

func c10mOld(i int, field string) string {
	b := make([]byte, 48)
	for k := range b {
		b[k] = 'a' + byte(i%26)
	}
	copy(b, fmt.Sprintf("old-%s-%04d-", field, i))
	return string(b)
}

func c10mDoc(i int, gen string) string {
	v := func(f string) string {
		if gen == "old" {
			return c10mOld(i, f)
		}
		return fmt.Sprintf("new-%s-%04d", f, i)
	}
	return fmt.Sprintf(`{"name":%q,"num":1%04d,"raw":[%q],"bin":"b2xkLWJpbi0wMDAwLWFhYWFhYWFhYWFhYWFhYWFhYWFhYWFhYWFhYWFhYWFhYWFh","list":[%q,%q],"any":%q,"map":{"k":%q},"str":"\"%s\""}`,
		v("name"), i, v("raw"), v("l0"), v("l1"), v("any"), v("map"), v("str"))
}

//go:noinline
func c10mBuild() error {
	c10mHead = &c10mlink{}
	p := c10mHead
	for i := 0; i < c10mChain; i++ {
		n := &c10mlink{}
		p.next = n
		p = n
	}
	c10mKeep = c10mKeep[:0]
	for i := 0; i < c10mTargets; i++ {
		r := &c10mrec{}
		// CopyString: the first generation of values are heap objects of their own
		if err := sonic.ConfigStd.UnmarshalFromString(c10mDoc(i, "old"), r); err != nil {
			return err
		}
		c10mKeep = append(c10mKeep, c10mOld(i, "keep")+"")
		n := &c10mlink{obj: r}
		p.next = n
		p = n
		c10mHidden[i] = uintptr(unsafe.Pointer(r))
		c10mInputs2[i] = c10mDoc(i, "new")
	}
	return nil
}

type c10mOlds struct {
	name, num, l0, l1, any, str string
	raw, bin                    []byte
}

// c10markExperiment returns the field kinds whose previous value did not survive, and whether
// the second round of decoding really ran inside a mark phase.
var c10mSample = map[string]string{}

func c10markExperiment() (lost map[string]int, conclusive bool, err error) {
	var olds [c10mTargets]c10mOlds // lives in this frame: a root scanned once per cycle
	lost = map[string]int{}
	if err = c10mBuild(); err != nil {
		return
	}
	runtime.GC() // everything above is old and unmarked when the next cycle begins
	done := make(chan struct{})
	go func() {
		runtime.GC()
		close(done)
	}()
	deadline := time.Now().Add(20 * time.Second)
	for !verifhooks.Marking() {
		if time.Now().After(deadline) {
			<-done
			return lost, false, nil
		}
		runtime.Gosched()
	}
	time.Sleep(3 * time.Millisecond) // let the root scan (globals, stacks) finish
	if !verifhooks.Marking() {
		<-done
		return lost, false, nil
	}
	for i := 0; i < c10mTargets; i++ {
		r := (*c10mrec)(unsafe.Pointer(c10mHidden[i]))
		o := &olds[i]
		o.name, o.num, o.raw, o.bin, o.str = r.Name, string(r.Num), r.Raw, r.Bin, r.Str
		if len(r.List) == 2 {
			o.l0, o.l1 = r.List[0], r.List[1]
		}
		o.any, _ = r.Any.(string)
		// the caller keeps the previous values and recycles the object
		if err = sonic.ConfigStd.UnmarshalFromString(c10mInputs2[i], r); err != nil {
			<-done
			return
		}
	}
	conclusive = verifhooks.Marking()
	<-done
	// hand the memory freed by this cycle out again
	buf := make([]byte, 48)
	for k := range buf {
		buf[k] = 'Z'
	}
	c10mFiller = c10mFiller[:0]
	for i := 0; i < 200000; i++ {
		c10mFiller = append(c10mFiller, string(buf))
	}
	for i := 0; i < c10mTargets; i++ {
		o := &olds[i]
		chk := func(kind, got, want string) {
			if got != want {
				if lost[kind] == 0 {
					c10mSample[kind] = fmt.Sprintf("record %d holds %q, want %q", i, clipS(got, 60), clipS(want, 60))
				}
				lost[kind]++
			}
		}
		chk("string-field", o.name, c10mOld(i, "name"))
		chk("json.Number-field", o.num, fmt.Sprintf("1%04d", i))
		// (a RawMessage is decoded into its existing backing array when it fits, as in
		// encoding/json: the previous slice legitimately shows the new bytes - not compared)
		chk("[]byte-field", string(o.bin), "old-bin-0000-"+"aaaaaaaaaaaaaaaaaaaaaaaaaaaaaaaaaaa")
		chk("slice-element", o.l0, c10mOld(i, "l0"))
		chk("slice-element", o.l1, c10mOld(i, "l1"))
		chk("interface-field", o.any, c10mOld(i, "any"))
		chk("string-tagged-field", o.str, c10mOld(i, "str"))
	}
	runtime.KeepAlive(&olds)
	return
}

func c10markPass(r *ev.Report) {
	defer debug.SetGCPercent(debug.SetGCPercent(-1))
	var warm c10mrec
	if err := sonic.ConfigStd.UnmarshalFromString(c10mDoc(0, "old"), &warm); err != nil {
		r.Notes = append(r.Notes, "concurrent-mark pass: warm-up decode failed: "+err.Error())
		return
	}
	defer func() { c10mHead, c10mKeep, c10mFiller = nil, nil, nil }()
	for attempt := 1; attempt <= 4; attempt++ {
		lost, conclusive, err := c10markExperiment()
		if err != nil {
			r.Notes = append(r.Notes, "concurrent-mark pass: decode failed: "+err.Error())
			return
		}
		for kind, n := range lost {
			r.Violate(ev.Violation{Property: "C10", Key: "stores-during-mark-phase:previous-value-freed-while-still-referenced:" + kind,
				What: "a pointer store made by generated code during a mark phase did not report the pointer it overwrote: the previous value, still referenced from a stack already scanned, was freed",
				Case: ev.J(c10case{Prog: "concurrent-mark", Event: kind}), Expected: "previous values intact",
				Observed: fmt.Sprintf("%d of %d previous values of kind %s were freed and overwritten while a local variable still referenced them (%s)", n, c10mTargets, kind, c10mSample[kind])})
		}
		if len(lost) > 0 {
			return
		}
		if conclusive {
			r.Count("concurrent_mark_pass_objects_redecoded_inside_a_mark_phase", c10mTargets)
			return
		}
	}
	r.Notes = append(r.Notes, "concurrent-mark pass: could not place the decoding inside a mark phase (4 attempts)")
}
