package main

import (
	"fmt"
	"reflect"
	"regexp"
	"strings"

	"verif/internal/ev"
	"verif/internal/gen"
)

// C01 (and the E5 decode suites), field-lookup stratum: the JIT decoder finds a struct field
// with its own open-addressing probe over a table of 2n slots (hash, compare, next slot with
// wrap-around), falling back to a case-insensitive Go map; the alternative decoder switches
// strategy above 50 fields. Struct types with n fields, n on both sides of every power of
// two up to 64 and of 50, are decoded from documents that name EACH field exactly, each
// field in another case, all fields in both orders, and near misses.

var c01fieldCounts = []int{1, 2, 3, 7, 8, 9, 15, 16, 17, 31, 32, 33, 49, 50, 51, 63, 64, 65, 100}

type c01fieldType struct {
	gen.TypeCase
	keys []string // the JSON name of each field
}

var c01fieldTypesMemo []c01fieldType

// c01fieldTypes: a tagged family (json:"kNN", Go name FNN) and an untagged one (Go name
// KeyNN, matched case-insensitively by "keyNN").
func c01fieldTypes() []c01fieldType {
	if c01fieldTypesMemo != nil {
		return c01fieldTypesMemo
	}
	for _, n := range c01fieldCounts {
		var tagged, plain []reflect.StructField
		var tk, pk []string
		for i := 0; i < n; i++ {
			tagged = append(tagged, reflect.StructField{Name: fmt.Sprintf("F%02d", i), Type: reflect.TypeOf(0), Tag: reflect.StructTag(fmt.Sprintf(`json:"k%02d"`, i))})
			tk = append(tk, fmt.Sprintf("k%02d", i))
			plain = append(plain, reflect.StructField{Name: fmt.Sprintf("Key%02d", i), Type: reflect.TypeOf(0)})
			pk = append(pk, fmt.Sprintf("Key%02d", i))
		}
		c01fieldTypesMemo = append(c01fieldTypesMemo,
			c01fieldType{gen.TypeCase{Name: fmt.Sprintf("fields-tagged-%d", n), T: reflect.StructOf(tagged)}, tk},
			c01fieldType{gen.TypeCase{Name: fmt.Sprintf("fields-plain-%d", n), T: reflect.StructOf(plain)}, pk})
	}
	return c01fieldTypesMemo
}

func c01fieldTypeByName(name string) *gen.TypeCase {
	for _, t := range c01fieldTypes() {
		if t.Name == name {
			tc := t.TypeCase
			return &tc
		}
	}
	return nil
}

// c01fieldCases calls f with every (type, document) pair of the stratum.
func c01fieldCases(c *ev.Ctx, f func(t gen.TypeCase, doc []byte) bool) {
	for ti, t := range c01fieldTypes() {
		if !c.Mine(300000 + ti) {
			continue
		}
		emit := func(s string) bool { return f(t.TypeCase, []byte(s)) }
		var asc, desc []string
		for i, k := range t.keys {
			asc = append(asc, fmt.Sprintf("%q:%d", k, i+1))
			desc = append([]string{fmt.Sprintf("%q:%d", k, i+1)}, desc...)
			if !emit(fmt.Sprintf("{%q:%d}", k, i+1)) || !emit(fmt.Sprintf("{%q:%d}", strings.ToUpper(k), i+1)) || !emit(fmt.Sprintf("{%q:%d}", strings.ToLower(k), i+1)) {
				return
			}
		}
		n := len(t.keys)
		last := t.keys[n-1]
		for _, s := range []string{
			"{" + strings.Join(asc, ",") + "}", "{" + strings.Join(desc, ",") + "}",
			fmt.Sprintf("{%q:7}", last[:len(last)-1]), fmt.Sprintf("{%q:7}", last+"0"), fmt.Sprintf("{%q:7}", last[:len(last)-2]+fmt.Sprintf("%02d", n)),
			fmt.Sprintf("{%q:1,%q:2}", t.keys[0], strings.ToUpper(t.keys[0])), fmt.Sprintf("{%q:1,%q:2}", strings.ToUpper(t.keys[0]), t.keys[0]),
			fmt.Sprintf("{%q:1,%q:\"x\",%q:3}", t.keys[0], last, t.keys[n/2]),
			fmt.Sprintf("{\"\":1,%q:2}", t.keys[n/2]), fmt.Sprintf("{\"k\\u0030%s\":5}", t.keys[0][len(t.keys[0])-1:]),
		} {
			if !emit(s) {
				return
			}
		}
	}
}

// integer-keyed map destinations of every width x key spellings at and around each width's
// range (each width has its own range check in generated code) and the spellings
// strconv.ParseInt accepts beyond JSON's number grammar
func c01intKeyTypes() []gen.TypeCase {
	mk := func(k interface{}) gen.TypeCase {
		t := reflect.MapOf(reflect.TypeOf(k), reflect.TypeOf(0))
		return gen.TypeCase{Name: "intkey-" + t.String(), T: t}
	}
	return []gen.TypeCase{mk(int8(0)), mk(int16(0)), mk(int32(0)), mk(int64(0)), mk(int(0)),
		mk(uint8(0)), mk(uint16(0)), mk(uint32(0)), mk(uint64(0)), mk(uint(0)), mk(uintptr(0))}
}

func c01intKeyDocs() []string {
	var l []string
	for _, k := range []string{"0", "-0", "1", "-1", "127", "128", "-128", "-129", "255", "256", "32767", "32768", "-32768", "-32769", "65535", "65536",
		"2147483647", "2147483648", "-2147483648", "-2147483649", "4294967295", "4294967296", "8589934592", "9223372036854775807", "9223372036854775808",
		"-9223372036854775808", "-9223372036854775809", "18446744073709551615", "18446744073709551616", "+1", "01", "00", " 1", "1 ", "1.0", "1e2", "", "0x10", "1_0"} {
		l = append(l, fmt.Sprintf("{%q:7}", k), fmt.Sprintf("{\"5\":1,%q:7}", k))
	}
	return l
}

func c01intKeyTypeByName(name string) *gen.TypeCase {
	for _, t := range c01intKeyTypes() {
		if t.Name == name {
			tc := t
			return &tc
		}
	}
	return nil
}

var c01intKeyRe = regexp.MustCompile(`"[+-]?\d+":`)
