package main

import (
	"encoding/json"
	"fmt"
	"reflect"
	"regexp"
	"runtime/debug"
	"strings"

	"github.com/bytedance/sonic"
	"github.com/bytedance/sonic/option"
	"github.com/bytedance/sonic/verifhooks"

	"verif/internal/ev"
	"verif/internal/gen"
)

// C09: codec results never depend on history (cache state, compile order, Pretouch).
// Engine E2: every history of <= d operations over a type set built to collide, each
// replayed from freshly reset caches on the real code; oracle = differential against the
// empty history (the same operation right after a reset). Component part: the real
// ProgramCache driven with fabricated keys across its rehash boundaries.

// two pairs of distinct types that print identically
func c09A1() reflect.Type { type T struct{ A int }; return reflect.TypeOf(T{}) }
func c09A2() reflect.Type { type T struct{ A string }; return reflect.TypeOf(T{}) }
func c09U1() reflect.Type { type U struct{ X []int }; return reflect.TypeOf(U{}) }
func c09U2() reflect.Type {
	type U struct {
		X map[string]int
		Y bool
	}
	return reflect.TypeOf(U{})
}

type c09SPM struct {
	X gen.PM // pointer-receiver Marshaler reached by value / through a pointer
	N int
}

// c09PVS reaches c09SPM (which holds a pointer-receiver Marshaler) through a pointer and as
// a plain field: in both places the value is addressable when &c09PVS is marshalled
type c09PVS struct {
	A *c09SPM `json:"a,omitempty"`
	Z c09SPM  `json:"z"`
}

// c09Owner / c09Pet: a reference cycle that crosses the inline depth, whose root holds a
// pointer-receiver Marshaler by value: a batch Pretouch walk that comes back to the root in
// another addressability context must not change what is cached for it
type c09Owner struct {
	Stamp gen.PM  `json:"stamp"`
	Pet   *c09Pet `json:"pet,omitempty"`
}
type c09Pet struct {
	Name  string    `json:"name"`
	Owner *c09Owner `json:"owner,omitempty"`
}

type c09type struct {
	name   string
	t      reflect.Type
	doc    string // decodes successfully
	bad    string // fails to decode
	sample string // JSON from which the value to marshal is built (via encoding/json)
}

func c09types() []c09type {
	return []c09type{
		{"A1", c09A1(), `{"A":7}`, `{"A":"x"}`, `{"A":7}`},
		{"A2", c09A2(), `{"A":"s"}`, `{"A":7}`, `{"A":"s"}`},
		{"U1", c09U1(), `{"X":[1,2]}`, `{"X":{"a":1}}`, `{"X":[1,2]}`},
		{"U2", c09U2(), `{"X":{"a":1},"Y":true}`, `{"X":[1]}`, `{"X":{"a":1},"Y":true}`},
		{"SPM", reflect.TypeOf(c09SPM{}), `{"X":[1],"N":2}`, `{"N":"x"}`, `{"N":2}`},
		{"Rec", reflect.TypeOf(gen.Rec{}), `{"V":1,"next":{"V":2,"kids":[{"V":3}]}}`, `{"V":1,"next":[1]}`, `{"V":1,"next":{"V":2,"kids":[{"V":3}]}}`},
		{"PVS", reflect.TypeOf(c09PVS{}), `{"a":{"X":[1],"N":1},"z":{"X":[2],"N":2}}`, `{"a":[1]}`, `{"a":{"N":1},"z":{"N":2}}`},
		{"Deep", reflect.TypeOf(gen.Deep{}), `{"L1":{"L2":{"L3":{"L4":{"L5":{"V":9}}}}}}`, `{"L1":{"L2":{"L3":{"L4":{"L5":{"V":"x"}}}}}}`, `{"L1":{"L2":{"L3":{"L4":{"L5":{"V":9}}}}}}`},
		{"Owner", reflect.TypeOf(c09Owner{}), `{"stamp":[1],"pet":{"name":"p","owner":{"stamp":[2]}}}`, `{"pet":[1]}`, `{"pet":{"name":"p","owner":{"pet":{"name":"q"}}}}`},
	}
}

type c09op struct {
	name string
	obs  bool // produces an observation worth comparing
	run  func() string
}

func errLine(err error) string {
	if err == nil {
		return "ok"
	}
	s := err.Error()
	if i := strings.IndexByte(s, '\n'); i >= 0 {
		s = s[:i]
	}
	return "ERR:" + s
}

func c09ops() []c09op {
	ts := c09types()
	var ops []c09op
	add := func(name string, obs bool, f func() string) { ops = append(ops, c09op{name, obs, f}) }
	guard := func(f func() string) func() string {
		return func() (s string) {
			defer func() {
				if r := recover(); r != nil {
					s = "PANIC:" + clipS(fmt.Sprint(r), 100)
				}
			}()
			return f()
		}
	}
	for _, t := range ts {
		t := t
		mkval := func() reflect.Value {
			p := reflect.New(t.t)
			if err := json.Unmarshal([]byte(t.sample), p.Interface()); err != nil {
				panic(err)
			}
			return p
		}
		add("Marshal("+t.name+")", true, guard(func() string {
			b, err := sonic.ConfigStd.Marshal(mkval().Elem().Interface())
			return string(b) + "|" + errLine(err)
		}))
		add("Marshal(&"+t.name+")", true, guard(func() string {
			b, err := sonic.ConfigStd.Marshal(mkval().Interface())
			return string(b) + "|" + errLine(err)
		}))
		add("Unmarshal("+t.name+")", true, guard(func() string {
			p := reflect.New(t.t)
			err := sonic.ConfigStd.Unmarshal([]byte(t.doc), p.Interface())
			return gen.Dump(p.Elem()) + "|" + errLine(err)
		}))
		add("UnmarshalBad("+t.name+")", true, guard(func() string {
			p := reflect.New(t.t)
			err := sonic.ConfigStd.Unmarshal([]byte(t.bad), p.Interface())
			if err == nil {
				return gen.Dump(p.Elem()) + "|ok"
			}
			return "ERR" // position/wording may legitimately not matter; acceptance does
		}))
		add("Pretouch("+t.name+")", false, guard(func() string { return errLine(sonic.Pretouch(t.t)) }))
	}
	deep := ts[7].t
	rec := ts[5].t
	for _, o := range [][2]int{{1, 0}, {1, 1}, {3, 2}, {0, 0}} {
		o := o
		add(fmt.Sprintf("Pretouch(Deep,inline=%d,rec=%d)", o[0], o[1]), false, guard(func() string {
			return errLine(sonic.Pretouch(deep, option.WithCompileMaxInlineDepth(o[0]), option.WithCompileRecursiveDepth(o[1])))
		}))
		add(fmt.Sprintf("Pretouch(Rec,inline=%d,rec=%d)", o[0], o[1]), false, guard(func() string {
			return errLine(sonic.Pretouch(rec, option.WithCompileMaxInlineDepth(o[0]), option.WithCompileRecursiveDepth(o[1])))
		}))
	}
	owner := ts[8].t
	for _, o := range [][2]int{{1, 1}, {1, 2}, {1, 3}, {0, 2}, {2, 2}} {
		o := o
		add(fmt.Sprintf("Pretouch(Owner,inline=%d,rec=%d)", o[0], o[1]), false, guard(func() string {
			return errLine(sonic.Pretouch(owner, option.WithCompileMaxInlineDepth(o[0]), option.WithCompileRecursiveDepth(o[1])))
		}))
	}
	many := func(name string, idx ...int) {
		var l []reflect.Type
		for _, i := range idx {
			l = append(l, ts[i].t)
		}
		add("PretouchMany("+name+")", false, guard(func() string { return errLine(pretouchMany(l)) }))
	}
	many("A1,A2", 0, 1)
	many("A2,A1", 1, 0)
	many("U1,U2", 2, 3)
	many("U2,U1", 3, 2)
	many("A1,U1,A2", 0, 2, 1)
	many("SPM,Rec,Deep", 4, 5, 7)
	many("PVS,SPM", 6, 4)
	return ops
}

// sonic has no public PretouchMany at the top level: both codec packages export one.
func pretouchMany(l []reflect.Type) error {
	if err := encoderPretouchMany(l); err != nil {
		return err
	}
	return decoderPretouchMany(l)
}

var c09pmRe = regexp.MustCompile(`\[(-?\d+),"pm"\]`)

func c09pmNorm(s string) string { return c09pmRe.ReplaceAllString(s, `{"V":$1}`) }

type c09case struct {
	Ops []string `json:"ops"`
}

func init() {
	ops := c09ops()
	find := func(n string) int {
		for i := range ops {
			if ops[i].name == n {
				return i
			}
		}
		return -1
	}
	var solo []string
	soloOf := func() []string {
		if solo == nil {
			solo = make([]string, len(ops))
			for i := range ops {
				verifhooks.ResetCodecCaches()
				solo[i] = ops[i].run()
			}
		}
		return solo
	}
	// run one history from reset caches; returns the first op whose observation differs
	// from its solo observation
	runHist := func(h []int) (bad int, got string, state string) {
		s := soloOf()
		verifhooks.ResetCodecCaches()
		for k, oi := range h {
			g := ops[oi].run()
			if g != s[oi] {
				return k, g, ""
			}
		}
		e, j, o := verifhooks.CacheSizes()
		return -1, "", fmt.Sprintf("%d/%d/%d", e, j, o)
	}
	names := func(h []int) []string {
		var l []string
		for _, oi := range h {
			l = append(l, ops[oi].name)
		}
		return l
	}
	culpritMemo := map[string][2]string{}
	mkViol := func(h []int, bad int, got string) *ev.Violation {
		// key: the op kind that misbehaved + the kinds of ops before it that touch a type
		// sharing its printed name or structure (kept coarse: the op names without arguments)
		kind := func(n string) string {
			if i := strings.IndexByte(n, '('); i > 0 {
				return n[:i]
			}
			return n
		}
		var pre []string
		seen := map[string]bool{}
		for _, oi := range h[:bad] {
			k := kind(ops[oi].name)
			if !seen[k] {
				seen[k] = true
				pre = append(pre, k)
			}
		}
		cls := "different-result"
		if strings.HasPrefix(got, "PANIC") {
			cls = "panic"
		}
		key := fmt.Sprintf("history:%s after [%s]: %s", ops[h[bad]].name, strings.Join(pre, ","), cls)
		// root cause with an exact predicate: the two outputs are equal once every rendering of
		// the pointer-receiver Marshaler gen.PM ([v,"pm"] through the method, {"V":v} without
		// it) is normalised, i.e. the only difference is whether the method was applied: the
		// encoder's program cache is keyed by type alone and serves the program compiled for
		// the first occurrence's addressability to every later occurrence
		// The finding is identified by the HISTORY that fails: the single earlier operation
		// after which the observing operation alone already shows the same wrong output (found by
		// replaying [p, op] from reset caches for every p of the prefix), so another way into
		// the same defect - another culprit operation - is a different key.
		if exp := soloOf()[h[bad]]; strings.HasPrefix(ops[h[bad]].name, "Marshal(") && exp != got && c09pmNorm(exp) == c09pmNorm(got) {
			// smallest ordered sub-sequence of the prefix that still produces the same wrong output
			pre := h[:bad]
			culprit := "[" + strings.Join(names(pre), ", ") + "]"
		search:
			for size := 1; size < len(pre); size++ {
				for mask := 1; mask < 1<<len(pre); mask++ {
					var sub []int
					for i := range pre {
						if mask&(1<<i) != 0 {
							sub = append(sub, pre[i])
						}
					}
					if len(sub) != size {
						continue
					}
					hs := append(append([]int{}, sub...), h[bad])
					mk := fmt.Sprint(hs)
					res, ok := culpritMemo[mk]
					if !ok {
						b2, g2, _ := runHist(hs)
						res = [2]string{fmt.Sprint(b2), g2}
						culpritMemo[mk] = res
					}
					if res[0] == fmt.Sprint(size) && res[1] == got {
						culprit = "[" + strings.Join(names(sub), ", ") + "]"
						break search
					}
				}
			}
			if len(pre) == 1 || !strings.Contains(culprit, ", ") {
				culprit = strings.Trim(culprit, "[]")
			}
			key = "history:addressability-fixed-at-first-compile(encoder program cache keyed by type only): " + culprit + " -> " + ops[h[bad]].name
		}
		return &ev.Violation{Property: "C09", Key: key,
			What: "an operation's result depends on what the process did before", Case: ev.J(c09case{names(h[:bad+1])}),
			Expected: clipS(soloOf()[h[bad]], 300) + "   (same op right after a cache reset)", Observed: clipS(got, 300)}
	}
	ev.Register(&ev.Check{
		ID: "C09", Level: "model_checking", Workers: 16, QuickSecs: 260, ThorSecs: 1500,
		Rule: "every history = prefix of <= p arbitrary operations (p=2 quick, 3 thorough) followed by one observing operation, over 66 op instances (Marshal by value / through a pointer, Unmarshal ok / failing, Pretouch with 4-5 (MaxInlineDepth,RecursiveDepth) settings, PretouchMany over colliding sets in both orders) " +
			"on 9 types built to collide (two pairs of distinct types printing identically, a pointer-receiver Marshaler reached by value and by pointer, a recursive type, a 5-deep nest, a reference cycle across the inline depth); by iterative deepening on the prefix length; the prefix runs on the real code from reset program caches and the state it leaves (the published immutable cache maps, the layout cache) is restored in front of every observing operation; a difference is confirmed on a full replay from reset caches; " +
			"oracle: every operation returns what it returns right after a reset (differential, no hand-written expectation). Component part: the real ProgramCache with fabricated keys: every insertion order of <= 5 keys from a colliding alphabet at the two rehash boundaries, and 9000 sequential insertions, each key must map to its own value. " +
			"End-to-end: N distinct StructOf types through both codecs across a rehash. states = histories executed, transitions = operations executed",
		Assume: []string{"loaded machine code is never unloaded: a reset makes it unreachable, it does not restore the loader's module list"},
		Run: func(c *ev.Ctx, r *ev.Report) {
			debug.SetGCPercent(200)
			// ---- component part (cheap; every worker takes a share of the orders)
			c09component(c, r)
			// ---- history part
			p := 2
			if c.Thorough() {
				p = 3
			}
			var obsOps []int
			for i := range ops {
				if ops[i].obs {
					obsOps = append(obsOps, i)
				}
			}
			unit := 0
			states := map[string]bool{}
			// iterative deepening on the prefix length: every prefix of length 1, then of length
			// 2, ... so that a deadline cuts the deepest level, never a whole first operation
			// The prefix is executed once from reset caches; the state it leaves (the published
			// immutable cache maps and the layout cache) is snapshotted and restored in front of
			// every observing operation, which is the same state as replaying the prefix again
			// (loaded code and the runtime's module list are the same either way).
			observe := func(prefix []int) {
				if r.Exhaustive == false {
					return
				}
				solo := soloOf()
				verifhooks.ResetCodecCaches()
				c.SetCase(string(ev.J(c09case{names(prefix)})))
				for k, oi := range prefix {
					r.Transitions++
					if g := ops[oi].run(); g != solo[oi] {
						// already reported as the observing operation of a shorter history,
						// unless it is not an observing one
						if !ops[oi].obs {
							r.Violate(*mkViol(prefix[:k+1], k, g))
						}
						return
					}
				}
				snap := verifhooks.SnapshotCodecCaches()
				if c.OverMemory() {
					// every history compiles code that is never unloaded
					r.Notes = append(r.Notes, "memory budget of the worker reached: enumeration ended early")
					r.Exhaustive = false
					return
				}
				for _, last := range obsOps {
					if c.Expired() {
						r.Exhaustive = false
						return
					}
					h := append(append([]int{}, prefix...), last)
					c.SetCase(string(ev.J(c09case{names(h)})))
					verifhooks.RestoreCodecCaches(snap)
					got := ops[last].run()
					r.States++
					r.Evaluations++
					r.Transitions++
					r.Validated++
					if got != solo[last] {
						// confirm on a full replay from reset caches before it is believed
						if bad, g2, _ := runHist(h); bad >= 0 {
							r.Violate(*mkViol(h, bad, g2))
						} else {
							r.Notes = append(r.Notes, "snapshot/restore and full replay disagree on "+strings.Join(names(h), ", "))
							r.Exhaustive = false
						}
					} else {
						e, j, o := verifhooks.CacheSizes()
						states[fmt.Sprintf("%d/%d/%d", e, j, o)] = true
					}
				}
			}
			var rec func(prefix []int, d int)
			rec = func(prefix []int, d int) {
				if r.Exhaustive == false {
					return
				}
				if len(prefix) == d {
					observe(prefix)
					return
				}
				for oi := range ops {
					rec(append(append([]int{}, prefix...), oi), d)
				}
			}
			_ = unit
			if c.Shard == 0 {
				observe(nil) // the empty prefix: every observing op right after a reset (== solo by construction)
			}
			for d := 1; d <= p; d++ {
				for oi := range ops {
					if c.Mine(oi) {
						rec([]int{oi}, d)
					}
				}
				if r.Exhaustive {
					r.SetAdd("prefix_lengths_completed_by_some_shard", fmt.Sprint(d))
				}
			}
			r.Distinct += int64(len(states))
			r.SetAdd("prefix_bound", fmt.Sprint(p))
			r.Sample(c09case{[]string{"PretouchMany(A1,A2)", "Unmarshal(A1)"}})
			// ---- end-to-end rehash run (one worker)
			if c.Shard == 1%c.NShard {
				c09manyTypes(c, r)
			}
		},
		Replay: func(c *ev.Ctx, desc json.RawMessage) *ev.Violation {
			var cs c09case
			json.Unmarshal(desc, &cs)
			if len(cs.Ops) > 0 && strings.HasPrefix(cs.Ops[0], "component:") {
				rr := ev.NewReport()
				c09component(&ev.Ctx{NShard: 1}, rr)
				if len(rr.Violations) > 0 {
					return &rr.Violations[0]
				}
				return nil
			}
			var h []int
			for _, n := range cs.Ops {
				i := find(n)
				if i < 0 {
					return nil
				}
				h = append(h, i)
			}
			if bad, got, _ := runHist(h); bad >= 0 {
				return mkViol(h, bad, got)
			}
			return nil
		},
	})
}

// c09component drives the real ProgramCache with fabricated keys.
func c09component(c *ev.Ctx, r *ev.Report) {
	viol := func(what, exp, obs string) {
		r.Violate(ev.Violation{Property: "C09", Key: "component:ProgramCache:" + what, What: "ProgramCache does not map every key to its own value",
			Case: ev.J(c09case{[]string{"component:" + what}}), Expected: exp, Observed: obs})
	}
	guard := func(what string, f func()) {
		defer func() {
			if x := recover(); x != nil {
				viol(what+":panic", "no panic", clipS(fmt.Sprint(x), 200))
			}
		}()
		f()
	}
	// (1) sequential growth across both rehash boundaries (2048 and 4096 entries) and beyond
	if c.Mine(0) {
		guard("sequential-growth", func() {
			pc := verifhooks.NewProgramCache()
			var keys []*verifhooks.GoType
			for i := 0; i < 9000; i++ {
				// hashes chosen to collide in clusters of 8 modulo every table size
				k := verifhooks.FakeType(uint32(i/8) * 0x10000)
				keys = append(keys, k)
				i := i
				verifhooks.CacheCompute(pc, k, func() (interface{}, error) { return i, nil })
				r.Transitions++
				if i == 2046 || i == 2047 || i == 2048 || i == 2049 || i == 4095 || i == 4096 || i == 4097 || i == 8191 || i == 8192 || i == 8999 || i%1500 == 0 {
					for j, kk := range keys {
						r.Evaluations++
						if v := verifhooks.CacheGet(pc, kk); v != j {
							viol("sequential-growth:wrong-value", fmt.Sprint(j), fmt.Sprintf("%v after %d insertions", v, i+1))
							return
						}
					}
				}
			}
			r.States += 9000
		})
	}
	// (2) every insertion order of <= 5 keys from a colliding alphabet, at each boundary
	alpha := []uint32{0x0, 0x1000, 0x2000, 0x1, 0xfff, 0x1fff}
	for bi, pre := range []int{2043, 2047, 4091, 4095} {
		bi, pre := bi, pre
		// prefill once per boundary and worker; orders are enumerated on forks built by
		// re-inserting (the cache is persistent: no cheap clone), so keep prefill small:
		// fabricate `pre` keys with distinct, non-colliding hashes
		var perm func(cur []int, used uint)
		n := 0
		perm = func(cur []int, used uint) {
			if len(cur) > 0 {
				n++
				if c.Mine(1 + bi*100000 + n) {
					guard("order", func() {
						pc := verifhooks.NewProgramCache()
						var pk []*verifhooks.GoType
						for i := 0; i < pre; i++ {
							k := verifhooks.FakeType(uint32(i)*2 + 0x100)
							pk = append(pk, k)
							i := i
							verifhooks.CacheCompute(pc, k, func() (interface{}, error) { return -i - 1, nil })
						}
						var ks []*verifhooks.GoType
						for _, a := range cur {
							k := verifhooks.FakeType(alpha[a])
							ks = append(ks, k)
							a := a
							verifhooks.CacheCompute(pc, k, func() (interface{}, error) { return a, nil })
							r.Transitions++
						}
						for j, k := range ks {
							r.Evaluations++
							if v := verifhooks.CacheGet(pc, k); v != cur[j] {
								viol("insertion-order:wrong-value", fmt.Sprint(cur[j]), fmt.Sprintf("%v for order %v with %d entries before", v, cur, pre))
								return
							}
						}
						for i, k := range pk {
							if i%97 == 0 || i > pre-8 {
								if v := verifhooks.CacheGet(pc, k); v != -i-1 {
									viol("insertion-order:earlier-entry-lost", fmt.Sprint(-i-1), fmt.Sprintf("%v after order %v", v, cur))
									return
								}
							}
						}
						r.States++
					})
				}
			}
			if len(cur) == 3 {
				return
			}
			for a := range alpha {
				if used&(1<<uint(a)) == 0 {
					perm(append(cur, a), used|1<<uint(a))
				}
			}
		}
		perm(nil, 0)
	}
}

// c09manyTypes: N distinct StructOf types through both codecs (forces a rehash of each
// cache); every type is re-checked after the growth. Field names are unique per type so a
// crossed codec is visible.
func c09manyTypes(c *ev.Ctx, r *ev.Report) {
	verifhooks.ResetCodecCaches()
	n := 2200
	if c.Thorough() {
		n = 4400
	}
	type ent struct {
		t    reflect.Type
		want string
	}
	var ents []ent
	check := func(i int, e ent, phase string) bool {
		v := reflect.New(e.t)
		v.Elem().Field(0).SetInt(int64(i))
		b, err := sonic.ConfigStd.Marshal(v.Interface())
		if err != nil || string(b) != e.want {
			r.Violate(ev.Violation{Property: "C09", Key: "many-types:marshal-differs-" + phase, What: "a type is not served by its own encoder after many types were cached",
				Case: ev.J(c09case{[]string{"component:many-types"}}), Expected: e.want, Observed: fmt.Sprintf("%s / %v (type #%d of %d)", b, err, i, n)})
			return false
		}
		p := reflect.New(e.t)
		if err := sonic.ConfigStd.Unmarshal([]byte(e.want), p.Interface()); err != nil || p.Elem().Field(0).Int() != int64(i) {
			r.Violate(ev.Violation{Property: "C09", Key: "many-types:unmarshal-differs-" + phase, What: "a type is not served by its own decoder after many types were cached",
				Case: ev.J(c09case{[]string{"component:many-types"}}), Expected: e.want, Observed: fmt.Sprintf("%s / %v (type #%d of %d)", gen.Dump(p.Elem()), err, i, n)})
			return false
		}
		return true
	}
	defer func() {
		if x := recover(); x != nil {
			r.Violate(ev.Violation{Property: "C09", Key: "many-types:panic", What: "panic while many types are cached",
				Case: ev.J(c09case{[]string{"component:many-types"}}), Expected: "no panic", Observed: clipS(fmt.Sprint(x), 200) + fmt.Sprintf(" (after %d types)", len(ents))})
		}
	}()
	for i := 0; i < n; i++ {
		if c.Expired() {
			r.Exhaustive = false
			return
		}
		t := reflect.StructOf([]reflect.StructField{{Name: fmt.Sprintf("F%d", i), Type: reflect.TypeOf(0)}, {Name: "S", Type: reflect.TypeOf("")}})
		e := ent{t, fmt.Sprintf(`{"F%d":%d,"S":""}`, i, i)}
		ents = append(ents, e)
		r.Evaluations++
		if !check(i, e, "first-use") {
			return
		}
	}
	for i, e := range ents {
		r.Evaluations++
		if !check(i, e, "after-growth") {
			return
		}
	}
	enc, jit, opt := verifhooks.CacheSizes()
	r.Count("many_types", int64(n))
	r.Notes = append(r.Notes, fmt.Sprintf("many-types run: %d types, cache sizes enc=%d jitdec=%d optdec=%d", n, enc, jit, opt))
}
