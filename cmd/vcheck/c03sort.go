package main

import (
	"encoding/json"
	"fmt"
	"sort"
	"strings"

	"github.com/bytedance/sonic/verifhooks"

	"verif/internal/ev"
)

// C03, component part: the map-key sorter (3-way radix quicksort that falls back to heapsort
// when its depth budget is spent, insertion sort below 12 keys, ninther pivot above 40).
// Through Marshal the sorter's input order is Go's randomised map iteration order, which the
// harness does not own; here the real sorter is driven with every input order of a small key
// set and with structured orders of larger ones. Oracle: the output is the sorted permutation
// of the input and every value is still attached to its key.

type c03sortCase struct {
	Keys []string `json:"sort_keys_hex"` // input order, each key hex-encoded
}

func c03sortCaseOf(keys []string) c03sortCase {
	var l []string
	for _, k := range keys {
		l = append(l, fmt.Sprintf("%x", k))
	}
	return c03sortCase{l}
}

// key families: n distinct keys sharing a prefix of p bytes
var c03sortFamilies = []struct {
	name string
	max  int
	mk   func(n, p int) []string
}{
	{"one-distinct-byte", 48, func(n, p int) []string {
		const al = "0123456789ABCDEFGHIJKLMNOPQRSTUVWXYZabcdefghijklmnopqrstuvwxyz"
		var l []string
		for i := 0; i < n; i++ {
			l = append(l, strings.Repeat("a", p)+al[i:i+1])
		}
		return l
	}},
	{"two-digit-suffix-base-4", 16, func(n, p int) []string {
		var l []string
		for i := 0; i < n; i++ {
			l = append(l, strings.Repeat("a", p)+string([]byte{'0' + byte(i/4), '0' + byte(i%4)}))
		}
		return l
	}},
	{"prefixes-of-one-another", 48, func(n, p int) []string {
		var l []string
		for i := 0; i < n; i++ {
			l = append(l, strings.Repeat("a", p)+strings.Repeat("b", i))
		}
		return l
	}},
	{"bytes-over-0x7f", 48, func(n, p int) []string {
		var l []string
		for i := 0; i < n; i++ {
			l = append(l, strings.Repeat("\xe9", p)+string([]byte{byte(i * 255 / 48)})+"z")
		}
		return l
	}},
	{"consecutive-integers", 48, func(n, p int) []string {
		var l []string
		for i := 0; i < n; i++ {
			l = append(l, fmt.Sprintf("%s%d", strings.Repeat("1", p), 95+i)) // 95..142: lengths differ
		}
		return l
	}},
	{"shortlex-suffixes", 15, func(n, p int) []string {
		suf := []string{"", "a", "b", "aa", "ab", "ba", "bb", "aaa", "aab", "aba", "abb", "baa", "bab", "bba", "bbb"}
		var l []string
		for i := 0; i < n; i++ {
			l = append(l, strings.Repeat("a", p)+suf[i])
		}
		return l
	}},
}

func c03sortJudge(keys []string) (v *ev.Violation) {
	mk := func(cls, exp, obs string) *ev.Violation {
		return &ev.Violation{Property: "C03", Key: "map-key-sorter:" + cls, What: "the encoder's map-key sorter does not return the sorted key sequence for some input order",
			Case: ev.J(c03sortCaseOf(keys)), Expected: clipS(exp, 300), Observed: clipS(obs, 300)}
	}
	defer func() {
		if x := recover(); x != nil {
			v = mk("panic", "sorted keys", clipS(fmt.Sprint(x), 200))
		}
	}()
	want := append([]string(nil), keys...)
	sort.Strings(want)
	// twice: keys as string headers (string-keyed maps), and every key living in its pair's own
	// scratch array (integer-keyed maps: the sorter must move (k, v), never whole elements)
	for _, own := range []bool{false, true} {
		layout := "string-key-layout"
		if own {
			layout = "integer-key-layout(key bytes inside the pair)"
		}
		in := append([]string(nil), keys...)
		got, paired := verifhooks.SortMapKeys(in, own)
		if len(got) != len(want) {
			return mk("output-not-sorted:"+layout, fmt.Sprintf("%q", want), fmt.Sprintf("%q", got))
		}
		for i := range want {
			if got[i] != want[i] {
				return mk("output-not-sorted:"+layout, fmt.Sprintf("%q", want), fmt.Sprintf("%q (first difference at %d, input order %q)", got, i, keys))
			}
		}
		if !paired {
			return mk("value-detached-from-key:"+layout, "every value next to its key", "a value moved away from its key")
		}
	}
	return nil
}

// c03orders calls f with every input order to try for the sorted key list s.
func c03orders(s []string, permMax int, f func(o []string) bool) bool {
	n := len(s)
	if n <= permMax {
		// every permutation (Heap's algorithm)
		a := append([]string(nil), s...)
		cnt := make([]int, n)
		if !f(a) {
			return false
		}
		for i := 0; i < n; {
			if cnt[i] < i {
				if i%2 == 0 {
					a[0], a[i] = a[i], a[0]
				} else {
					a[cnt[i]], a[i] = a[i], a[cnt[i]]
				}
				if !f(a) {
					return false
				}
				cnt[i]++
				i = 0
			} else {
				cnt[i] = 0
				i++
			}
		}
		return true
	}
	emit := func(o []string) bool {
		if !f(o) {
			return false
		}
		r := make([]string, n)
		for i := range o {
			r[n-1-i] = o[i]
		}
		return f(r)
	}
	// rotations
	for r := 0; r < n; r++ {
		o := append(append([]string(nil), s[r:]...), s[:r]...)
		if !emit(o) {
			return false
		}
	}
	// one adjacent transposition, one far transposition
	for i := 0; i+1 < n; i++ {
		o := append([]string(nil), s...)
		o[i], o[i+1] = o[i+1], o[i]
		if !emit(o) {
			return false
		}
		o = append([]string(nil), s...)
		o[i], o[n-1-i] = o[n-1-i], o[i]
		if !emit(o) {
			return false
		}
	}
	// organ pipe, interleavings by stride
	o := make([]string, 0, n)
	for i := 0; i < n; i += 2 {
		o = append(o, s[i])
	}
	for i := n - 1 - (n % 2); i > 0; i -= 2 {
		o = append(o, s[i])
	}
	if !emit(o) {
		return false
	}
	for _, st := range []int{2, 3, 5, 7} {
		o = o[:0]
		for r := 0; r < st; r++ {
			for i := r; i < n; i += st {
				o = append(o, s[i])
			}
		}
		if !emit(o) {
			return false
		}
	}
	return true
}

func c03sorter(c *ev.Ctx, r *ev.Report) {
	permMax := 7
	if c.Thorough() {
		permMax = 9
	}
	unit := 900000
	heapReached := 0
	for fi := range c03sortFamilies {
		fam := &c03sortFamilies[fi]
		for p := 0; p <= 24; p++ {
			unit++
			if !c.Mine(unit) {
				continue
			}
			if c.Expired() {
				r.Exhaustive = false
				return
			}
			for n := 0; n <= fam.max; n++ {
				keys := fam.mk(n, p)
				sort.Strings(keys)
				c.SetCase(string(ev.J(c03sortCaseOf(keys))))
				ok := c03orders(keys, permMax, func(o []string) bool {
					r.Evaluations++
					r.Count("sorter-orders", 1)
					if v := c03sortJudge(o); v != nil {
						r.Violate(*v)
						return false // one witness per (family, prefix, size)
					}
					return true
				})
				_ = ok
				// the heapsort fallback is reached once n > 11 and the common prefix outlasts the
				// depth budget 2*ceil(lg(n+1))
				if n > 11 {
					d := 0
					for i := n; i > 0; i >>= 1 {
						d++
					}
					if p >= 2*d {
						heapReached++
					}
				}
			}
			r.SetAdd("sorter-families", fam.name)
		}
	}
	r.Count("sorter-key-sets-reaching-the-heapsort-fallback", int64(heapReached))
}

func c03sortReplay(desc json.RawMessage) (*ev.Violation, bool) {
	var cs c03sortCase
	if json.Unmarshal(desc, &cs) != nil || cs.Keys == nil {
		return nil, false
	}
	var keys []string
	for _, h := range cs.Keys {
		var b []byte
		fmt.Sscanf(h, "%x", &b)
		keys = append(keys, string(b))
	}
	return c03sortJudge(keys), true
}
