package main

import (
	"encoding/json"
	"fmt"
	"runtime/debug"
	"strings"
	"syscall"
	"unsafe"

	"github.com/bytedance/sonic"
	"github.com/bytedance/sonic/ast"
	"github.com/bytedance/sonic/decoder"
	"github.com/bytedance/sonic/encoder"
	"github.com/bytedance/sonic/unquote"
	sutf8 "github.com/bytedance/sonic/utf8"

	"verif/internal/ev"
	"verif/internal/gen"
)

// C05: results depend only on the input bytes; nothing outside the input is ever read.
// Engine E1 + PLACE: every input is presented (a) as a private exact-length heap copy (the
// reference observation), (b) ending exactly at the end of a mapped page followed by a
// PROT_NONE page, (c) starting exactly at a page start preceded by a PROT_NONE page,
// (d) inside a larger array followed by each of 5 adversarial continuations, (e) at every
// start alignment 0..63 of a 64-byte aligned arena. The observation must be identical in all
// placements; a fault kills the worker and is attributed to the announced case.

type c05entry struct {
	name string
	f    func(s string) string // input handed over as string or []byte aliasing the same memory
}

func b2s(b []byte) string { return string(b) }

func asBytes(s string) []byte {
	if len(s) == 0 {
		return []byte{}
	}
	return unsafe.Slice(unsafe.StringData(s), len(s)) // cap == len: the slice ends where the input ends
}

func c05entries() []c05entry {
	r := func(v interface{}, err error) string {
		if err != nil {
			return "ERR"
		}
		b, _ := json.Marshal(v)
		return string(b)
	}
	return []c05entry{
		{"Valid", func(s string) string { return fmt.Sprint(sonic.Valid(asBytes(s))) }},
		{"ValidString", func(s string) string { return fmt.Sprint(sonic.ValidString(s)) }},
		// sonic.Unmarshal([]byte) copies its input to the Go heap before decoding: the placement
		// never reaches the decoder and what follows sonic's own copy is not under the harness's
		// control, so only the string entry points (decoded in place) are driven here
		{"UnmarshalString:interface", func(s string) string { var v interface{}; err := sonic.UnmarshalString(s, &v); return r(v, err) }},
		{"ConfigStd.UnmarshalString:interface", func(s string) string {
			var v interface{}
			err := sonic.ConfigStd.UnmarshalFromString(s, &v)
			return r(v, err)
		}},
		{"Unmarshal:struct", func(s string) string { var v dAB; err := sonic.UnmarshalString(s, &v); return r(v, err) }},
		{"Unmarshal:string", func(s string) string { var v string; err := sonic.UnmarshalString(s, &v); return r(v, err) }},
		{"Unmarshal:float64", func(s string) string {
			var v float64
			err := sonic.UnmarshalString(s, &v)
			return fmt.Sprintf("%x,%v", v, err == nil)
		}},
		{"Unmarshal:[]float64", func(s string) string {
			var v []float64
			err := sonic.UnmarshalString(s, &v)
			return fmt.Sprintf("%x,%v", v, err == nil)
		}},
		{"Unmarshal:int8", func(s string) string { var v int8; err := sonic.UnmarshalString(s, &v); return r(v, err) }},
		{"Unmarshal:bool", func(s string) string { var v bool; err := sonic.UnmarshalString(s, &v); return r(v, err) }},
		{"Unmarshal:skip-unknown-field", func(s string) string { var v skipDst; err := sonic.UnmarshalString(s, &v); return r(v, err) }},
		{"Unmarshal:RawMessage", func(s string) string {
			var v json.RawMessage
			err := sonic.UnmarshalString(s, &v)
			return r(string(v), err)
		}},
		{"Get", func(s string) string {
			n, err := sonic.Get(asBytes(s))
			if err != nil {
				return "ERR"
			}
			raw, e := n.Raw()
			return fmt.Sprint(raw, e == nil)
		}},
		{"GetFromString(a)", func(s string) string {
			n, err := sonic.GetFromString(s, "a")
			if err != nil {
				return "ERR"
			}
			raw, e := n.Raw()
			return fmt.Sprint(raw, e == nil)
		}},
		{"GetFromString(0)", func(s string) string {
			n, err := sonic.GetFromString(s, 0)
			if err != nil {
				return "ERR"
			}
			v, e := n.Interface()
			return r(v, e)
		}},
		{"GetWithOptions(novalidate,a)", func(s string) string {
			n, err := sonic.GetWithOptions(asBytes(s), ast.SearchOptions{}, "a")
			if err != nil {
				return "ERR"
			}
			raw, e := n.Raw()
			return fmt.Sprint(raw, e == nil)
		}},
		{"NewRaw.Interface", func(s string) string {
			n := ast.NewRaw(s)
			v, e := n.Interface()
			return r(v, e)
		}},
		{"Preorder", func(s string) string { return fmt.Sprint(ast.Preorder(s, nopVisitor{}, nil) == nil) }},
		{"decoder.Skip", func(s string) string { a, b := decoder.Skip(asBytes(s)); return fmt.Sprint(a, b) }},
		{"encoder.Quote", func(s string) string { return encoder.Quote(s) }},
		{"unquote.String", func(s string) string { u, e := unquote.String(s); return fmt.Sprintf("%q,%v", u, e == 0) }},
		{"encoder.HTMLEscape", func(s string) string { return string(encoder.HTMLEscape(nil, asBytes(s))) }},
		{"utf8.ValidateString", func(s string) string { return fmt.Sprint(sutf8.ValidateString(s)) }},
		{"utf8.Validate", func(s string) string { return fmt.Sprint(sutf8.Validate(asBytes(s))) }},
		{"utf8.CorrectWith", func(s string) string { return string(sutf8.CorrectWith(nil, asBytes(s), "?")) }},
		{"Marshal(string)", func(s string) string { b, err := sonic.Marshal(s); return r(string(b), err) }},
		{"ConfigStd.Marshal(string)", func(s string) string { b, err := sonic.ConfigStd.Marshal(s); return r(string(b), err) }},
		{"Marshal([]byte)", func(s string) string { b, err := sonic.Marshal(asBytes(s)); return r(string(b), err) }},
		{"Marshal(map-key)", func(s string) string { b, err := sonic.Marshal(map[string]int{s: 1}); return r(string(b), err) }},
	}
}

// guarded memory: [PROT_NONE page][rw page][PROT_NONE page]
type guarded struct {
	mem  []byte
	page int
}

func newGuarded() *guarded {
	pg := syscall.Getpagesize()
	m, err := syscall.Mmap(-1, 0, 3*pg, syscall.PROT_READ|syscall.PROT_WRITE, syscall.MAP_ANON|syscall.MAP_PRIVATE)
	if err != nil {
		panic(err)
	}
	if err := syscall.Mprotect(m[:pg], syscall.PROT_NONE); err != nil {
		panic(err)
	}
	if err := syscall.Mprotect(m[2*pg:], syscall.PROT_NONE); err != nil {
		panic(err)
	}
	return &guarded{m, pg}
}

// atEnd places s so that its last byte is the last byte of the mapped page.
func (g *guarded) atEnd(s string) string {
	if len(s) == 0 || len(s) > g.page {
		return s
	}
	dst := g.mem[2*g.page-len(s) : 2*g.page]
	copy(dst, s)
	return unsafe.String(&dst[0], len(s))
}

// atStart places s so that its first byte is the first byte of the mapped page.
func (g *guarded) atStart(s string) string {
	if len(s) == 0 || len(s) > g.page {
		return s
	}
	dst := g.mem[g.page : g.page+len(s)]
	copy(dst, s)
	// what follows inside the page is made hostile as well
	for i := g.page + len(s); i < g.page+len(s)+64 && i < 2*g.page; i++ {
		g.mem[i] = '"'
	}
	return unsafe.String(&dst[0], len(s))
}

var c05conts = []string{"\"", "\\\"", ",1]}", strings.Repeat("9", 64), "rue", "\x00\x00\x00\x00", "e5", strings.Repeat(" ", 40) + "x"}

type c05case struct {
	Entry string `json:"entry"`
	Place string `json:"place"`
	Doc   string `json:"doc_hex"`
}

func c05inputs(c *ev.Ctx, thorough bool, f func(s []byte) bool) {
	n := 3
	if thorough {
		n = 4
	}
	stop := false
	gen.ForEachTok2(gen.Tokens, n, c.Mine, func(idx []int, s []byte) bool {
		if !f(s) {
			stop = true
		}
		return !stop
	})
	if stop {
		return
	}
	unit := 5000
	// strata: payload at every offset of every length (quick: every length to 70, then residues)
	payloads := []string{"", `"`, `\"`, `\n`, `é`, `😀`, "\xff", "\x01", "<", "true", "-0", "1e5", "null", " ", "x"}
	lens := []int{}
	for L := 0; L <= 136; L++ {
		if thorough || L <= 70 || L%16 <= 1 || L%16 == 15 {
			lens = append(lens, L)
		}
	}
	for _, L := range lens {
		for _, p := range payloads {
			unit++
			if !c.Mine(unit) {
				continue
			}
			for _, wrap := range []string{"s", "q", "a"} {
				step := 1
				if !thorough && L > 40 {
					step = 5
				}
				for off := 0; off+len(p) <= L; off += step {
					body := strings.Repeat("a", off) + p + strings.Repeat("a", L-off-len(p))
					var s string
					switch wrap {
					case "s":
						s = body
					case "q":
						s = `"` + body + `"`
					case "a":
						s = `{"a":"` + body + `","b":[` + p + `]}`
					}
					if !f([]byte(s)) {
						return
					}
				}
			}
		}
	}
	// digit / space / literal runs ending the input at every length
	for L := 1; L <= 136; L++ {
		unit++
		if !c.Mine(unit) {
			continue
		}
		for _, s := range []string{strings.Repeat("7", L), "-" + strings.Repeat("0", L), strings.Repeat(" ", L) + "1", "1" + strings.Repeat(" ", L), "[" + strings.Repeat("1,", L/2) + "1", strings.Repeat("[", L), "0." + strings.Repeat("3", L), "1e" + strings.Repeat("0", L/8) + "1"} {
			if !f([]byte(s)) {
				return
			}
		}
	}
	// blank runs of every short length (the scanners skip up to 4 blanks unrolled, then switch
	// to a vector loop) behind every token boundary of two documents, with the input ending
	// right behind the run or continuing
	for _, d := range [][]string{{"{", `"a"`, ":", "[", "1", ",", "{", `"b"`, ":", `"s"`, "}", "]", ",", `"c"`, ":", "true", "}"}, {"[", "-0", ",", "[", "null", "]", ",", `"x"`, "]"}} {
		for cut := 0; cut <= len(d); cut++ {
			unit++
			if !c.Mine(unit) {
				continue
			}
			head, rest := strings.Join(d[:cut], ""), strings.Join(d[cut:], "")
			for _, k := range []int{1, 2, 3, 4, 5, 6, 7, 8, 9, 15, 16, 17, 31, 32, 33, 63, 64, 65} {
				for _, bl := range []string{" ", "\n", " \t\r\n"} {
					run := strings.Repeat(bl, (k+len(bl)-1)/len(bl))[:k]
					if !f([]byte(head+run)) || !f([]byte(head+run+rest)) {
						return
					}
				}
			}
		}
	}
	// every proper prefix of a few documents (truncation right behind every byte)
	for di, d := range []string{`{"a":true,"b":[null,false,-0.5e+3,"x\ny"],"c":{"d":"é"}}`, `[true,false,null,"s",-0,1.5,{"a":1}]`, `"😀é\"\\"`, `  true  `, `-12.5E-3`} {
		unit++
		if !c.Mine(unit) {
			continue
		}
		_ = di
		for cut := 0; cut <= len(d); cut++ {
			if !f([]byte(d[:cut])) {
				return
			}
		}
	}
}

func init() {
	entries := c05entries()
	find := func(n string) *c05entry {
		for i := range entries {
			if entries[i].name == n {
				return &entries[i]
			}
		}
		return nil
	}
	var g *guarded
	arena := make([]byte, 64+64+256+4096)
	// place returns the input presented in the given placement
	place := func(pl string, s []byte) (string, bool) {
		if g == nil {
			g = newGuarded()
		}
		switch {
		case pl == "page-end":
			if len(s) == 0 {
				return "", false
			}
			return g.atEnd(string(s)), true
		case pl == "page-start":
			if len(s) == 0 {
				return "", false
			}
			return g.atStart(string(s)), true
		case strings.HasPrefix(pl, "cont"):
			var k int
			fmt.Sscanf(pl, "cont%d", &k)
			buf := make([]byte, 0, len(s)+len(c05conts[k]))
			buf = append(buf, s...)
			buf = append(buf, c05conts[k]...)
			if len(s) == 0 {
				return "", false
			}
			return unsafe.String(&buf[0], len(s)), true
		case strings.HasPrefix(pl, "align"):
			var a int
			fmt.Sscanf(pl, "align%d", &a)
			if len(s) == 0 || len(s) > 4096 {
				return "", false
			}
			base := (64 - int(uintptr(unsafe.Pointer(&arena[0]))%64)) % 64
			for i := range arena {
				arena[i] = 0xAA
			}
			dst := arena[base+a : base+a+len(s)]
			copy(dst, s)
			return unsafe.String(&dst[0], len(s)), true
		}
		return "", false
	}
	places := func(thorough bool) []string {
		l := []string{"page-end", "page-start"}
		for k := range c05conts {
			l = append(l, fmt.Sprintf("cont%d", k))
		}
		al := []int{0, 1, 7, 8, 15, 16, 17, 31, 32, 33, 47, 48, 63}
		if thorough {
			al = nil
			for a := 0; a < 64; a++ {
				al = append(al, a)
			}
		}
		for _, a := range al {
			l = append(l, fmt.Sprintf("align%d", a))
		}
		return l
	}
	judge := func(e *c05entry, pl string, s []byte) *ev.Violation {
		// reference placement: a private copy followed by 16 zero bytes of the same allocation
		// (an exact-length heap copy would be followed by whatever the allocator left there,
		// which the routines with a known over-read would observe: not a deterministic reference)
		rb := make([]byte, len(s)+16)
		copy(rb, s)
		ref := e.f(unsafe.String(&rb[0], len(s)))
		ps, ok := place(pl, s)
		if !ok {
			return nil
		}
		// a read of the unmapped guard page raises SIGSEGV inside the native routine; the loader
		// registers those routines as Go functions, so with SetPanicOnFault the fault becomes a
		// recoverable panic and the enumeration can go on (without it the worker dies and the
		// case is attributed through the crash path)
		got, fault := func() (g string, flt string) {
			old := debug.SetPanicOnFault(true)
			defer debug.SetPanicOnFault(old)
			defer func() {
				if x := recover(); x != nil {
					flt = fmt.Sprint(x)
				}
			}()
			return e.f(ps), ""
		}()
		if fault != "" {
			pcls := pl
			if strings.HasPrefix(pl, "align") {
				pcls = "alignment"
			} else if strings.HasPrefix(pl, "cont") {
				pcls = "bytes-after-the-input"
			}
			return &ev.Violation{Property: "C05", Key: e.name + ":fault-or-panic:" + pcls + ":" + c05shape(s), What: "a call reads outside its input: the access faults when the input borders unmapped memory",
				Case: ev.J(c05case{e.name, pl, fmt.Sprintf("%x", s)}), Expected: clipS(ref, 200), Observed: clipS(fault, 200) + fmt.Sprintf("   (placement %s, input %q)", pl, clip(s, 60))}
		}
		if got != ref {
			cls := pl
			if strings.HasPrefix(pl, "align") {
				cls = "alignment"
			} else if strings.HasPrefix(pl, "cont") {
				cls = "bytes-after-the-input"
			}
			return &ev.Violation{Property: "C05", Key: e.name + ":result-depends-on:" + cls + ":" + c05shape(s), What: "the result of a call depends on where the input lies in memory or on what follows it",
				Case: ev.J(c05case{e.name, pl, fmt.Sprintf("%x", s)}), Expected: clipS(ref, 200) + "   (private copy followed by NUL bytes)", Observed: clipS(got, 200) + fmt.Sprintf("   (placement %s, input %q)", pl, clip(s, 60))}
		}
		return nil
	}
	ev.Register(&ev.Check{
		ID: "C05", Level: "exploration", Workers: 16, QuickSecs: 150, ThorSecs: 1500,
		Rule: "inputs = every concatenation of <= 3 (quick) / 4 (thorough) tokens of the 34-token alphabet u 15 payloads at offsets of every length 0..136 (bare, as a string literal, inside an object) u digit/space/bracket/literal runs of every length 1..136 u every truncation of 5 documents; " +
			"x 29 entry points (Valid, Unmarshal into 10 destinations, Get/GetFromString/GetWithOptions, NewRaw, Preorder, Skip, Quote, unquote, HTMLEscape, utf8 Validate/CorrectWith, Marshal of a string / []byte / map key living in the placed memory) " +
			"x placements {ending at the last byte of a page followed by an unmapped page; starting at a page start preceded by an unmapped page; followed in the same array by each of 8 adversarial continuations; at 13 (quick) / all 64 (thorough) start alignments}; " +
			"oracle: observation identical to that of a private exact-length heap copy; a fault is a worker death attributed to the announced case (confirmed 5x). distinct_nontrivial = distinct (entry point, input) pairs whose reference observation is not an error",
		Assume: []string{"over-reads that stay inside a mapped page and do not influence the result are unobservable (and harmless by the property's wording)", "SSE variants are covered by C13 on the same strata"},
		Run: func(c *ev.Ctx, r *ev.Report) {
			pls := places(c.Thorough())
			n := 0
			c05inputs(c, c.Thorough(), func(s []byte) bool {
				n++
				if n&0x3f == 0 && c.Expired() {
					r.Exhaustive = false
					return false
				}
				r.Count("inputs", 1)
				for ei := range entries {
					e := &entries[ei]
					for _, pl := range pls {
						r.Evaluations++
						c.SetCase(fmt.Sprintf(`{"entry":%q,"place":%q,"doc_hex":"%x"}`, e.name, pl, s))
						if v := judge(e, pl, s); v != nil {
							r.Violate(*v)
						}
					}
					r.Distinct++
				}
				r.SetAdd("length_mod_64", fmt.Sprint(len(s)%64))
				if n%3000 == 1 {
					r.Sample(c05case{"(all)", "(all)", fmt.Sprintf("%x", clip(s, 40))})
				}
				return true
			})
			r.SetAdd("placements", fmt.Sprint(len(pls)))
		},
		CrashKey: func(desc string) string {
			var cs c05case
			json.Unmarshal([]byte(desc), &cs)
			var s []byte
			fmt.Sscanf(cs.Doc, "%x", &s)
			pl := cs.Place
			if strings.HasPrefix(pl, "align") {
				pl = "alignment"
			} else if strings.HasPrefix(pl, "cont") {
				pl = "bytes-after-the-input"
			}
			return cs.Entry + ":fault-or-crash:" + pl + ":" + c05shape(s)
		},
		Replay: func(c *ev.Ctx, desc json.RawMessage) *ev.Violation {
			var cs c05case
			json.Unmarshal(desc, &cs)
			var s []byte
			fmt.Sscanf(cs.Doc, "%x", &s)
			if e := find(cs.Entry); e != nil {
				return judge(e, cs.Place, s)
			}
			return nil
		},
	})
}

// c05shape: which kind of token the input ENDS in (over-reads happen at the end)
func c05shape(s []byte) string {
	t := strings.TrimRight(string(s), " \n\t\r")
	if len(t) < len(s) {
		return "ends-in-space"
	}
	if len(t) == 0 {
		return "empty"
	}
	// inside an unterminated string?
	if unterminatedAt(s) >= 0 {
		return "ends-inside-string-literal"
	}
	switch c := t[len(t)-1]; {
	case c >= '0' && c <= '9' || c == '.' || c == '-' || c == '+' || c == 'e' || c == 'E':
		return "ends-in-number"
	case c >= 'a' && c <= 'z':
		return "ends-in-literal-or-word"
	case c == '"':
		return "ends-in-closing-quote"
	case c == ']' || c == '}':
		return "ends-in-closing-bracket"
	case c == '[' || c == '{' || c == ',' || c == ':':
		return "ends-in-open-structure"
	}
	return "ends-in-other"
}
