package main

import (
	"encoding/json"
	"fmt"
	"hash/fnv"
	"reflect"
	"strconv"
	"strings"
	"unicode/utf8"

	"github.com/bytedance/sonic"

	"verif/internal/ev"
	"verif/internal/gen"
)

// C01: Unmarshal agrees with encoding/json on accept/reject and on the decoded value.
// Engine E1: (TOK(n) u DOC(k) u MUT(DOC)) x destination types x {ConfigStd, ConfigDefault}
// x {-, UseNumber, UseInt64}.

type dAB struct {
	A int    `json:"a"`
	B string `json:"b"`
}
type dABp struct {
	A *int  `json:"a"`
	B *dABp `json:"b"`
	C []dAB `json:"A"` // exact-case key "A" vs case-insensitive fallback of "a"
}
type dIface struct {
	A interface{}
	B interface{} `json:"b,omitempty"`
}
type dMeth struct {
	A gen.VM             `json:"a"`
	B *gen.PM            `json:"b"`
	C gen.VT             `json:"A"`
	D map[string]*gen.PT `json:"d"`
}
type dStr struct {
	A int     `json:"a,string"`
	B string  `json:"b,string"`
	C float64 `json:"A,string"`
}
type dNum struct {
	A json.Number     `json:"a"`
	B json.RawMessage `json:"b"`
	C []byte          `json:"A"`
}
type dEmb struct {
	dAB
	A string // shallower than dAB.A? no: different JSON name ("A" vs "a"): both visible
}
type dArr struct {
	A [2]int       `json:"a"`
	B [0]int       `json:"b"`
	C []*int       `json:"A"`
	D map[int]bool `json:"d"`
}

func c01dests() []gen.TypeCase {
	tc := func(v interface{}) gen.TypeCase {
		t := reflect.TypeOf(v)
		return gen.TypeCase{Name: t.String(), T: t}
	}
	l := []gen.TypeCase{
		{Name: "interface {}", T: reflect.TypeOf((*interface{})(nil)).Elem()},
		tc(map[string]interface{}{}), tc([]interface{}{}), tc(0), tc(int8(0)), tc(uint8(0)), tc(uint64(0)), tc(float64(0)), tc(float32(0)),
		tc(""), tc(false), tc([]byte{}), tc(json.Number("")), tc(json.RawMessage{}),
		tc((*int)(nil)), tc((**string)(nil)), tc([]int{}), tc([2]int{}), tc([0]int{}), tc([]string{}),
		tc(map[string]int{}), tc(map[int]string{}), tc(map[gen.MStr]float64{}), tc(map[gen.TKey]int{}), tc(map[gen.IKey]int{}), tc(map[string]*dAB{}),
		tc(dAB{}), tc(dABp{}), tc(dIface{}), tc(dMeth{}), tc(dStr{}), tc(dNum{}), tc(dEmb{}), tc(dArr{}),
		tc(gen.Tagged{}), tc(gen.CaseFold{}), tc(gen.Emb{}), tc(gen.EmbPtr{}), tc(gen.Unexp{}), tc(gen.Rec{}),
		tc(gen.VM{}), tc(gen.PM{}), tc(gen.EM{}), tc(gen.VT{}), tc(gen.PT{}), tc(gen.MInt(0)), tc(gen.MStr("")),
		tc([]gen.VM{}), tc(map[string]gen.EM{}), tc(struct{}{}),
	}
	return l
}

type c01cfg struct {
	name   string
	api    sonic.API
	ref    func(doc []byte, dst interface{}) error // reference decode
	strict bool                                    // std-compatible: no input filter
	int64  bool                                    // UseInt64: reference derived from UseNumber
}

func c01cfgs() []c01cfg {
	std := sonic.ConfigStd
	stdNum := sonic.Config{EscapeHTML: true, SortMapKeys: true, CompactMarshaler: true, CopyString: true, ValidateString: true, UseNumber: true}.Froze()
	stdI64 := sonic.Config{EscapeHTML: true, SortMapKeys: true, CompactMarshaler: true, CopyString: true, ValidateString: true, UseInt64: true}.Froze()
	defNum := sonic.Config{UseNumber: true}.Froze()
	refNum := func(doc []byte, dst interface{}) error {
		d := json.NewDecoder(strings.NewReader(string(doc)))
		d.UseNumber()
		if err := d.Decode(dst); err != nil {
			return err
		}
		// json.Unmarshal rejects trailing data; Decoder does not
		if _, err := d.Token(); err == nil || err.Error() != "EOF" {
			return fmt.Errorf("trailing data")
		}
		return nil
	}
	return []c01cfg{
		{"ConfigStd", std, json.Unmarshal, true, false},
		{"ConfigDefault", sonic.ConfigDefault, json.Unmarshal, false, false},
		{"ConfigStd+UseNumber", stdNum, refNum, true, false},
		{"ConfigDefault+UseNumber", defNum, refNum, false, false},
		{"ConfigStd+UseInt64", stdI64, refNum, true, true},
	}
}

// docFiltered: under the default configuration the property only speaks about inputs whose
// string literals contain no raw control characters and no invalid UTF-8.
func docFiltered(doc []byte) bool {
	if !utf8.Valid(doc) {
		return true
	}
	in := false
	for i := 0; i < len(doc); i++ {
		c := doc[i]
		if in {
			if c == '\\' {
				i++
				continue
			}
			if c == '"' {
				in = false
				continue
			}
			if c < 0x20 {
				return true
			}
		} else if c == '"' {
			in = true
		}
	}
	return false
}

// useInt64Expect rewrites a value decoded with UseNumber into what UseInt64 documents:
// integer literal that fits int64 => int64, otherwise float64.
func useInt64Expect(v reflect.Value) {
	switch v.Kind() {
	case reflect.Interface:
		if v.IsNil() {
			return
		}
		e := v.Elem()
		if n, ok := e.Interface().(json.Number); ok && v.CanSet() {
			s := string(n)
			if !strings.ContainsAny(s, ".eE") {
				if i, err := strconv.ParseInt(s, 10, 64); err == nil {
					v.Set(reflect.ValueOf(i))
					return
				}
			}
			f, _ := strconv.ParseFloat(s, 64)
			v.Set(reflect.ValueOf(f))
			return
		}
		switch e.Kind() {
		case reflect.Map, reflect.Slice:
			useInt64Expect(e)
		}
	case reflect.Ptr:
		if !v.IsNil() {
			useInt64Expect(v.Elem())
		}
	case reflect.Slice, reflect.Array:
		for i := 0; i < v.Len(); i++ {
			useInt64Expect(v.Index(i))
		}
	case reflect.Map:
		it := v.MapRange()
		for it.Next() {
			e := reflect.New(v.Type().Elem()).Elem()
			e.Set(it.Value())
			useInt64Expect(e)
			v.SetMapIndex(it.Key(), e)
		}
	case reflect.Struct:
		for i := 0; i < v.NumField(); i++ {
			if v.Field(i).CanSet() {
				useInt64Expect(v.Field(i))
			}
		}
	}
}

func typeHasNumberIface(t reflect.Type) bool {
	return typeHas(t, func(x reflect.Type) bool { return x.Kind() == reflect.Interface }, 0)
}

// sanitizeStrings replaces every string literal encoding/json would reject (bad escape, raw
// control character, ...) by "" - used to decide whether sonic's documented leniency for
// SKIPPED values explains an acceptance.
func sanitizeStrings(s []byte) []byte {
	out := make([]byte, 0, len(s))
	i := 0
	for i < len(s) {
		if s[i] != '"' {
			out = append(out, s[i])
			i++
			continue
		}
		j := i + 1
		closed := false
		for j < len(s) {
			if s[j] == '\\' {
				j += 2
				continue
			}
			if s[j] == '"' {
				closed = true
				break
			}
			j++
		}
		if !closed || j >= len(s) {
			out = append(out, s[i:]...)
			return out
		}
		lit := s[i : j+1]
		if json.Valid(lit) {
			out = append(out, lit...)
		} else {
			out = append(out, '"', '"')
		}
		i = j + 1
	}
	return out
}

type c01case struct {
	Cfg  string `json:"cfg"`
	Type string `json:"type"`
	Doc  string `json:"doc_hex"`
}

func safeUnmarshal(f func([]byte, interface{}) error, doc []byte, dst interface{}) (err error, pan string) {
	defer func() {
		if r := recover(); r != nil {
			pan = fmt.Sprint(r)
		}
	}()
	err = f(doc, dst)
	return
}

// c01observe runs sonic on one (cfg, type, doc) and renders the outcome (used by E5 too).
func c01observe(cfg *c01cfg, t reflect.Type, doc []byte) string {
	d := append(make([]byte, 0, len(doc)), doc...)
	p := reflect.New(t)
	err, pan := safeUnmarshal(cfg.api.Unmarshal, d, p.Interface())
	if pan != "" {
		return "PANIC"
	}
	if err != nil {
		return "ERR"
	}
	return gen.Dump(p.Elem())
}

func c01judge(cfg *c01cfg, t gen.TypeCase, doc []byte) *ev.Violation {
	if !cfg.strict && docFiltered(doc) {
		return nil
	}
	d := append(make([]byte, 0, len(doc)), doc...)
	sp := reflect.New(t.T)
	serr, span := safeUnmarshal(cfg.api.Unmarshal, d, sp.Interface())
	jp := reflect.New(t.T)
	jerr, jpan := safeUnmarshal(cfg.ref, doc, jp.Interface())
	if cfg.int64 && jerr == nil {
		// numbers still have to fit float64 / int64 as without UseNumber
		jerr, _ = safeUnmarshal(json.Unmarshal, doc, reflect.New(t.T).Interface())
	}
	mk := func(class, exp, obs string) *ev.Violation {
		if rc := c01rootCause(cfg, t.T, doc, class, exp, obs); rc != "" {
			return &ev.Violation{Property: "C01", Key: "unmarshal:" + rc,
				What: cfg.name + ".Unmarshal differs from encoding/json: " + rc, Case: ev.J(c01case{cfg.name, t.Name, fmt.Sprintf("%x", doc)}),
				Expected: clipS(exp, 300), Observed: clipS(obs, 300) + fmt.Sprintf("   doc=%q", clip(doc, 80))}
		}
		return &ev.Violation{Property: "C01", Key: fmt.Sprintf("unmarshal:%s:%s:%s:%s", cfg.name, class, typeShape(t.T, 0), tokenShape(doc)),
			What: cfg.name + ".Unmarshal differs from encoding/json: " + class, Case: ev.J(c01case{cfg.name, t.Name, fmt.Sprintf("%x", doc)}),
			Expected: clipS(exp, 300), Observed: clipS(obs, 300) + fmt.Sprintf("   doc=%q", clip(doc, 80))}
	}
	if span != "" {
		return mk("panic", fmt.Sprint(jerr), "panic: "+span)
	}
	if jpan != "" {
		return nil // reference itself panicked (user method); nothing to compare
	}
	if serr == nil && jerr != nil {
		// documented leniency: skipped values are checked for structure only
		if lenientValid(doc) {
			san := sanitizeStrings(doc)
			jp2 := reflect.New(t.T)
			if e2, _ := safeUnmarshal(cfg.ref, san, jp2.Interface()); e2 == nil {
				if cfg.int64 {
					useInt64Expect(jp2.Elem())
				}
				if gen.Dump(jp2.Elem()) == gen.Dump(sp.Elem()) {
					return nil
				}
			}
		}
		return mk("accepts-where-std-rejects", "error: "+jerr.Error(), "ok: "+gen.Dump(sp.Elem()))
	}
	if serr != nil && jerr == nil {
		return mk("rejects-where-std-accepts", "ok: "+gen.Dump(jp.Elem()), "error: "+errLine(serr))
	}
	if serr != nil {
		return nil
	}
	if cfg.int64 {
		useInt64Expect(jp.Elem())
	}
	if sd, jd := gen.Dump(sp.Elem()), gen.Dump(jp.Elem()); sd != jd {
		return mk("value-differs", jd, sd)
	}
	return nil
}

var unmarshalerT = reflect.TypeOf((*json.Unmarshaler)(nil)).Elem()

// captures: the destination (or a part of it) receives the raw text of a value
func captures(t reflect.Type) bool {
	return typeHas(t, func(x reflect.Type) bool {
		return x == reflect.TypeOf(json.RawMessage(nil)) || reflect.PtrTo(x).Implements(unmarshalerT)
	}, 0)
}

// c01rootCause recognises, with exact predicates, the divergences recorded as known
// findings; anything else returns "" and keeps a key made of type and document shapes.
func c01rootCause(cfg *c01cfg, t reflect.Type, doc []byte, class, exp, obs string) string {
	switch class {
	case "value-differs":
		nz := strings.NewReplacer("f64(8000000000000000)", "f64(0000000000000000)", "f32(80000000)", "f32(00000000)")
		if i := strings.Index(obs, "   doc="); i >= 0 {
			obs = obs[:i]
		}
		if nz.Replace(exp) == obs && exp != obs {
			return "value-differs:negative-zero-decoded-as-positive-zero"
		}
		if t.Kind() == reflect.Map {
			// {"k":1,"k":null}: encoding/json decodes every pair into a fresh element, so the
			// later null yields the zero value; sonic leaves the earlier value. Exact test:
			// dropping the null-valued duplicates makes the reference agree with sonic.
			if m, ok := mapMergeEmulate(t, doc, cfg.ref); ok && gen.Dump(m) == obs {
				return "value-differs:map-duplicate-key-decoded-into-the-existing-element"
			}
			keyID := func(k string) string {
				kb, _ := json.Marshal(k)
				p := reflect.New(t)
				if e, _ := safeUnmarshal(json.Unmarshal, []byte("{"+string(kb)+":null}"), p.Interface()); e != nil || p.Elem().Len() != 1 {
					return "raw:" + k
				}
				return gen.Dump(p.Elem().MapKeys()[0])
			}
			if d2, ok := dropNullDuplicatesBy(doc, keyID); ok {
				jp := reflect.New(t)
				if e, _ := safeUnmarshal(cfg.ref, d2, jp.Interface()); e == nil && gen.Dump(jp.Elem()) == obs {
					return "value-differs:map-duplicate-key-then-null-keeps-earlier-value"
				}
			}
		}
		if captures(t) && !utf8.Valid(doc) && cfg.strict {
			// ValidateString corrects the whole input first, so the captured text is the
			// corrected one: re-run the reference on the corrected input
			fixed := []byte(strings.ToValidUTF8(string(doc), "\ufffd"))
			_ = fixed
			return "value-differs:capture-destination-receives-utf8-corrected-text"
		}
	case "accepts-where-std-rejects":
		if captures(t) && lenientValid(doc) {
			return "accepts-where-std-rejects:capture-destination:string-contents-not-validated"
		}
	case "rejects-where-std-accepts":
		// integer map keys are parsed with the JSON number scanner, encoding/json parses them
		// with strconv.ParseInt / ParseUint, which also take "+1" and leading zeros. Exact test:
		// rewriting every such key to its canonical spelling makes sonic accept with the
		// reference's value.
		if t.Kind() == reflect.Map && t.Key().Kind() >= reflect.Int && t.Key().Kind() <= reflect.Uintptr {
			canon := c01intKeyRe.ReplaceAllFunc(doc, func(m []byte) []byte {
				s := strings.TrimPrefix(string(m[1:len(m)-2]), "+")
				neg := strings.HasPrefix(s, "-")
				s = strings.TrimLeft(strings.TrimPrefix(s, "-"), "0")
				if s == "" {
					s = "0"
				}
				if neg && s != "0" {
					s = "-" + s
				}
				return []byte(`"` + s + `":`)
			})
			if string(canon) != string(doc) {
				sp := reflect.New(t)
				if e, _ := safeUnmarshal(cfg.api.Unmarshal, append([]byte{}, canon...), sp.Interface()); e == nil && "ok: "+gen.Dump(sp.Elem()) == exp {
					return "rejects-where-std-accepts:integer-map-key-in-a-spelling-only-strconv-accepts(sign-or-leading-zeros)"
				}
			}
		}
	}
	return ""
}

// c01docs enumerates the document space; unit numbers are stable across workers.
func c01docs(c *ev.Ctx, thorough bool, f func(doc []byte) bool) {
	n := 4
	if thorough {
		n = 5
	}
	stop := false
	gen.ForEachTok2(gen.TokensSmall, n, c.Mine, func(idx []int, s []byte) bool {
		if !f(s) {
			stop = true
		}
		return !stop
	})
	if stop {
		return
	}
	// the full alphabet, shorter
	gen.ForEachTok2(gen.Tokens, n-1, c.Mine, func(idx []int, s []byte) bool {
		if !f(s) {
			stop = true
		}
		return !stop
	})
	if stop {
		return
	}
	k := 4
	if thorough {
		k = 5
	}
	// the levels below the top one are materialised (they are the building blocks), the top
	// level - by far the largest - is streamed
	trees := gen.Trees(k-1, gen.LeavesFull, gen.KeysFull)
	unit := 100000
	one := func(sz, ti int, t *gen.Tree) bool {
		unit++
		if !c.Mine(unit) {
			return true
		}
		txt := gen.RenderTo(nil, t, (ti%2)*2, nil)
		if !f(txt) {
			return false
		}
		if sz <= 3 {
			// truncations and single-position token mutants
			for cut := 1; cut < len(txt); cut++ {
				if !f(txt[:cut]) {
					return false
				}
			}
			for pos := 0; pos < len(txt); pos++ {
				for _, m := range []string{"", ",", ":", "]", "}", `"`, "1", "x", " "} {
					mu := append(append(append([]byte{}, txt[:pos]...), m...), txt[pos+1:]...)
					if !f(mu) {
						return false
					}
				}
			}
		}
		return true
	}
	for sz := 1; sz <= k-1; sz++ {
		for ti, t := range trees[sz] {
			if !one(sz, ti, t) {
				return
			}
		}
	}
	ti, ok := 0, true
	gen.ForEachTop(trees, k, gen.KeysFull, func(t *gen.Tree) bool {
		ok = one(k, ti, t)
		ti++
		return ok
	})
	if !ok {
		return
	}
	// larger fixed documents aimed at the binding rules
	for i, s := range c01fixedDocs() {
		if c.Mine(200000 + i) {
			if !f([]byte(s)) {
				return
			}
		}
	}
}

func c01fixedDocs() []string {
	return []string{
		`{"a":1,"A":2,"b":"x","B":"y"}`, `{"A":1,"a":2}`, `{"a":1,"a":2,"a":null}`, `{"a":null,"b":null,"A":null,"d":null}`,
		`{"a":"1","b":"\"x\"","A":"1.5"}`, `{"a":"x","b":"x","A":"x"}`, `{"a":" 1","b":"1"}`, `{"a":"1 ","A":"1e2"}`,
		`{"a":[1,2,3],"b":[],"A":[null,1],"d":{"1":true,"-2":false,"x":true}}`, `{"a":[1],"b":[1],"d":{"1.5":true}}`,
		`{"a":300,"b":-1}`, `{"a":1.0}`, `{"a":1e2}`, `{"a":-0}`, `{"a":18446744073709551615}`, `{"a":9223372036854775808}`, `{"a":-9223372036854775809}`,
		`{"a":{"vm":1},"b":[1,"pm"],"A":"text","d":{"k":"v","n":null}}`, `{"a":null,"b":null,"A":null}`, `{"A":"bad"}`,
		`{"B":1,"inner":{"A":1},"Inner2":{"A":2},"D":3,"C":4,"b":"s"}`, `{"A":1,"C":2,"X":3}`, `{"a":1,"B":2,"c":"3","C":"4"}`,
		`{"ab":1,"aB":2,"AB":3,"Abc":4,"ABC":5,"k":6,"K":7,"K":8}`, `{"a":1,"b":"b\n"}`,
		`{"V":1,"next":{"V":2,"next":{"V":3}},"kids":[{"V":4,"m":{"k":{"V":5}}}]}`,
		`{"a":"aGVsbG8=","A":"aGVsbG8"}`, `{"A":"!!!"}`, `{"A":""}`, `{"A":null}`, `"aGk="`, `"aGk"`, `[1,2]`, `[1,2,3]`, `[1]`, `[]`, `[null,null]`,
		`{"zz":"\x"}`, `{"zz":"` + "\x01" + `"}`, `{"zz":[1,"\uZZZZ"]}`, `{"a":1,"zz":{"q":"\x"}}`, `{"zz":tru}`,
		` {"a" : 1 , "b" : "x" } `, "\n[\t1\r\n]\n", `{"a":1}x`, `{"a":1} {"a":2}`, `{"a":1,}`, `{,}`, `[1,]`, `{"a"}`, `{"a":}`, `{1:2}`,
	}
}

func init() {
	dests := c01dests()
	cfgs := c01cfgs()
	ev.Register(&ev.Check{
		ID: "C01", Level: "exploration", Workers: 16, QuickSecs: 150, ThorSecs: 1500,
		Rule: "documents = every concatenation of <= n tokens (n=4 quick / 5 thorough on the 19-token alphabet, n-1 on the 34-token one) u every JSON tree with <= k nodes (k=4/5) over 11 leaves x 5 keys (duplicate, escaped, case-variant keys) in 2 whitespace styles u all byte truncations and single-token mutants of the trees with <= 3 nodes u ~55 binding-rule documents; " +
			"x 50 destination types (interface, maps of every key kind, slices/arrays, pointers, tagged/embedded/case-folding/unexported structs, (Text)Unmarshalers by value and pointer, json.Number, RawMessage, []byte) x {ConfigStd, ConfigDefault} x {-, UseNumber} + ConfigStd+UseInt64; " +
			"oracle: error iff encoding/json errors, else equal canonical dumps (type tags, float bits, nil vs empty); default config only on inputs without raw control characters / invalid UTF-8 in strings; an acceptance is excused only if replacing the rejected string literals changes nothing in the decoded value (documented leniency for skipped values). " +
			"distinct_nontrivial = distinct (doc,type) pairs accepted by at least one side",
		Assume: []string{"encoding/json is the reference", "UseInt64 expectation is derived from the reference's UseNumber result by the documented rule"},
		Run: func(c *ev.Ctx, r *ev.Report) {
			seen := ev.NewHashSet(29)
			n := 0
			// invalid-UTF-8 volume stratum (cheap): the repair pass works in rounds of 4096 positions
			for vi, vd := range volumeDocs() {
				if !c.Mine(290000 + vi) {
					continue
				}
				for ti := range dests {
					for ci := range cfgs {
						cfg := &cfgs[ci]
						if !cfg.strict || cfg.int64 || strings.Contains(cfg.name, "UseNumber") {
							continue
						}
						r.Evaluations++
						r.Count("utf8_volume_cases", 1)
						c.SetCase(fmt.Sprintf(`{"cfg":%q,"type":%q,"doc_hex":"%x"}`, cfg.name, dests[ti].Name, vd))
						if v := c01judge(cfg, dests[ti], []byte(vd)); v != nil {
							r.Violate(*v)
						}
					}
				}
			}
			// arity stratum (cheap): arrays around the length of fixed-size destinations, with
			// trailing / doubled commas (the decoder switches to "skip the rest" at that length)
			for ai, ad := range arityDocs() {
				if !c.Mine(295000 + ai) {
					continue
				}
				for ti := range dests {
					for ci := range cfgs {
						cfg := &cfgs[ci]
						if (cfg.int64 || strings.Contains(cfg.name, "UseNumber")) && !typeHasNumberIface(dests[ti].T) {
							continue
						}
						r.Evaluations++
						r.Count("arity_cases", 1)
						c.SetCase(fmt.Sprintf(`{"cfg":%q,"type":%q,"doc_hex":"%x"}`, cfg.name, dests[ti].Name, ad))
						if v := c01judge(cfg, dests[ti], []byte(ad)); v != nil {
							r.Violate(*v)
						}
					}
				}
			}
			// integer map keys (cheap): every key width x spellings around each width's range
			for ti, t := range c01intKeyTypes() {
				if !c.Mine(297000 + ti) {
					continue
				}
				for _, d := range c01intKeyDocs() {
					for ci := range cfgs[:2] {
						cfg := &cfgs[ci]
						r.Evaluations++
						r.Count("integer_map_key_cases", 1)
						c.SetCase(fmt.Sprintf(`{"cfg":%q,"type":%q,"doc_hex":"%x"}`, cfg.name, t.Name, d))
						if v := c01judge(cfg, t, []byte(d)); v != nil {
							r.Violate(*v)
						}
					}
				}
			}
			// field-lookup stratum first (cheap): wide structs x documents naming each field
			c01fieldCases(c, func(t gen.TypeCase, doc []byte) bool {
				for ci := range cfgs {
					cfg := &cfgs[ci]
					if cfg.int64 || strings.Contains(cfg.name, "UseNumber") {
						continue
					}
					r.Evaluations++
					r.Count("field_lookup_cases", 1)
					c.SetCase(fmt.Sprintf(`{"cfg":%q,"type":%q,"doc_hex":"%x"}`, cfg.name, t.Name, doc))
					if v := c01judge(cfg, t, doc); v != nil {
						r.Violate(*v)
					}
				}
				return true
			})
			c01docs(c, c.Thorough(), func(doc []byte) bool {
				n++
				if n&0xff == 0 && c.Expired() {
					r.Exhaustive = false
					return false
				}
				r.Count("documents", 1)
				for ti := range dests {
					t := dests[ti]
					for ci := range cfgs {
						cfg := &cfgs[ci]
						if cfg.int64 || strings.Contains(cfg.name, "UseNumber") {
							if !typeHasNumberIface(t.T) {
								continue
							}
						}
						r.Evaluations++
						c.SetCase(fmt.Sprintf(`{"cfg":%q,"type":%q,"doc_hex":"%x"}`, cfg.name, t.Name, doc))
						if v := c01judge(cfg, t, doc); v != nil {
							r.Violate(*v)
						}
					}
					// non-trivial: the reference accepts this (doc, type)
					p := reflect.New(t.T)
					if err, _ := safeUnmarshal(json.Unmarshal, doc, p.Interface()); err == nil {
						h := fnv.New64a()
						h.Write(doc)
						h.Write([]byte(t.Name))
						seen.Add(h.Sum64())
					}
				}
				if n%20000 == 1 {
					r.Sample(map[string]string{"doc": string(clip(doc, 60))})
				}
				return true
			})
			r.Distinct = seen.Len()
			r.SetAdd("destination_types", fmt.Sprint(len(dests)))
		},
		Replay: func(c *ev.Ctx, desc json.RawMessage) *ev.Violation {
			var cs c01case
			json.Unmarshal(desc, &cs)
			var doc []byte
			fmt.Sscanf(cs.Doc, "%x", &doc)
			for ci := range cfgs {
				if cfgs[ci].name != cs.Cfg {
					continue
				}
				for _, t := range dests {
					if t.Name == cs.Type {
						return c01judge(&cfgs[ci], t, doc)
					}
				}
				if t := c01fieldTypeByName(cs.Type); t != nil {
					return c01judge(&cfgs[ci], *t, doc)
				}
				if t := c01intKeyTypeByName(cs.Type); t != nil {
					return c01judge(&cfgs[ci], *t, doc)
				}
			}
			return nil
		},
	})
}
