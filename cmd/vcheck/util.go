package main

import (
	"bytes"
	"reflect"
	"strconv"

	"github.com/bytedance/sonic/decoder"
	"github.com/bytedance/sonic/encoder"
)

func encoderPretouchMany(l []reflect.Type) error { return encoder.PretouchMany(l) }
func decoderPretouchMany(l []reflect.Type) error { return decoder.PretouchMany(l) }

type bytesBuffer struct{ bytes.Buffer }

func strconvUnquote(s string) (string, error) { return strconv.Unquote(s) }
