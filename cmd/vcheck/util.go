package main

import (
	"bytes"
	"strconv"
)

type bytesBuffer struct{ bytes.Buffer }

func strconvUnquote(s string) (string, error) { return strconv.Unquote(s) }
