package main

import (
	"bytes"
	"encoding/json"
	"reflect"
	"sort"
	"strconv"

	"github.com/bytedance/sonic/decoder"
	"github.com/bytedance/sonic/encoder"
)

func encoderPretouchMany(l []reflect.Type) error { return encoder.PretouchMany(l) }
func decoderPretouchMany(l []reflect.Type) error { return decoder.PretouchMany(l) }

type bytesBuffer struct{ bytes.Buffer }

func strconvUnquote(s string) (string, error) { return strconv.Unquote(s) }

// dropNullDuplicates removes, from a top-level JSON object, every pair whose value is null
// and whose key already occurred; ok is false if nothing was removed or doc is not an object.
func dropNullDuplicates(doc []byte) ([]byte, bool) {
	return dropNullDuplicatesBy(doc, func(k string) string { return k })
}

// dropNullDuplicatesBy: keys are identified after the conversion keyID applies to them
// (text-unmarshaling map keys may map different spellings to one key).
func dropNullDuplicatesBy(doc []byte, keyID func(string) string) ([]byte, bool) {
	dec := json.NewDecoder(bytes.NewReader(doc))
	dec.UseNumber()
	tok, err := dec.Token()
	if err != nil || tok != json.Delim('{') {
		return nil, false
	}
	var out bytes.Buffer
	out.WriteByte('{')
	seen := map[string]bool{}
	removed := false
	first := true
	for dec.More() {
		k, err := dec.Token()
		if err != nil {
			return nil, false
		}
		var raw json.RawMessage
		if err := dec.Decode(&raw); err != nil {
			return nil, false
		}
		ks := k.(string)
		id := keyID(ks)
		if seen[id] && string(bytes.TrimSpace(raw)) == "null" {
			removed = true
			continue
		}
		seen[id] = true
		if !first {
			out.WriteByte(',')
		}
		first = false
		kb, _ := json.Marshal(ks)
		out.Write(kb)
		out.WriteByte(':')
		out.Write(raw)
	}
	out.WriteByte('}')
	return out.Bytes(), removed
}

// mapMergeEmulate decodes a top-level object into a map of type t the way a decoder does
// that decodes a repeated key INTO THE EXISTING ELEMENT (instead of a fresh zero element as
// encoding/json does): pairs are applied in order with encoding/json, starting from the
// element already stored under the (converted) key.
func mapMergeEmulate(t reflect.Type, doc []byte, unmarshal func([]byte, interface{}) error) (reflect.Value, bool) {
	dec := json.NewDecoder(bytes.NewReader(doc))
	tok, err := dec.Token()
	if err != nil || tok != json.Delim('{') || t.Kind() != reflect.Map {
		return reflect.Value{}, false
	}
	m := reflect.MakeMap(t)
	for dec.More() {
		k, err := dec.Token()
		if err != nil {
			return reflect.Value{}, false
		}
		var raw json.RawMessage
		if err := dec.Decode(&raw); err != nil {
			return reflect.Value{}, false
		}
		kb, _ := json.Marshal(k.(string))
		one := reflect.New(t)
		if err := unmarshal([]byte("{"+string(kb)+":null}"), one.Interface()); err != nil || one.Elem().Len() != 1 {
			return reflect.Value{}, false
		}
		key := one.Elem().MapKeys()[0]
		elem := reflect.New(t.Elem())
		if old := m.MapIndex(key); old.IsValid() {
			elem.Elem().Set(old)
		}
		if err := unmarshal(raw, elem.Interface()); err != nil {
			return reflect.Value{}, false
		}
		m.SetMapIndex(key, elem.Elem())
	}
	return m, true
}

func sortedBytes(b []byte) string {
	c := append([]byte{}, b...)
	sort.Slice(c, func(i, j int) bool { return c[i] < c[j] })
	return string(c)
}
