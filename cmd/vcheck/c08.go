package main

import (
	"encoding/json"
	"fmt"
	"os"
	"path/filepath"
	"reflect"
	"runtime"
	"runtime/debug"
	"sort"
	"strings"
	"sync"
	"time"

	"github.com/bytedance/sonic"
	"github.com/bytedance/sonic/loader/vshim"
	"github.com/bytedance/sonic/verifhooks"

	"verif/internal/ev"
)

// C08: codecs are safe and deterministic under arbitrary concurrent use.
// Engine E3: every interleaving (<= p preemptions) of 2-3 API calls / cache operations at
// every lock, atomic and pool operation and before every statement of the cache, pool and
// module-registration code; oracle: every call returns what it returns alone; no deadlock;
// tracebacks taken inside user callbacks see the generated frame. Companion: free-running
// -race pass on the same bodies.

// ---- callback types that look at their own stack (is the generated frame resolvable?)

var c08frames sync.Map // tag -> observation string

func c08observe(tag string) {
	pcs := make([]uintptr, 48)
	n := runtime.Callers(1, pcs)
	gen, unres := 0, 0
	for _, pc := range pcs[:n] {
		f := runtime.FuncForPC(pc - 1)
		if f == nil {
			unres++
			continue
		}
		nm := f.Name()
		if strings.HasPrefix(nm, "encode_") || strings.HasPrefix(nm, "decode_") || strings.Contains(nm, ".encode_") || strings.Contains(nm, ".decode_") {
			gen++
		}
	}
	// reaching main.* (the scenario body) means the unwinder got through the generated frames
	top := false
	fr := runtime.CallersFrames(pcs[:n])
	for {
		f, more := fr.Next()
		if strings.HasPrefix(f.Function, "main.") && strings.Contains(f.Function, "c08") && !strings.Contains(f.Function, "c08observe") && !strings.Contains(f.Function, "c08M") {
			top = true
		}
		if !more {
			break
		}
	}
	c08frames.Store(tag, fmt.Sprintf("generated-frames>0=%v unresolved=%d reaches-caller=%v", gen > 0, unres, top))
}

type c08M struct{ Tag string }

func (m c08M) MarshalJSON() ([]byte, error) { c08observe("enc:" + m.Tag); return []byte(`"m"`), nil }
func (m *c08M) UnmarshalJSON(b []byte) error {
	c08observe("dec:" + string(b))
	return nil
}

var c08types = map[int]reflect.Type{}

// c08T returns the i-th scenario type. The SAME types are used in every execution and the
// codec caches are reset before each one (c08reset), so that every execution starts from the
// same state - fresh types per execution would hash differently and make the schedule tree
// irreproducible.
func c08T(i int) reflect.Type {
	if t := c08types[i]; t != nil {
		return t
	}
	t := reflect.StructOf([]reflect.StructField{
		{Name: "X", Type: reflect.TypeOf(c08M{})},
		{Name: fmt.Sprintf("F%d", i), Type: reflect.TypeOf(0), Tag: `json:"f"`},
		{Name: "M", Type: reflect.TypeOf(map[string]int{}), Tag: `json:"m,omitempty"`},
	})
	c08types[i] = t
	return t
}

func c08reset() {
	verifhooks.ResetCodecCaches()
	c08frames.Range(func(k, _ interface{}) bool { c08frames.Delete(k); return true })
}

type c08scn struct {
	name string
	// mk builds fresh shared state and returns one body per thread
	mk func() []func() interface{}
}

func c08marshal(t reflect.Type, tag string, n int) func() interface{} {
	return func() interface{} {
		v := reflect.New(t)
		v.Elem().Field(0).Set(reflect.ValueOf(c08M{tag}))
		v.Elem().Field(1).SetInt(int64(n))
		v.Elem().Field(2).Set(reflect.ValueOf(map[string]int{"b": 2, "a": 1, "c": 3}))
		out, err := sonic.ConfigStd.Marshal(v.Interface())
		fr, _ := c08frames.Load("enc:" + tag)
		return fmt.Sprintf("%s|%v|%v", out, err, fr)
	}
}

func c08unmarshal(t reflect.Type, doc string, tag string) func() interface{} {
	return func() interface{} {
		v := reflect.New(t)
		err := sonic.ConfigStd.Unmarshal([]byte(doc), v.Interface())
		fr, _ := c08frames.Load("dec:" + tag)
		e := "ok"
		if err != nil {
			e = "ERR"
		}
		return fmt.Sprintf("%d|%s|%v", v.Elem().Field(1).Int(), e, fr)
	}
}

func c08scenarios(thorough bool) []c08scn {
	var l []c08scn
	add := func(n string, mk func() []func() interface{}) {
		l = append(l, c08scn{n, func() []func() interface{} { c08reset(); return mk() }})
	}
	add("first-use Marshal(T) || Marshal(T)", func() []func() interface{} {
		t := c08T(1)
		return []func() interface{}{c08marshal(t, "A", 1), c08marshal(t, "B", 2)}
	})
	add("first-use Unmarshal(T) || Unmarshal(T)", func() []func() interface{} {
		t := c08T(1)
		return []func() interface{}{c08unmarshal(t, `{"X":11,"f":5}`, "11"), c08unmarshal(t, `{"X":22,"f":6}`, "22")}
	})
	add("first-use Marshal(T1) || Unmarshal(T2)", func() []func() interface{} {
		t1, t2 := c08T(1), c08T(2)
		return []func() interface{}{c08marshal(t1, "A", 1), c08unmarshal(t2, `{"X":33,"f":7}`, "33")}
	})
	add("first-use Marshal(T1) || Marshal(T2) (same cache)", func() []func() interface{} {
		t1, t2 := c08T(1), c08T(2)
		return []func() interface{}{c08marshal(t1, "A", 1), c08marshal(t2, "B", 2)}
	})
	add("Pretouch(T) || Marshal(T)", func() []func() interface{} {
		t := c08T(1)
		return []func() interface{}{func() interface{} { return fmt.Sprint(sonic.Pretouch(t)) }, c08marshal(t, "A", 1)}
	})
	add("Pretouch(T1) || Unmarshal(T2)", func() []func() interface{} {
		t1, t2 := c08T(1), c08T(2)
		return []func() interface{}{func() interface{} { return fmt.Sprint(sonic.Pretouch(t1)) }, c08unmarshal(t2, `{"X":44,"f":8}`, "44")}
	})
	warm := c08T(9)
	warmUp := func() {
		c08marshal(warm, "W", 0)()
		c08unmarshal(warm, `{"X":1,"f":1}`, "1")()
	}
	add("warm Marshal(map,sorted) || Marshal(map,sorted) (iterator pool)", func() []func() interface{} {
		warmUp()
		return []func() interface{}{c08marshal(warm, "A", 1), c08marshal(warm, "B", 2)}
	})
	add("warm Unmarshal(error) || Unmarshal(ok) (dirty stack to pool)", func() []func() interface{} {
		warmUp()
		return []func() interface{}{c08unmarshal(warm, `{"X":55,"f":"not-a-number","m":{"a":[`, "55"), c08unmarshal(warm, `{"X":66,"f":9,"m":{"a":1}}`, "66")}
	})
	// json.Marshaler output is compacted through a pooled bytes.Buffer (CompactMarshaler is on
	// in ConfigStd): the buffer may go back to the pool only after its bytes were copied out
	add("warm ConfigStd.Marshal(Marshaler) || ConfigStd.Marshal(Marshaler) (compaction buffer pool)", func() []func() interface{} {
		mk := func(tag string) func() interface{} {
			v := []c08spaced{{tag + "1"}, {tag + "2"}}
			return func() interface{} {
				b, err := sonic.ConfigStd.Marshal(v)
				return fmt.Sprint(string(b), "|", err)
			}
		}
		mk("W")() // compile and warm the pools
		return []func() interface{}{mk("A"), mk("B")}
	})
	add("Valid || Get || Valid (state machine pool)", func() []func() interface{} {
		doc := []byte(`{"a":[1,{"b":[true,null]}],"c":"d"}`)
		bad := []byte(`{"a":[1,{"b":[true,nul`)
		return []func() interface{}{
			func() interface{} { return fmt.Sprint(sonic.Valid(doc), sonic.Valid(bad)) },
			func() interface{} {
				n, err := sonic.Get(doc, "a", 1, "b", 0)
				r, _ := n.Raw()
				_, err2 := sonic.Get(bad, "a", 1, "b", 1)
				return fmt.Sprint(r, err == nil, err2 == nil)
			},
		}
	})
	if thorough {
		add("first-use Marshal(T1) || Unmarshal(T2) || Marshal(T3)", func() []func() interface{} {
			t1, t2, t3 := c08T(1), c08T(2), c08T(3)
			return []func() interface{}{c08marshal(t1, "A", 1), c08unmarshal(t2, `{"X":33,"f":7}`, "33"), c08marshal(t3, "C", 3)}
		})
	}
	// ---- component: the real ProgramCache with fabricated keys next to a rehash
	// (an 8-slot table rehashes at the 4th entry: prefilled with 2 the second Compute rehashes,
	//  with 3 the first one does; the default 4096-slot table covers the no-rehash path)
	for _, cfg := range [][2]int{{0, 0}, {8, 2}, {8, 3}} {
		slots, pre := cfg[0], cfg[1]
		add(fmt.Sprintf("ProgramCache(%d slots, prefilled %d): Get(k1),Get(k1) || Compute(k2) || Compute(k1)", slots, pre), func() []func() interface{} {
			var pk []*verifhooks.GoType
			var pv []interface{}
			for i := 0; i < pre; i++ {
				pk = append(pk, verifhooks.FakeType(uint32(i)*8)) // all collide in an 8- and a 16-slot table
				pv = append(pv, -i-1)
			}
			pc := verifhooks.PrefilledCache(slots, pk, pv)
			k1, k2 := verifhooks.FakeType(0x1000), verifhooks.FakeType(0x2000) // collide modulo every table size
			var mu sync.Mutex                                                  // (the harness's own counter must not race in the -race pass)
			calls := map[string]int{}
			comp := func(name string, val int) func() (interface{}, error) {
				return func() (interface{}, error) { mu.Lock(); calls[name]++; mu.Unlock(); return val, nil }
			}
			return []func() interface{}{
				func() interface{} {
					a, b := verifhooks.CacheGet(pc, k1), verifhooks.CacheGet(pc, k1)
					ok := func(v interface{}) bool { return v == nil || v == 1 }
					return fmt.Sprint(ok(a), ok(b), !(a != nil && b == nil))
				},
				func() interface{} {
					v, _ := verifhooks.CacheCompute(pc, k2, comp("k2", 2))
					return fmt.Sprint(v)
				},
				func() interface{} {
					v, _ := verifhooks.CacheCompute(pc, k1, comp("k1", 1))
					// after this thread's Compute returned, k1 must be visible with its own value
					g := verifhooks.CacheGet(pc, k1)
					lost := 0
					for i, k := range pk {
						if i%211 == 0 || i > pre-4 {
							if verifhooks.CacheGet(pc, k) != pv[i] {
								lost++
							}
						}
					}
					mu.Lock()
					once := calls["k1"] <= 1
					mu.Unlock()
					return fmt.Sprint(v, g, once, lost)
				},
			}
		})
	}
	return l
}

type c08case struct {
	Scenario string `json:"scenario"`
	Thorough bool   `json:"thorough"`
	Choices  []int  `json:"choices"`
}

// solo results: each body alone, in every order (the frame observations may legitimately
// differ between first use and warm use; any sequential order is accepted)
func c08allowed(s *c08scn) map[string]bool {
	out := map[string]bool{}
	n := len(s.mk())
	idx := make([]int, n)
	for i := range idx {
		idx[i] = i
	}
	var perm func(k int)
	perm = func(k int) {
		if k == n {
			bodies := s.mk()
			res := make([]string, n)
			for _, t := range idx {
				res[t] = fmt.Sprint(bodies[t]())
			}
			out[strings.Join(res, "\x00")] = true
			return
		}
		for i := k; i < n; i++ {
			idx[k], idx[i] = idx[i], idx[k]
			perm(k + 1)
			idx[k], idx[i] = idx[i], idx[k]
		}
	}
	perm(0)
	return out
}

func c08find(name string) *c08scn {
	for _, s := range c08scenarios(true) {
		if s.name == name {
			s := s
			return &s
		}
	}
	return nil
}

func c08viol(s *c08scn, cl string, x vshim.Exec, ch []int, allowed map[string]bool, thorough bool) *ev.Violation {
	var al []string
	for k := range allowed {
		al = append(al, strings.ReplaceAll(k, "\x00", " | "))
	}
	sort.Strings(al)
	return &ev.Violation{Property: "C08", Key: s.name + ": " + cl, What: "concurrent codec use: " + cl,
		Case: ev.J(c08case{s.name, thorough, ch}), Expected: "one of the sequential outcomes: " + clipS(strings.Join(al, "  OR  "), 500),
		Observed: fmt.Sprintf("deadlock=%v %s results=%q preemptions=%d points=%d", x.Deadlock, x.DeadlockInfo, clipS(strings.ReplaceAll(vecOf(x), "\x00", " | "), 400), x.Preemptions(), len(x.Points))}
}

func init() {
	ev.Register(&ev.Check{
		ID: "C08", Level: "model_checking", Workers: 16, QuickSecs: 150, ThorSecs: 1500,
		Rule: "12 scenarios of 2-3 concurrent calls on the real code (first use of one fresh type by two Marshal / two Unmarshal calls; first use of two types through the encoder and the decoder cache, whose module registrations overlap; Pretouch against use; sorted-map encoding through the iterator pool; a failing decode against a successful one through the stack pool; Valid/Get through the state-machine pool; " +
			"the real ProgramCache with fabricated colliding keys, empty and prefilled to 2046/2047 entries so that the next insertion rehashes) explored for EVERY interleaving with <= 2 preemptions (3 in thorough where it completes) at every Mutex/RWMutex/atomic/Pool operation and before every statement of pcache.go, the pool helpers, resolver.ResolveStruct, loader/register.go and loader.Load; fresh types per execution; " +
			"oracle: the result vector (outputs, errors, and what a traceback taken inside the user callback sees of the generated frame) equals that of some sequential order; no deadlock. states = complete schedules, transitions = scheduling decisions. Companion: the same bodies free-running under -race.",
		Assume: []string{"sync/atomic/Pool semantics are modelled by the shim (deterministic LIFO pools, emptied per execution)", "compilation itself is thread-local and not instrumented", "memory-model effects below statement granularity: -race companion only"},
		Extra: func(r *ev.Report) map[string]interface{} {
			return map[string]interface{}{"distinct_nontrivial": len(r.Sets["outcome"]), "distinct_nontrivial_rule": "distinct (scenario, deadlock flag, result vector) outcomes over all schedules"}
		},
		Run: c08run,
		Replay: func(c *ev.Ctx, desc json.RawMessage) *ev.Violation {
			var cs c08case
			json.Unmarshal(desc, &cs)
			if strings.HasPrefix(cs.Scenario, "race:") {
				return nil
			}
			s := c08find(cs.Scenario)
			if s == nil {
				return nil
			}
			allowed := c08allowed(s)
			x1 := vshim.Run(cs.Choices, s.mk()...)
			if x1.Diverged != "" {
				fmt.Println("replay diverged:", x1.Diverged)
				return nil
			}
			if cl := classify16(x1, allowed); cl != "" {
				return c08viol(s, cl, x1, cs.Choices, allowed, cs.Thorough)
			}
			return nil
		},
	})
}

func c08run(c *ev.Ctx, r *ev.Report) {
	if os.Getenv("VERIF_RACEPASS") != "" {
		c08racepass(c, r)
		return
	}
	debug.SetGCPercent(400)
	scns := c08scenarios(c.Thorough())
	// iterative context bounding ACROSS scenarios: every scenario is completed at bound 0,
	// then every scenario at bound 1, ... so that a deadline cuts the deepest bound of the
	// last scenarios, never a whole scenario
	type scnState struct {
		allowed  map[string]bool
		bounds   []int
		outcomes map[string]bool
		maxBound int
		done     bool
		points   int
		execs    int
	}
	sts := make([]*scnState, len(scns))
	top := 0
	for si := range scns {
		s := &scns[si]
		// preemption bounds: the cache component scenarios are cheap (no compilation): 3;
		// API scenarios cost a compilation per execution: 1 in quick (2 for the scenario whose
		// module registrations overlap), 2 in thorough
		bounds := []int{0, 1}
		switch {
		case strings.HasPrefix(s.name, "ProgramCache") && c.Thorough():
			bounds = []int{0, 1, 2, 3}
		case strings.HasPrefix(s.name, "ProgramCache"):
			bounds = []int{0, 1, 2}
		case c.Thorough() || s.name == "first-use Marshal(T1) || Unmarshal(T2)":
			bounds = []int{0, 1, 2}
		}
		r.SetAdd("preemption_bounds", fmt.Sprintf("%s: %v", s.name, bounds))
		sts[si] = &scnState{allowed: c08allowed(s), bounds: bounds, outcomes: map[string]bool{}, maxBound: -1}
		if m := bounds[len(bounds)-1]; m > top {
			top = m
		}
	}
	for b := 0; b <= top; b++ {
		for si := range scns {
			s, ss := &scns[si], sts[si]
			if ss.done || b > ss.bounds[len(ss.bounds)-1] {
				continue
			}
			bad := 0
			st := vshim.Explore(b, (c.Shard+int(c.Seed))%c.NShard, c.NShard, s.mk, func(x vshim.Exec, ch []int) bool {
				oc := fmt.Sprint(x.Deadlock, "\x00", vecOf(x))
				if !ss.outcomes[oc] {
					ss.outcomes[oc] = true
					r.SetAdd("outcome", fmt.Sprintf("%d:%x", si, fnvs(oc)))
				}
				if cl := classify16(x, ss.allowed); cl != "" {
					if cl == "infra-divergence" {
						r.Notes = append(r.Notes, "replay divergence in "+s.name+": "+x.Diverged)
						r.Exhaustive = false
						return false
					}
					bad++
					r.Violate(*c08viol(s, cl, x, ch, ss.allowed, c.Thorough()))
					if bad >= 3 {
						return false
					}
				}
				return true
			}, func() bool { return c.Expired() || c.OverMemory() })
			r.States += int64(st.Execs)
			r.Transitions += int64(st.Transitions)
			r.Validated += int64(st.Execs)
			r.Evaluations += int64(st.Execs)
			if st.MaxPoints > int(r.Counters["max_points_per_execution"]) {
				r.Counters["max_points_per_execution"] = int64(st.MaxPoints)
			}
			if st.MaxPoints > ss.points {
				ss.points = st.MaxPoints
			}
			ss.execs += st.Execs
			if st.Stopped {
				if c.Expired() || c.OverMemory() {
					r.Exhaustive = false
				}
				ss.done = true
				continue
			}
			ss.maxBound = b
			if bad > 0 {
				ss.done = true
			}
			runtime.GC()
		}
	}
	for si := range scns {
		s, ss := &scns[si], sts[si]
		r.SetAdd(fmt.Sprintf("scenario_shards_completed_at_preemption_bound_%d", ss.maxBound), fmt.Sprintf("%d/%d", si, c.Shard))
		if c.Shard == 0 {
			r.Count("scenarios", 1)
			r.Sample(map[string]interface{}{"scenario": s.name, "bound_completed_by_shard_0": ss.maxBound, "distinct_outcomes_seen_by_shard_0": len(ss.outcomes), "max_points_per_execution": ss.points, "executions_by_shard_0": ss.execs})
		}
	}
	if c.Shard == 0 {
		if bin := os.Getenv("VERIF_RACE_BIN"); bin != "" {
			logp := filepath.Join(ev.Root, ".build", "run", "C08-race")
			old, _ := filepath.Glob(logp + ".*")
			for _, f := range old {
				os.Remove(f)
			}
			rep, tail, err := ev.RunOther(bin, "C08", c, []string{"VERIF_RACEPASS=1", "GORACE=log_path=" + logp + " halt_on_error=0 history_size=3"}, 5*time.Minute)
			if err != nil {
				r.Notes = append(r.Notes, "race companion pass failed to run: "+err.Error()+" "+lastN(tail, 300))
			} else {
				r.Count("racepass_executions", rep.Evaluations)
			}
			files, _ := filepath.Glob(logp + ".*")
			races := map[string]string{}
			for _, f := range files {
				b, _ := os.ReadFile(f)
				for k, v := range parseRaces(string(b)) {
					races[k] = v
				}
			}
			r.Count("racepass_distinct_races", int64(len(races)))
			for k, v := range races {
				r.Violate(ev.Violation{Property: "C08", Key: "race: " + k, What: "data race reported by the free-running -race companion pass",
					Case: ev.J(c08case{Scenario: "race:" + k}), Expected: "no data race", Observed: v})
			}
		} else {
			r.Notes = append(r.Notes, "race companion pass skipped (VERIF_RACE_BIN unset)")
		}
	}
}

// c08racepass: same bodies, real goroutines, real sync, under -race.
func c08racepass(c *ev.Ctx, r *ev.Report) {
	scns := c08scenarios(true)
	for si := range scns {
		s := &scns[si]
		iters := 40
		if strings.HasPrefix(s.name, "ProgramCache(prefilled 20") {
			iters = 10
		}
		for it := 0; it < iters; it++ {
			bodies := s.mk()
			var wg sync.WaitGroup
			start := make(chan struct{})
			for _, b := range bodies {
				wg.Add(1)
				b := b
				go func() { defer wg.Done(); defer func() { recover() }(); <-start; b() }()
			}
			close(start)
			wg.Wait()
			r.Evaluations++
		}
	}
	r.Distinct = int64(len(scns))
}

// c08spaced: a json.Marshaler whose output needs compaction
type c08spaced struct{ S string }

func (c c08spaced) MarshalJSON() ([]byte, error) {
	return []byte(` { "s" : "` + c.S + `" , "pad" : [ 1 , 2 , 3 ] } `), nil
}
