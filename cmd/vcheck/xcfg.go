package main

import (
	"bufio"
	"bytes"
	"encoding/binary"
	"encoding/json"
	"fmt"
	"io"
	"math"
	"os"
	"os/exec"
	"path/filepath"
	"reflect"
	"strings"
	"sync"
	"time"

	"github.com/bytedance/sonic"
	"github.com/bytedance/sonic/ast"
	"github.com/bytedance/sonic/encoder"
	"github.com/bytedance/sonic/unquote"
	sutf8 "github.com/bytedance/sonic/utf8"

	"verif/internal/ev"
	"verif/internal/gen"
)

// Engine E5: start-up configurations (SONIC_MODE, SONIC_USE_OPTDEC, SONIC_USE_FASTMAP,
// SONIC_ENCODER_USE_VM) are read in package init, so each configuration is a separate
// process. A *suite* enumerates cases deterministically (same order in every process) and
// emits one observation per case; the parent compares the 64-bit digests position by
// position and, at a mismatch, asks both children to regenerate that one case in full.

type xsuite struct {
	name string
	enum func(c *ev.Ctx, thorough bool, emit func(id func() string, obs string) bool)
}

var xsuites = map[string]*xsuite{}

func fnv64(s string) uint64 {
	h := uint64(14695981039346656037)
	for i := 0; i < len(s); i++ {
		h ^= uint64(s[i])
		h *= 1099511628211
	}
	return h
}

// xchild: suite mode of a worker process (env VERIF_SUITE set).
func xchild(c *ev.Ctx, r *ev.Report) bool {
	name := os.Getenv("VERIF_SUITE")
	if name == "" {
		return false
	}
	s := xsuites[name]
	var out *os.File
	if p := os.Getenv("VERIF_SUITE_OUT"); strings.HasPrefix(p, "fd:") {
		var fd int
		fmt.Sscan(p[3:], &fd)
		out = os.NewFile(uintptr(fd), "suite-digests")
	} else {
		var err error
		if out, err = os.Create(p); err != nil {
			panic(err)
		}
	}
	w := bufio.NewWriterSize(out, 1<<20)
	// regeneration mode: VERIF_SUITE_PICKS = comma separated sorted case indices whose full
	// (id, observation) are written as JSON lines
	var picks []int64
	if ps := os.Getenv("VERIF_SUITE_PICKS"); ps != "" {
		if strings.HasPrefix(ps, "@") { // list kept in a file (it can exceed the environment size limit)
			b, _ := os.ReadFile(ps[1:])
			ps = string(b)
		}
		for _, f := range strings.Split(ps, ",") {
			var v int64
			fmt.Sscan(f, &v)
			picks = append(picks, v)
		}
	}
	var n int64
	var buf [8]byte
	find := os.Getenv("VERIF_SUITE_FIND")
	s.enum(c, c.Thorough(), func(id func() string, obs string) bool {
		if find != "" {
			if id() == find {
				b, _ := json.Marshal(map[string]string{"id": find, "obs": obs})
				w.Write(b)
				return false
			}
			return true
		}
		if picks != nil {
			if len(picks) == 0 {
				return false
			}
			if n == picks[0] {
				b, _ := json.Marshal(map[string]string{"id": id(), "obs": obs, "index": fmt.Sprint(n)})
				w.Write(b)
				w.WriteByte('\n')
				picks = picks[1:]
			}
			n++
			return len(picks) > 0
		}
		binary.LittleEndian.PutUint64(buf[:], fnv64(obs))
		w.Write(buf[:])
		n++
		if n&0xffff == 0 && c.Expired() {
			r.Exhaustive = false
			return false
		}
		return true
	})
	w.Flush()
	out.Close()
	r.Evaluations = n
	return true
}

func readPicks(path string) []map[string]string {
	b, err := os.ReadFile(path)
	if err != nil {
		return nil
	}
	var out []map[string]string
	for _, ln := range strings.Split(string(b), "\n") {
		if strings.TrimSpace(ln) == "" {
			continue
		}
		var m map[string]string
		if json.Unmarshal([]byte(ln), &m) == nil {
			out = append(out, m)
		}
	}
	return out
}

type xcfgSpec struct {
	name string
	env  []string
}

func runSuiteChild(c *ev.Ctx, check, suite string, cfg xcfgSpec, picks string, outPath string) error {
	self, _ := os.Executable()
	cmd := exec.Command(self, check, c.Tier)
	cmd.Env = append(os.Environ(), cfg.env...)
	cmd.Env = append(cmd.Env,
		fmt.Sprintf("VERIF_WORKER=%d/%d", c.Shard, c.NShard), fmt.Sprintf("VERIF_SEED=%d", c.Seed), "VERIF_TIER="+c.Tier,
		fmt.Sprintf("VERIF_DEADLINE_S=%d", int(time.Until(c.Deadline).Seconds())+1),
		"VERIF_SUITE="+suite, "VERIF_SUITE_OUT="+outPath, "VERIF_SUITE_PICKS="+picks)
	devnull, _ := os.OpenFile(os.DevNull, os.O_WRONLY, 0)
	defer devnull.Close()
	cmd.ExtraFiles = []*os.File{devnull}
	b, err := cmd.CombinedOutput()
	if err != nil {
		return fmt.Errorf("%v: %s", err, lastN(string(b), 600))
	}
	return nil
}

// startSuiteChild starts the suite under one configuration; the child streams its digests
// into a pipe (nothing is stored: a thorough suite is ~10^8 cases per worker).
type xstream struct {
	cmd  *exec.Cmd
	pr   *os.File
	rd   *bufio.Reader
	tail *bytes.Buffer
}

func startSuiteChild(c *ev.Ctx, check, suite string, cfg xcfgSpec) (*xstream, error) {
	self, _ := os.Executable()
	pr, pw, err := os.Pipe()
	if err != nil {
		return nil, err
	}
	cmd := exec.Command(self, check, c.Tier)
	cmd.Env = append(os.Environ(), cfg.env...)
	cmd.Env = append(cmd.Env,
		fmt.Sprintf("VERIF_WORKER=%d/%d", c.Shard, c.NShard), fmt.Sprintf("VERIF_SEED=%d", c.Seed), "VERIF_TIER="+c.Tier,
		fmt.Sprintf("VERIF_DEADLINE_S=%d", int(time.Until(c.Deadline).Seconds())+1),
		"VERIF_SUITE="+suite, "VERIF_SUITE_OUT=fd:4", "VERIF_SUITE_PICKS=")
	devnull, _ := os.OpenFile(os.DevNull, os.O_WRONLY, 0)
	defer devnull.Close()
	cmd.ExtraFiles = []*os.File{devnull, pw}
	tail := &bytes.Buffer{}
	cmd.Stdout = tail
	cmd.Stderr = tail
	err = cmd.Start()
	pw.Close()
	if err != nil {
		pr.Close()
		return nil, err
	}
	return &xstream{cmd, pr, bufio.NewReaderSize(pr, 1<<20), tail}, nil
}

// xcompare runs `suite` under every configuration at the same time and compares the digest
// streams in lockstep.
func xcompare(c *ev.Ctx, r *ev.Report, prop, suite string, cfgs []xcfgSpec, keyOf func(id, a, b string) string) {
	dir := filepath.Join(ev.Root, ".build", "run")
	os.MkdirAll(dir, 0o755)
	const maxRegen = 1000000 // (the thorough decode suite meets ~5*10^4 cases of the recorded optdec findings per shard)
	st := make([]*xstream, len(cfgs))
	errs := make([]error, len(cfgs))
	for i := range cfgs {
		st[i], errs[i] = startSuiteChild(c, prop, suite, cfgs[i])
	}
	idxs := make([][]string, len(cfgs))
	mismOf := make([]int, len(cfgs))
	distinct := ev.NewHashSet(27)
	n := 0
	started := true
	for i := range cfgs {
		if st[i] == nil {
			started = false
		}
	}
	if started {
		var buf [8]byte
	lockstep:
		for {
			var a uint64
			for i := range cfgs {
				if _, err := io.ReadFull(st[i].rd, buf[:]); err != nil {
					if i > 0 {
						r.Exhaustive = false // a deadline cut one of them; the common prefix was compared
					} else {
						// stream 0 ended: the others must end here too
						for j := 1; j < len(cfgs); j++ {
							if _, e := io.ReadFull(st[j].rd, buf[:]); e == nil {
								r.Exhaustive = false
							}
						}
					}
					break lockstep
				}
				v := binary.LittleEndian.Uint64(buf[:])
				if i == 0 {
					a = v
					distinct.Add(a)
				} else if v != a {
					mismOf[i]++
					if len(idxs[i]) < maxRegen {
						idxs[i] = append(idxs[i], fmt.Sprint(n))
					}
				}
			}
			n++
		}
	}
	// let every child finish (drain what it still writes), then collect its fate
	for i := range cfgs {
		if st[i] == nil {
			continue
		}
		io.Copy(io.Discard, st[i].rd)
		if err := st[i].cmd.Wait(); err != nil {
			errs[i] = fmt.Errorf("%v: %s", err, lastN(st[i].tail.String(), 600))
		}
		st[i].pr.Close()
	}
	for i := range cfgs {
		if errs[i] != nil && strings.Contains(errs[i].Error(), "signal: killed") {
			// SIGKILL comes from outside the process (the kernel's OOM killer, an operator),
			// never from the code under test: the suite is incomplete, not refuted
			r.Exhaustive = false
			r.Notes = append(r.Notes, fmt.Sprintf("suite %s under %s: the child process was killed from outside (SIGKILL); its shard was not compared", suite, cfgs[i].name))
			return
		}
		if errs[i] != nil {
			r.Violate(ev.Violation{Property: prop, Key: "suite-child-died:" + suite + ":" + cfgs[i].name, What: "the process running the suite under this configuration died",
				Case: ev.J(map[string]string{"suite": suite, "cfg": cfgs[i].name}), Expected: "suite completes", Observed: errs[i].Error()})
			return
		}
	}
	r.Evaluations += int64(n * len(cfgs))
	r.Count("cases_"+suite, int64(n))
	// regeneration of all mismatching cases: one pass per (configuration, side), all passes at
	// the same time (each re-enumerates the suite up to its last pick)
	type regen struct {
		A, B   []map[string]string
		e1, e2 error
	}
	regens := make([]regen, len(cfgs))
	var wg sync.WaitGroup
	for i := 1; i < len(cfgs); i++ {
		if len(idxs[i]) == 0 {
			continue
		}
		pl := filepath.Join(dir, fmt.Sprintf("%s-%s-%d-%d-picks.txt", prop, suite, c.Shard, i))
		os.WriteFile(pl, []byte(strings.Join(idxs[i], ",")), 0o644)
		for side := 0; side < 2; side++ {
			wg.Add(1)
			go func(i, side int) {
				defer wg.Done()
				out := filepath.Join(dir, fmt.Sprintf("%s-%s-%d-%d-pick%d.jsonl", prop, suite, c.Shard, i, side))
				cfg := cfgs[0]
				if side == 1 {
					cfg = cfgs[i]
				}
				e := runSuiteChild(c, prop, suite, cfg, "@"+pl, out)
				got := readPicks(out)
				os.Remove(out)
				if side == 0 {
					regens[i].A, regens[i].e1 = got, e
				} else {
					regens[i].B, regens[i].e2 = got, e
				}
			}(i, side)
		}
	}
	wg.Wait()
	mism := 0
	for i := 1; i < len(cfgs); i++ {
		idx := idxs[i]
		mism += mismOf[i]
		if len(idx) == 0 {
			continue
		}
		os.Remove(filepath.Join(dir, fmt.Sprintf("%s-%s-%d-%d-picks.txt", prop, suite, c.Shard, i)))
		if mismOf[i] > maxRegen {
			r.Notes = append(r.Notes, fmt.Sprintf("suite %s vs %s: %d mismatching cases, only the first %d were regenerated and classified", suite, cfgs[i].name, mismOf[i], maxRegen))
			r.Violate(ev.Violation{Property: prop, Key: cfgs[i].name + ":more-mismatches-than-can-be-classified:" + suite, What: "too many mismatching cases to classify all of them",
				Case: ev.J(map[string]string{"suite": suite, "cfg": cfgs[i].name}), Expected: fmt.Sprintf("<= %d mismatches per shard", maxRegen), Observed: fmt.Sprint(mismOf[i])})
		}
		A, B, e1, e2 := regens[i].A, regens[i].B, regens[i].e1, regens[i].e2
		if e1 != nil || e2 != nil || len(A) != len(idx) || len(B) != len(idx) {
			r.Notes = append(r.Notes, fmt.Sprintf("could not regenerate the %d mismatching cases of suite %s (%v %v %d %d)", len(idx), suite, e1, e2, len(A), len(B)))
			r.Exhaustive = false
			r.Violate(ev.Violation{Property: prop, Key: cfgs[i].name + ":mismatches-could-not-be-regenerated:" + suite, What: "digest mismatch whose cases could not be regenerated",
				Case: ev.J(map[string]string{"suite": suite, "cfg": cfgs[i].name}), Expected: "regeneration", Observed: fmt.Sprint(e1, e2)})
			continue
		}
		for k := range idx {
			if A[k]["id"] != B[k]["id"] {
				r.Violate(ev.Violation{Property: prop, Key: cfgs[i].name + ":suite-enumeration-diverges:" + suite, What: "the two processes enumerate different cases at the same index",
					Case: ev.J(map[string]string{"suite": suite, "cfg": cfgs[i].name}), Expected: A[k]["id"], Observed: B[k]["id"]})
				break
			}
			if A[k]["obs"] == B[k]["obs"] {
				continue // digest of a truncated run; nothing differs
			}
			r.Violate(ev.Violation{Property: prop, Key: cfgs[i].name + ":" + keyOf(A[k]["id"], A[k]["obs"], B[k]["obs"]),
				What:     "observation differs between configuration " + cfgs[0].name + " and " + cfgs[i].name,
				Case:     ev.J(map[string]string{"suite": suite, "cfg": cfgs[i].name, "id": A[k]["id"]}),
				Expected: cfgs[0].name + ": " + clipS(A[k]["obs"], 300), Observed: cfgs[i].name + ": " + clipS(B[k]["obs"], 300)})
		}
	}
	r.Distinct += distinct.Len()
	r.Count("mismatching_cases_"+suite, int64(mism))
}

// ---------------------------------------------------------------------------------------
// suites

func init() {
	dests := c01dests()
	cfgs := c01cfgs()
	// decode: documents x destination types x configs
	xsuites["dec"] = &xsuite{"dec", func(c *ev.Ctx, thorough bool, emit func(func() string, string) bool) {
		stopped := !xfieldCases(c, cfgs[:2], emit)
		if stopped {
			return
		}
		c01docs(c, thorough, func(doc []byte) bool {
			if tailDependent(doc) {
				return true
			}
			for ti := range dests {
				for ci := range cfgs {
					cfg := &cfgs[ci]
					if ci >= 2 && !typeHasNumberIface(dests[ti].T) {
						continue
					}
					obs := c01observe(cfg, dests[ti].T, doc)
					// structurally malformed documents must be rejected under every configuration
					if !lenientValid(doc) && obs != "ERR" && obs != "PANIC" {
						obs = "ACCEPTED-MALFORMED:" + obs
					}
					ti, doc := ti, doc
					if !emit(func() string { return fmt.Sprintf("%s|%s|%x", cfg.name, dests[ti].Name, doc) }, obs) {
						stopped = true
						return false
					}
				}
			}
			return true
		})
	}}
	// decode, as C11 states it: values are compared on VALID documents only; structurally
	// malformed documents must be rejected; documents that are only invalid inside string
	// literals (escapes, control characters, UTF-8) are outside the statement
	xsuites["dec11"] = &xsuite{"dec11", func(c *ev.Ctx, thorough bool, emit func(func() string, string) bool) {
		stopped := !xfieldCases(c, cfgs[:2], emit)
		if stopped {
			return
		}
		c01docs(c, thorough, func(doc []byte) bool {
			valid := json.Valid(doc) && !docFiltered(doc)
			malformed := !lenientValid(doc)
			if (!valid && !malformed) || tailDependent(doc) {
				return true
			}
			for ti := range dests {
				for ci := range cfgs {
					cfg := &cfgs[ci]
					if ci >= 2 && !typeHasNumberIface(dests[ti].T) {
						continue
					}
					obs := c01observe(cfg, dests[ti].T, doc)
					if malformed {
						if obs != "ERR" && obs != "PANIC" {
							obs = "ACCEPTED-MALFORMED"
						}
					}
					ti, doc := ti, doc
					if !emit(func() string { return fmt.Sprintf("%s|%s|%x", cfg.name, dests[ti].Name, doc) }, obs) {
						stopped = true
						return false
					}
				}
			}
			return true
		})
	}}
	// encode: values x all 512 option sets
	xsuites["enc"] = &xsuite{"enc", func(c *ev.Ctx, thorough bool, emit func(func() string, string) bool) {
		encOptSuite(c, thorough, func(cs c04case, t reflect.Type, rv reflect.Value, val interface{}) bool {
			out, err, pan := safeEncode(val, encOpts(cs.Opts))
			obs := string(out)
			if encOpts(cs.Opts)&encoder.SortMapKeys == 0 && t != nil && typeHas(t, func(x reflect.Type) bool { return x.Kind() == reflect.Map || x.Kind() == reflect.Interface }, 0) {
				// Go map iteration order is random without SortMapKeys: compare the byte multiset
				obs = "unordered:" + sortedBytes(out)
			}
			if pan != "" {
				obs = "PANIC"
			} else if err != nil {
				obs = "ERR"
			}
			if pan == "" && (cs.TI >= 0 || strings.HasPrefix(cs.Extra, "long-string")) {
				// and into a fresh 16-byte buffer (every growth step of the output happens inside
				// this one call, whatever earlier cases left in the buffer pool)
				out2, err2, pan2 := freshEncode(val, encOpts(cs.Opts))
				o2 := string(out2)
				if strings.HasPrefix(obs, "unordered:") {
					o2 = sortedBytes(out2)
				}
				if err2 != nil || pan2 != "" {
					obs += fmt.Sprintf("|fresh:ERR,%v", pan2 != "")
				} else {
					obs += fmt.Sprintf("|fresh:%d,%x", len(out2), fnv64(o2))
				}
			}
			return emit(func() string { return string(ev.J(cs)) }, obs)
		})
	}}
	// encode, std config, full type grammar
	xsuites["enc-types"] = &xsuite{"enc-types", func(c *ev.Ctx, thorough bool, emit func(func() string, string) bool) {
		depth := 2
		if thorough {
			depth = 3
		}
		encSuite(c, depth, func(t gen.TypeCase, ti, vi int, addr bool, val interface{}) bool {
			out, err, pan := safeMarshal(sonic.ConfigStd.Marshal, val)
			obs := string(out)
			if pan != "" {
				obs = "PANIC"
			} else if err != nil {
				obs = "ERR"
			}
			return emit(func() string { return string(ev.J(c03case{depth, ti, vi, addr, t.Name})) }, obs)
		})
	}}
	// structural validation through every consuming API
	apis := c02apis()
	xsuites["valid"] = &xsuite{"valid", func(c *ev.Ctx, thorough bool, emit func(func() string, string) bool) {
		obsDoc := func(doc []byte) bool {
			d := append(make([]byte, 0, len(doc)), doc...)
			var b strings.Builder
			for i := range apis {
				ok, judged := apis[i].accept(apis[i].wrap(d))
				if ok {
					b.WriteByte('1')
				} else {
					b.WriteByte('0')
				}
				if judged != nil {
					fmt.Fprintf(&b, "[%d]", len(judged))
				}
			}
			return emit(func() string { return fmt.Sprintf("%x", d) }, b.String())
		}
		n := 4
		if thorough {
			n = 5
		}
		stop := false
		gen.ForEachTok2(gen.TokensSmall, n, c.Mine, func(idx []int, s []byte) bool {
			if !obsDoc(s) {
				stop = true
			}
			return !stop
		})
		if stop {
			return
		}
		for i, s := range c02strata(thorough) {
			if c.Mine(i) {
				if !obsDoc(s) {
					return
				}
			}
		}
	}}
	// native string / number routines: every length and alignment-relevant stratum
	xsuites["native"] = &xsuite{"native", func(c *ev.Ctx, thorough bool, emit func(func() string, string) bool) {
		obsStr := func(s string) bool {
			var b strings.Builder
			b.WriteString(encoder.Quote(s))
			b.WriteByte('|')
			u, e := unquote.String(s)
			fmt.Fprintf(&b, "%q,%v|", u, e == 0)
			b.Write(encoder.HTMLEscape(nil, []byte(s)))
			fmt.Fprintf(&b, "|%v|", sutf8.ValidateString(s))
			b.Write(sutf8.CorrectWith(nil, []byte(s), "?"))
			var str string
			err := sonic.UnmarshalString(`"`+s+`"`, &str)
			fmt.Fprintf(&b, "|%q,%v|", str, err == nil)
			n, err := sonic.GetFromString(`{"k":"`+s+`"}`, "k")
			if err == nil {
				v, e := n.String()
				fmt.Fprintf(&b, "%q,%v", v, e == nil)
			} else {
				b.WriteString("geterr")
			}
			nn := ast.NewRaw(`["` + s + `",1]`)
			r, e2 := nn.Index(0).Raw()
			fmt.Fprintf(&b, "|%q,%v", r, e2 == nil)
			return emit(func() string { return fmt.Sprintf("str:%x", s) }, b.String())
		}
		unit := 0
		payloads := []string{"", `\n`, `\"`, `\\`, `é`, `😀`, `\ud83d`, `\x`, `\`, `"`, "\x01", "\x7f", "<", "&", " ", "é", "\xff", "\xc3", "\xed\xa0\x80", "\xf4\x90\x80\x80"}
		maxL := 136
		for L := 0; L <= maxL; L++ {
			for pi, p := range payloads {
				unit++
				if !c.Mine(unit) {
					continue
				}
				_ = pi
				step := 1
				if !thorough && L > 70 {
					step = 7
				}
				for off := 0; off+len(p) <= L || (off == 0 && len(p) > L); off += step {
					if len(p) > L {
						if !obsStr(p) {
							return
						}
						break
					}
					s := strings.Repeat("a", off) + p + strings.Repeat("a", L-off-len(p))
					if !obsStr(s) {
						return
					}
				}
			}
		}
		// numbers: format every exponent x mantissa pattern, parse literal strata
		obsF := func(bits uint64) bool {
			f := math.Float64frombits(bits)
			o, err := sonic.Marshal(f)
			o32, err32 := sonic.Marshal(math.Float32frombits(uint32(bits >> 32)))
			return emit(func() string { return fmt.Sprintf("f64:%016x", bits) }, fmt.Sprintf("%s,%v|%s,%v", o, err == nil, o32, err32 == nil))
		}
		mant := []uint64{0, 1, 2, 3, 1 << 51, 1<<52 - 1, 0x5555555555555, 0xAAAAAAAAAAAAA, 0x8000000000001, 0x0000100000000}
		for e := uint64(0); e < 2048; e++ {
			unit++
			if !c.Mine(unit) {
				continue
			}
			for _, m := range mant {
				for _, sgn := range []uint64{0, 1 << 63} {
					if !obsF(sgn | e<<52 | m) {
						return
					}
				}
			}
		}
		lits := []string{"0", "-0", "1", "12", "1.5", "1e2", "1E400", "-1e-400", "0.1", "123456789012345678901234567890", "9223372036854775807", "9223372036854775808", "-9223372036854775808",
			"18446744073709551615", "18446744073709551616", "1.7976931348623157e308", "1.7976931348623159e308", "4.9e-324", "2.4e-324", "0.000001", "1e21", "1e-7", "01", "1.", ".5", "-", "1e", "1e+", "+1"}
		for li, l := range lits {
			unit++
			if !c.Mine(unit) {
				continue
			}
			for pad := 0; pad < 40; pad++ {
				doc := strings.Repeat(" ", pad) + l + strings.Repeat(" ", (pad*7)%5)
				if tailDependent([]byte(doc)) {
					doc += " "
				}
				var f float64
				var i64 int64
				var u8 uint8
				var jn json.Number
				var ifc interface{}
				e1 := sonic.UnmarshalString(doc, &f)
				e2 := sonic.UnmarshalString(doc, &i64)
				e3 := sonic.UnmarshalString(doc, &u8)
				e4 := sonic.UnmarshalString(doc, &jn)
				e5 := sonic.UnmarshalString("["+doc+"]", &ifc)
				li, pad := li, pad
				if !emit(func() string { return fmt.Sprintf("num:%d:%d", li, pad) }, fmt.Sprintf("%x,%v|%d,%v|%d,%v|%s,%v|%v,%v", math.Float64bits(f), e1 == nil, i64, e2 == nil, u8, e3 == nil, jn, e4 == nil, ifc, e5 == nil)) {
					return
				}
			}
		}
	}}
}

// xfieldCases: the field-lookup stratum of C01 (wide structs x documents naming each field)
// as suite cases; all its documents are valid JSON.
func xfieldCases(c *ev.Ctx, cfgs []c01cfg, emit func(func() string, string) bool) (completed bool) {
	completed = true
	c01fieldCases(c, func(t gen.TypeCase, doc []byte) bool {
		for ci := range cfgs {
			cfg := &cfgs[ci]
			obs := c01observe(cfg, t.T, doc)
			if !emit(func() string { return fmt.Sprintf("%s|%s|%x", cfg.name, t.Name, doc) }, obs) {
				completed = false
				return false
			}
		}
		return true
	})
	return
}

// tailDependent: the document ends in "-0". The pre-assembled number scanner reads one byte
// past such an input (check_leading_zero in native/scanning.h tests s[i+1] with i+1 == n) and
// the sign of the zero it returns depends on that byte (known finding of C05, where the byte
// is controlled). The entry points used by the cross-configuration suites copy the input to
// the Go heap first, so the byte is whatever the allocator left there and the observation is
// not a function of the case: such documents cannot be compared between two processes.
func tailDependent(doc []byte) bool { return bytes.HasSuffix(doc, []byte("-0")) }

// xkeyShape: the key of a cross-configuration mismatch = shape of the case id + classes of
// the two observations.
func xkeyShape(id, a, b string) string {
	cls := func(o string) string {
		switch {
		case o == "ERR", o == "PANIC":
			return o
		case strings.HasPrefix(o, "ACCEPTED-MALFORMED"):
			return "ACCEPTED-MALFORMED"
		}
		return "value"
	}
	return cls(a) + "-vs-" + cls(b)
}
