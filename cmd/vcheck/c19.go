package main

// C19 "Numbers convert exactly in both directions" — bounded-exhaustive exploration.
//
// PARSE  : literal -> {float64,float32,11 integer kinds,json.Number,interface{} under the three
//          number options, ast accessors}, each in three syntactic contexts (top level, object
//          field, array element) and under ConfigStd / ConfigDefault; oracle encoding/json into the
//          same Go type (+ strconv.ParseFloat bits for float64).
// FORMAT : value -> text through Marshal (top level, field, slice element, boxed in interface{});
//          oracle encoding/json.Marshal byte for byte, then sonic parse-back bit identity.

import (
	"bytes"
	"encoding/json"
	"fmt"
	"hash/fnv"
	"math"
	"math/big"
	"math/bits"
	"os"
	"runtime"
	"runtime/debug"
	"sort"
	"strconv"
	"strings"
	"time"

	"github.com/bytedance/sonic"
	"github.com/bytedance/sonic/ast"

	"verif/internal/ev"
	"verif/internal/gen"
)

// ---------------------------------------------------------------------------------------
// case description (what Replay understands)

type c19case struct {
	Side  string   `json:"side"`            // "parse" | "format"
	Lit   string   `json:"lit,omitempty"`   // parse: the literal
	Dst   string   `json:"dst,omitempty"`   // parse: restrict to one destination ("" = all)
	Kind  string   `json:"kind,omitempty"`  // format: Go kind
	Val   string   `json:"val,omitempty"`   // format: one value (floats: hex bits, integers: decimal)
	Batch []string `json:"batch,omitempty"` // format: a whole slice marshalled in one call
	From  string   `json:"from,omitempty"`  // format: consecutive bit patterns From .. From+Count-1
	Count int      `json:"count,omitempty"`
}

// ---------------------------------------------------------------------------------------
// PARSE side

// c19out is the observable outcome of one conversion.
type c19out struct {
	ok   bool
	tag  byte   // 'f' float64 bits, 'g' float32 bits, 'i' signed, 'u' unsigned, 'n' number text, 'x' anomaly
	bits uint64 //
	text string
}

func (o c19out) String() string {
	if !o.ok {
		return "rejected"
	}
	switch o.tag {
	case 'f':
		return fmt.Sprintf("float64 bits=%016x (%v)", o.bits, math.Float64frombits(o.bits))
	case 'g':
		return fmt.Sprintf("float32 bits=%08x (%v)", o.bits, math.Float32frombits(uint32(o.bits)))
	case 'i':
		return fmt.Sprintf("signed %d", int64(o.bits))
	case 'u':
		return fmt.Sprintf("unsigned %d", o.bits)
	case 'n':
		return fmt.Sprintf("json.Number %q", c19clip(o.text, 80))
	}
	return "anomaly " + o.text
}

func c19clip(s string, n int) string {
	if len(s) > n {
		return s[:n/2] + "..." + s[len(s)-n/2:] + fmt.Sprintf("(len %d)", len(s))
	}
	return s
}

type c19unm func([]byte, interface{}) error

type c19box[T any] struct {
	Q T `json:"q"`
}

const (
	c19top = iota
	c19field
	c19elem
)

var c19ctxName = [3]string{"top", "field", "elem"}

const (
	c19clsF64 = iota
	c19clsF32
	c19clsInt
	c19clsUint
	c19clsNum
	c19clsIface
	c19clsAstCast
)

type c19cfg struct {
	name string
	u    c19unm
}

type c19dst struct {
	name  string
	class int
	isAst bool
	cfgs  []c19cfg
	dec   [3]func(u c19unm, doc []byte) c19out
	// ref computes the reference outcome for a literal json.Valid accepts
	ref   func(d *c19dst, lit string, t *c19truth) c19out
	fbits int // 64 / 32: the conversion is a float conversion of that width
}

func c19typed[T any](name string, class int, conv func(*T) c19out) *c19dst {
	d := &c19dst{name: name, class: class}
	d.dec[c19top] = func(u c19unm, doc []byte) c19out {
		var v T
		if u(doc, &v) != nil {
			return c19out{}
		}
		return conv(&v)
	}
	d.dec[c19field] = func(u c19unm, doc []byte) c19out {
		var v c19box[T]
		if u(doc, &v) != nil {
			return c19out{}
		}
		return conv(&v.Q)
	}
	d.dec[c19elem] = func(u c19unm, doc []byte) c19out {
		var v []T
		if u(doc, &v) != nil {
			return c19out{}
		}
		if len(v) != 1 {
			return c19out{ok: true, tag: 'x', text: fmt.Sprintf("slice of length %d", len(v))}
		}
		return conv(&v[0])
	}
	d.ref = func(d *c19dst, lit string, t *c19truth) c19out { return d.dec[c19top](json.Unmarshal, []byte(lit)) }
	return d
}

type c19sint interface {
	~int | ~int8 | ~int16 | ~int32 | ~int64
}
type c19uint interface {
	~uint | ~uint8 | ~uint16 | ~uint32 | ~uint64 | ~uintptr
}

func c19signed[T c19sint](name string) *c19dst {
	return c19typed[T](name, c19clsInt, func(p *T) c19out { return c19out{ok: true, tag: 'i', bits: uint64(int64(*p))} })
}
func c19unsigned[T c19uint](name string) *c19dst {
	return c19typed[T](name, c19clsUint, func(p *T) c19out { return c19out{ok: true, tag: 'u', bits: uint64(*p)} })
}

func c19ifaceOut(p *interface{}) c19out {
	switch x := (*p).(type) {
	case float64:
		return c19out{ok: true, tag: 'f', bits: math.Float64bits(x)}
	case int64:
		return c19out{ok: true, tag: 'i', bits: uint64(x)}
	case json.Number:
		return c19out{ok: true, tag: 'n', text: strings.Clone(string(x))}
	default:
		return c19out{ok: true, tag: 'x', text: fmt.Sprintf("dynamic type %T", x)}
	}
}

func c19astDst(name string, class int, acc func(n *ast.Node) c19out, ref func(d *c19dst, lit string, t *c19truth) c19out) *c19dst {
	d := &c19dst{name: name, class: class, isAst: true, ref: ref, cfgs: []c19cfg{{"get", nil}}}
	for ctx := 0; ctx < 3; ctx++ {
		ctx := ctx
		d.dec[ctx] = func(_ c19unm, doc []byte) c19out {
			var n ast.Node
			var err error
			switch ctx {
			case c19top:
				n, err = sonic.Get(doc)
			case c19field:
				n, err = sonic.Get(doc, "q")
			default:
				n, err = sonic.Get(doc, 0)
			}
			if err != nil {
				return c19out{}
			}
			return acc(&n)
		}
	}
	return d
}

type c19env struct {
	dsts       []*c19dst
	byName     map[string]int
	all        uint64
	floaty     uint64 // destinations used for the long rounding-boundary literals
	floatyLite uint64 // quick: the same, without the destinations sharing interface{}'s conversion routine
	inty       uint64 // destinations used for the extra spellings of the dense integer range (quick)
}

func c19refF64(lit string) c19out {
	f, err := strconv.ParseFloat(lit, 64)
	if err != nil {
		return c19out{}
	}
	return c19out{ok: true, tag: 'f', bits: math.Float64bits(f)}
}

func c19refF32(lit string) c19out {
	f, err := strconv.ParseFloat(lit, 32)
	if err != nil {
		return c19out{}
	}
	return c19out{ok: true, tag: 'g', bits: uint64(math.Float32bits(float32(f)))}
}

// c19truth: the float references of one literal. s64/s32 are strconv.ParseFloat (what the
// property names); f64/f32 are the correctly rounded values computed exactly with math/big.Rat
// whenever that is feasible (|exponent| < 10000). They coincide except where strconv itself is
// not correctly rounded (Go's 800-digit decimal buffer miscounts integer parts longer than 800
// digits when the fast paths bail out); there sonic is judged against the exact value and the
// failure class says so.
type c19truth struct {
	f64, f32 c19out
	s64, s32 c19out
	exact    bool
}

func (t *c19truth) fill(lit string) {
	t.s64, t.s32 = c19refF64(lit), c19refF32(lit)
	t.f64, t.f32 = t.s64, t.s32
	if i := strings.IndexAny(lit, "eE"); i >= 0 {
		if len(strings.TrimLeft(strings.TrimLeft(lit[i+1:], "+-"), "0")) > 4 {
			return
		}
	}
	if len(lit) > 6000 {
		return
	}
	r, ok := new(big.Rat).SetString(lit)
	if !ok {
		return
	}
	t.exact = true
	if r.Sign() == 0 {
		t.f64, t.f32 = c19out{ok: true, tag: 'f'}, c19out{ok: true, tag: 'g'}
		if lit[0] == '-' {
			t.f64.bits, t.f32.bits = 1<<63, 1<<31
		}
		return
	}
	if f, _ := r.Float64(); math.IsInf(f, 0) {
		t.f64 = c19out{}
	} else {
		t.f64 = c19out{ok: true, tag: 'f', bits: math.Float64bits(f)}
	}
	if f, _ := r.Float32(); math.IsInf(float64(f), 0) {
		t.f32 = c19out{}
	} else {
		t.f32 = c19out{ok: true, tag: 'g', bits: uint64(math.Float32bits(f))}
	}
}

func c19isIntSyntax(lit string) bool { return !strings.ContainsAny(lit, ".eE") }

func c19newEnv() *c19env {
	std := c19cfg{"std", sonic.ConfigStd.Unmarshal}
	def := c19cfg{"default", sonic.ConfigDefault.Unmarshal}
	num := c19cfg{"UseNumber", sonic.Config{UseNumber: true}.Froze().Unmarshal}
	i64 := c19cfg{"UseInt64", sonic.Config{UseInt64: true}.Froze().Unmarshal}
	both := []c19cfg{std, def}

	e := &c19env{byName: map[string]int{}}
	add := func(d *c19dst, cfgs []c19cfg) *c19dst {
		if cfgs != nil {
			d.cfgs = cfgs
		}
		e.byName[d.name] = len(e.dsts)
		e.dsts = append(e.dsts, d)
		return d
	}
	f64 := add(c19typed[float64]("float64", c19clsF64, func(p *float64) c19out {
		return c19out{ok: true, tag: 'f', bits: math.Float64bits(*p)}
	}), both)
	// float64: the property names strconv.ParseFloat as the oracle; encoding/json is cross-checked
	// against it in evalLit.
	f64.ref = func(d *c19dst, lit string, t *c19truth) c19out { return t.f64 }
	f64.fbits = 64
	f32 := add(c19typed[float32]("float32", c19clsF32, func(p *float32) c19out {
		return c19out{ok: true, tag: 'g', bits: uint64(math.Float32bits(*p))}
	}), both)
	f32.ref = func(d *c19dst, lit string, t *c19truth) c19out { return t.f32 }
	f32.fbits = 32
	add(c19signed[int]("int"), both)
	add(c19signed[int8]("int8"), both)
	add(c19signed[int16]("int16"), both)
	add(c19signed[int32]("int32"), both)
	add(c19signed[int64]("int64"), both)
	add(c19unsigned[uint]("uint"), both)
	add(c19unsigned[uint8]("uint8"), both)
	add(c19unsigned[uint16]("uint16"), both)
	add(c19unsigned[uint32]("uint32"), both)
	add(c19unsigned[uint64]("uint64"), both)
	add(c19unsigned[uintptr]("uintptr"), both)
	add(c19typed[json.Number]("json.Number", c19clsNum, func(p *json.Number) c19out {
		return c19out{ok: true, tag: 'n', text: strings.Clone(string(*p))}
	}), both)
	ifc := add(c19typed[interface{}]("interface", c19clsIface, c19ifaceOut), both)
	ifc.ref = func(d *c19dst, lit string, t *c19truth) c19out { return t.f64 }
	ifc.fbits = 64
	un := add(c19typed[interface{}]("interface+UseNumber", c19clsIface, c19ifaceOut), []c19cfg{num})
	un.ref = func(d *c19dst, lit string, t *c19truth) c19out {
		dec := json.NewDecoder(bytes.NewReader([]byte(lit)))
		dec.UseNumber()
		var v interface{}
		if dec.Decode(&v) != nil {
			return c19out{}
		}
		return c19ifaceOut(&v)
	}
	ui := add(c19typed[interface{}]("interface+UseInt64", c19clsIface, c19ifaceOut), []c19cfg{i64})
	// UseInt64 has no encoding/json counterpart: "an integer is unmarshalled as int64 instead of
	// float64" -> integer syntax that fits int64 gives int64 exactly, everything else is float64.
	ui.ref = func(d *c19dst, lit string, t *c19truth) c19out {
		if c19isIntSyntax(lit) {
			if v, err := strconv.ParseInt(lit, 10, 64); err == nil {
				return c19out{ok: true, tag: 'i', bits: uint64(v)}
			}
		}
		return t.f64
	}
	ui.fbits = 64
	// ---- ast path
	add(c19astDst("ast.Float64", c19clsF64, func(n *ast.Node) c19out {
		f, err := n.Float64()
		if err != nil {
			return c19out{}
		}
		return c19out{ok: true, tag: 'f', bits: math.Float64bits(f)}
	}, func(d *c19dst, lit string, t *c19truth) c19out { return t.f64 }), nil).fbits = 64
	add(c19astDst("ast.StrictInt64", c19clsInt, func(n *ast.Node) c19out {
		v, err := n.StrictInt64()
		if err != nil {
			return c19out{}
		}
		return c19out{ok: true, tag: 'i', bits: uint64(v)}
	}, func(d *c19dst, lit string, t *c19truth) c19out {
		var v int64
		if json.Unmarshal([]byte(lit), &v) != nil {
			return c19out{}
		}
		return c19out{ok: true, tag: 'i', bits: uint64(v)}
	}), nil)
	// Node.Int64 is documented as a *cast*: an integer literal gives its value, any other number
	// the truncation of its float64 value. The tolerated difference is encoded here: truncation
	// is accepted, but a value outside int64 cannot be represented and must be an error.
	add(c19astDst("ast.Int64", c19clsAstCast, func(n *ast.Node) c19out {
		v, err := n.Int64()
		if err != nil {
			return c19out{}
		}
		return c19out{ok: true, tag: 'i', bits: uint64(v)}
	}, func(d *c19dst, lit string, t *c19truth) c19out {
		if v, err := strconv.ParseInt(lit, 10, 64); err == nil {
			return c19out{ok: true, tag: 'i', bits: uint64(v)}
		}
		if !t.f64.ok {
			return c19out{}
		}
		tr := math.Trunc(math.Float64frombits(t.f64.bits))
		if tr >= -9223372036854775808.0 && tr < 9223372036854775808.0 {
			return c19out{ok: true, tag: 'i', bits: uint64(int64(tr))}
		}
		return c19out{}
	}), nil)
	add(c19astDst("ast.Number", c19clsNum, func(n *ast.Node) c19out {
		v, err := n.Number()
		if err != nil {
			return c19out{}
		}
		return c19out{ok: true, tag: 'n', text: strings.Clone(string(v))}
	}, func(d *c19dst, lit string, t *c19truth) c19out { return c19out{ok: true, tag: 'n', text: lit} }), nil)
	add(c19astDst("ast.Interface", c19clsIface, func(n *ast.Node) c19out {
		v, err := n.Interface()
		if err != nil {
			return c19out{}
		}
		return c19ifaceOut(&v)
	}, func(d *c19dst, lit string, t *c19truth) c19out { return t.f64 }), nil).fbits = 64
	add(c19astDst("ast.InterfaceUseNumber", c19clsIface, func(n *ast.Node) c19out {
		v, err := n.InterfaceUseNumber()
		if err != nil {
			return c19out{}
		}
		return c19ifaceOut(&v)
	}, func(d *c19dst, lit string, t *c19truth) c19out { return c19out{ok: true, tag: 'n', text: lit} }), nil)

	e.all = 1<<uint(len(e.dsts)) - 1
	for _, n := range []string{"float64", "float32", "json.Number", "interface", "interface+UseInt64", "ast.Float64", "ast.Interface"} {
		e.floaty |= 1 << uint(e.byName[n])
	}
	for _, n := range []string{"float64", "float32", "json.Number", "interface", "ast.Float64"} {
		e.floatyLite |= 1 << uint(e.byName[n])
	}
	for _, n := range []string{"float64", "int", "int8", "int16", "int32", "int64", "uint", "uint8", "uint16", "uint32", "uint64", "uintptr", "ast.StrictInt64"} {
		e.inty |= 1 << uint(e.byName[n])
	}
	return e
}

func c19wrap(ctx int, lit string) []byte {
	switch ctx {
	case c19top:
		return append(make([]byte, 0, len(lit)), lit...)
	case c19field:
		b := make([]byte, 0, len(lit)+6)
		b = append(b, `{"q":`...)
		b = append(b, lit...)
		return append(b, '}')
	default:
		b := make([]byte, 0, len(lit)+2)
		b = append(b, '[')
		b = append(b, lit...)
		return append(b, ']')
	}
}

// c19validNumber: the literal is a JSON number (json.Valid alone also accepts surrounding
// blanks and other value kinds).
func c19validNumber(lit string) bool {
	if lit == "" || !(lit[0] == '-' || lit[0] >= '0' && lit[0] <= '9') {
		return false
	}
	c := lit[len(lit)-1]
	if c < '0' || c > '9' {
		return false
	}
	return json.Valid([]byte(lit))
}

func c19hasValidPrefix(lit string) bool {
	for i := 1; i < len(lit); i++ {
		if c19validNumber(lit[:i]) {
			return true
		}
	}
	return false
}

// c19shape abstracts a malformed literal: digit runs -> d (0d when the run has a superfluous
// leading zero).
func c19shape(lit string) string {
	var b strings.Builder
	for i := 0; i < len(lit) && b.Len() < 24; {
		c := lit[i]
		if c >= '0' && c <= '9' {
			j := i
			for j < len(lit) && lit[j] >= '0' && lit[j] <= '9' {
				j++
			}
			if c == '0' && j-i > 1 && (i == 0 || (i == 1 && lit[0] == '-')) {
				b.WriteString("0d")
			} else {
				b.WriteByte('d')
			}
			i = j
			continue
		}
		b.WriteByte(c)
		i++
	}
	return b.String()
}

// c19litClass: a coarse class of a well-formed literal (keeps distinct defects apart).
func c19litClass(lit string) string {
	mant := lit
	form := "int"
	if i := strings.IndexAny(lit, "eE"); i >= 0 {
		mant = lit[:i]
		form = "exp"
	} else if strings.Contains(lit, ".") {
		form = "frac"
	}
	digs := strings.TrimLeft(strings.NewReplacer("-", "", ".", "").Replace(mant), "0")
	sig := "sig<=19"
	switch {
	case len(digs) == 0:
		sig = "zero"
	case len(digs) > 800:
		sig = "sig>800"
	case len(digs) > 19:
		sig = "sig20-800"
	}
	mag := ""
	if f, err := strconv.ParseFloat(lit, 64); err == nil {
		a := math.Abs(f)
		switch {
		case a != 0 && a < 2.2250738585072014e-308:
			mag = ":subnormal"
		case a == 0 && len(digs) != 0:
			mag = ":underflow"
		}
	} else {
		mag = ":overflow"
	}
	return form + ":" + sig + mag
}

// c19longClass: literals whose integer part has more digits than the 800-digit decimal buffer
// of strconv (and of sonic's port of it) are one class; anything else falls back to c19litClass.
func c19longClass(lit string) string {
	m := strings.TrimLeft(strings.TrimPrefix(lit, "-"), "0")
	if i := strings.IndexAny(m, ".eE"); i >= 0 {
		m = m[:i]
	}
	if len(m) > 800 {
		return "more-than-800-integer-digits"
	}
	return c19litClass(lit)
}

func c19isNegZero(lit string) bool {
	if lit == "" || lit[0] != '-' {
		return false
	}
	f, err := strconv.ParseFloat(lit, 64)
	return err == nil && f == 0
}

func c19classify(d *c19dst, lit string, valid bool, ref, got c19out, t *c19truth) string {
	if t != nil && t.exact && d.fbits != 0 && ref.tag != 'i' && got.tag != 'i' {
		// the literal is one where strconv is not correctly rounded and sonic agrees with strconv
		std, exact := t.s64, t.f64
		if d.fbits == 32 {
			std, exact = t.s32, t.f32
		}
		if std != exact && got == std {
			return "not-correctly-rounded-but-same-as-strconv:" + c19longClass(lit)
		}
	}
	if t != nil && t.exact && d.class == c19clsAstCast && t.s64 != t.f64 {
		return "cast-of-strconv-value-that-is-not-correctly-rounded:" + c19longClass(lit)
	}
	switch {
	case ref.ok && !got.ok:
		if d.class == c19clsF32 {
			if f, err := strconv.ParseFloat(lit, 64); err == nil && math.Abs(f) > math.MaxFloat32 {
				return "rejects-valid:above-maxfloat32-below-rounding-midpoint"
			}
		}
		if _, err := strconv.ParseFloat(lit, 64); err != nil {
			// only possible where no float64 conversion is called for (json.Number, UseNumber)
			return "rejects-valid:literal-overflows-float64"
		}
		return "rejects-valid:" + c19litClass(lit)
	case !ref.ok && got.ok:
		if !valid {
			return "accepts-malformed-literal:" + c19shape(lit)
		}
		switch d.class {
		case c19clsInt, c19clsUint:
			if !c19isIntSyntax(lit) {
				return "accepts-non-integer"
			}
			if d.class == c19clsUint && lit[0] == '-' {
				if c19isNegZero(lit) {
					return "accepts-minus-zero"
				}
				return "accepts-negative"
			}
			return "accepts-out-of-range"
		case c19clsAstCast:
			return "out-of-range-not-rejected"
		}
		return "accepts-out-of-range:" + c19litClass(lit)
	}
	if ref.tag != got.tag {
		return fmt.Sprintf("wrong-dynamic-type:%c-for-%c", got.tag, ref.tag)
	}
	switch ref.tag {
	case 'f', 'g':
		sign := uint64(1) << 63
		if ref.tag == 'g' {
			sign = 1 << 31
		}
		if ref.bits&^sign == 0 && got.bits&^sign == 0 {
			return "wrong-bits:sign-of-zero"
		}
		if ref.tag == 'g' {
			if f, err := strconv.ParseFloat(lit, 64); err == nil && uint64(math.Float32bits(float32(f))) == got.bits {
				return "wrong-bits:double-rounding-via-float64"
			}
		}
		diff := int64(ref.bits) - int64(got.bits)
		if diff == 1 || diff == -1 {
			return "wrong-bits:off-by-one-ulp:" + c19litClass(lit)
		}
		return "wrong-bits:far:" + c19litClass(lit)
	case 'i', 'u':
		if d.class == c19clsAstCast && !c19isIntSyntax(lit) {
			return "wrong-value:cast"
		}
		return "wrong-value"
	case 'n':
		return "text-changed"
	}
	return "anomaly"
}

type c19stats struct {
	evals           int64
	outcomes        map[string]bool
	stdWrong        int64
	stdWrongClasses map[string]bool
}

// evalLit runs one literal through the destinations in mask and returns the violations
// (one per literal × destination × failure class).
func (e *c19env) evalLit(lit string, mask uint64, lite bool, st *c19stats) []ev.Violation {
	var out []ev.Violation
	valid := c19validNumber(lit)
	var docs [3][]byte
	for ctx := range docs {
		docs[ctx] = c19wrap(ctx, lit)
	}
	prefixKnown, prefix := false, false
	var truth c19truth
	if valid {
		truth.fill(lit)
	}
	for di, d := range e.dsts {
		if mask&(1<<uint(di)) == 0 {
			continue
		}
		nctx := 3
		cfgs := d.cfgs
		ctxs := [3]int{c19top, c19field, c19elem}
		if lite {
			// long rounding-boundary literals (each conversion costs 20-100 us): first config,
			// top level and array element only
			cfgs, nctx, ctxs = d.cfgs[:1], 2, [3]int{c19top, c19elem, 0}
		}
		if d.isAst && !valid {
			// structural acceptance of Get is C02's subject (known: Get parses one value and
			// ignores what follows); only literals with no well-formed prefix are judged here.
			if !prefixKnown {
				prefixKnown, prefix = true, c19hasValidPrefix(lit)
			}
			if prefix {
				continue
			}
			nctx = 1
		}
		var ref c19out
		if valid {
			ref = d.ref(d, lit, &truth)
			if (di == 0 && truth.s64 != truth.f64) || (di == 1 && truth.s32 != truth.f32) {
				if st != nil {
					st.stdWrong++
					if st.stdWrongClasses != nil {
						st.stdWrongClasses[d.name+":"+c19litClass(lit)] = true
					}
				}
			}
			if di <= 1 {
				// cross-check the two references named by the property
				sref := truth.s64
				if di == 1 {
					sref = truth.s32
				}
				if j := d.dec[c19top](json.Unmarshal, []byte(lit)); j != sref {
					out = append(out, ev.Violation{Property: "C19", Key: "oracle:encoding-json-differs-from-strconv",
						What: "reference disagreement (a mistake of the check, not of sonic)", Case: ev.J(c19case{Side: "parse", Lit: lit, Dst: d.name}),
						Expected: sref.String(), Observed: j.String()})
				}
			}
		}
		if st != nil && st.outcomes != nil {
			o := "accept"
			if !valid {
				o = "reject-syntax"
			} else if !ref.ok {
				o = "reject-semantic"
			}
			st.outcomes[d.name+":"+o] = true
		}
		type fail struct {
			class string
			got   c19out
			hit   [4][3]bool // [cfg][ctx]
			n     int
		}
		var fails []fail
		for ci := range cfgs {
			cf := &cfgs[ci]
			for _, ctx := range ctxs[:nctx] {
				got := d.dec[ctx](cf.u, docs[ctx])
				if st != nil {
					st.evals++
				}
				if got == ref {
					continue
				}
				cl := c19classify(d, lit, valid, ref, got, &truth)
				k := -1
				for i := range fails {
					if fails[i].class == cl {
						k = i
					}
				}
				if k < 0 {
					fails = append(fails, fail{class: cl, got: got})
					k = len(fails) - 1
				}
				fails[k].hit[ci][ctx] = true
				fails[k].n++
			}
		}
		for _, f := range fails {
			// where: "all" when every (config, context) combination fails; "ctx=a+b" when the
			// failing set is {all configs} x {a,b}; otherwise the explicit combinations
			where := "all"
			if f.n != len(cfgs)*nctx {
				var cs, combos []string
				product := true
				for _, ctx := range ctxs[:nctx] {
					cnt := 0
					for ci := range cfgs {
						if f.hit[ci][ctx] {
							cnt++
							combos = append(combos, cfgs[ci].name+"/"+c19ctxName[ctx])
						}
					}
					if cnt == len(cfgs) {
						cs = append(cs, c19ctxName[ctx])
					} else if cnt != 0 {
						product = false
					}
				}
				if product {
					where = "ctx=" + strings.Join(cs, "+")
				} else {
					where = "at=" + strings.Join(combos, "+")
				}
			}
			refNote := " (encoding/json / strconv)"
			if strings.Contains(f.class, "strconv") {
				refNote = fmt.Sprintf(" (exact value rounded with math/big; strconv.ParseFloat gives %v / %v)", truth.s64, truth.s32)
			}
			key := "parse:" + d.name + ":" + f.class + ":" + where
			if f.class == "wrong-bits:sign-of-zero" {
				// at top level the native scanner looks one byte past "-0": which combinations
				// fail depends on what lies behind the input (C05's subject), so not part of the key
				key = "parse:" + d.name + ":" + f.class
			}
			out = append(out, ev.Violation{Property: "C19", Key: key,
				What:     fmt.Sprintf("literal %s into %s: %s (failing config/context combinations: %s)", c19clip(lit, 60), d.name, f.class, where),
				Case:     ev.J(c19case{Side: "parse", Lit: lit, Dst: d.name}),
				Expected: ref.String() + refNote, Observed: f.got.String()})
		}
	}
	for ctx := range docs {
		if !bytes.Equal(docs[ctx], c19wrap(ctx, lit)) {
			out = append(out, ev.Violation{Property: "C19", Key: "parse:input-buffer-modified:ctx=" + c19ctxName[ctx],
				What: "the input buffer was modified while decoding a number", Case: ev.J(c19case{Side: "parse", Lit: lit}),
				Expected: c19clip(string(c19wrap(ctx, lit)), 80), Observed: c19clip(string(docs[ctx]), 80)})
		}
	}
	return out
}

// ---- space (ii): boundary integers and their spellings

func c19boundaryInts(small int) []*big.Int {
	seen := map[string]bool{}
	var out []*big.Int
	add := func(n *big.Int) {
		s := n.String()
		if !seen[s] {
			seen[s] = true
			out = append(out, new(big.Int).Set(n))
		}
	}
	for i := -small; i <= small; i++ {
		add(big.NewInt(int64(i)))
	}
	around := func(p *big.Int) {
		for d := int64(-2); d <= 2; d++ {
			v := new(big.Int).Add(p, big.NewInt(d))
			add(v)
			add(new(big.Int).Neg(v))
		}
	}
	for k := 0; k <= 65; k++ {
		around(new(big.Int).Lsh(big.NewInt(1), uint(k)))
	}
	for _, k := range []int{127, 128, 1023, 1024} {
		around(new(big.Int).Lsh(big.NewInt(1), uint(k)))
	}
	ten := big.NewInt(10)
	for _, k := range []int{0, 1, 2, 3, 4, 5, 6, 7, 8, 9, 10, 11, 12, 13, 14, 15, 16, 17, 18, 19, 20, 21, 22, 23, 24, 25, 30, 38, 39, 40, 100, 308, 309, 400} {
		around(new(big.Int).Exp(ten, big.NewInt(int64(k)), nil))
	}
	return out
}

func c19spellings(n *big.Int) []string {
	s := n.String()
	sign, a := "", s
	if s[0] == '-' {
		sign, a = "-", s[1:]
	}
	out := []string{s, s + ".0", s + ".00", s + "e0", s + "E+0", s + "e-0", s + "0e-1", s + ".5", sign + "0" + a, "+" + a, s + ".", s + "e"}
	if len(a) >= 2 {
		out = append(out, sign+a[:len(a)-1]+"."+a[len(a)-1:]+"E+1")
	} else {
		out = append(out, sign+"0."+a+"E+1")
	}
	if n.Sign() == 0 {
		out = append(out, "-0", "-0.0", "-0e0", "-0E+1", "-00", "-0.", "0e5", "-0e-5", "0.0e400", "-0e400")
	}
	return out
}

// ---- space (iii): rounding boundaries, built exactly

// c19boundaryDigits returns the exact decimal expansion D·10^dexp of the midpoint between
// the binary float n·2^q and its successor (n+1)·2^q.
func c19boundaryDigits(n *big.Int, q int) (*big.Int, int) {
	N := new(big.Int).Lsh(n, 1)
	N.Add(N, big.NewInt(1))
	q--
	if q >= 0 {
		return N.Lsh(N, uint(q)), 0
	}
	p := new(big.Int).Exp(big.NewInt(5), big.NewInt(int64(-q)), nil)
	return N.Mul(N, p), q
}

var c19truncK = []int{17, 19, 20, 770, 799, 800, 801, 1100}
var c19truncK32 = []int{8, 9, 10, 17, 19, 20, 770, 800, 801}
var c19truncKReduced = []int{19, 800, 801}

// c19boundaryLits emits the literals around one rounding boundary.
func c19boundaryLits(D *big.Int, dexp int, ks []int, positional bool, reduced bool, emit func(string)) {
	spell := func(s string, dexp int, neg bool) {
		sg := ""
		if neg {
			sg = "-"
		}
		sci := sg + s[:1]
		if len(s) > 1 {
			sci += "." + s[1:]
		}
		emit(sci + "e" + strconv.Itoa(dexp+len(s)-1))
		if reduced {
			return
		}
		if dexp == 0 {
			emit(sg + s)
		} else {
			emit(sg + s + "E" + strconv.Itoa(dexp))
		}
		if positional && dexp < 0 && !neg {
			if -dexp >= len(s) {
				emit("0." + strings.Repeat("0", -dexp-len(s)) + s)
			} else {
				emit(s[:len(s)+dexp] + "." + s[len(s)+dexp:])
			}
		}
	}
	s := D.String()
	one := big.NewInt(1)
	up := new(big.Int).Add(D, one).String()
	down := new(big.Int).Sub(D, one).String()
	for _, neg := range []bool{false, true} {
		spell(s, dexp, neg)
		if neg && reduced {
			break
		}
		spell(up, dexp, neg)
		if down != "0" {
			spell(down, dexp, neg)
		}
	}
	for _, k := range ks {
		switch {
		case k < len(s):
			t := s[:k]
			spell(t, dexp+len(s)-k, false) // truncated: below the boundary
			tv, _ := new(big.Int).SetString(t, 10)
			spell(tv.Add(tv, one).String(), dexp+len(s)-k, false) // above it
		case k > len(s):
			pad := k - len(s)
			spell(s+strings.Repeat("0", pad), dexp-pad, false)       // the boundary itself, longer
			spell(s+strings.Repeat("0", pad-1)+"1", dexp-pad, false) // a hair above
			if down != "0" {
				spell(down+strings.Repeat("9", pad), dexp-pad, false) // a hair below
			}
		}
	}
}

// ---- space (iv): exponent / digit-count extremes

func c19extremes() []string {
	var out []string
	ks := []int{1, 10, 18, 19, 20, 22, 23, 100, 308, 309, 323, 324, 400, 799, 800, 801, 1100}
	mants := []string{"0", "-0", "1", "-1", "0.1", "1.5", "9007199254740993", "0.0", "1.7976931348623157", "1.7976931348623159", "4.9", "2.4703282292062327", "2.4703282292062328", "2.2250738585072011", "2.2250738585072014"}
	for _, k := range ks {
		mants = append(mants, "1"+strings.Repeat("0", k), "0."+strings.Repeat("0", k)+"1", strings.Repeat("9", k), "0."+strings.Repeat("9", k))
	}
	exps := []string{"", "e0", "e1", "e-1", "e22", "e23", "e-22", "e-23", "e37", "e38", "e39", "e-45", "e-46", "e307", "e308", "e309", "e-307", "e-308", "e-309",
		"e-323", "e-324", "e-325", "e400", "e-400", "e1000", "e-1000", "e9999", "e10000", "e-10000", "e99999", "e2147483647", "e2147483648", "e-2147483648", "e-2147483649",
		"e4294967296", "e4294967297", "e-4294967297", "e9223372036854775807", "e9223372036854775808", "e-9223372036854775809", "e18446744073709551616", "e18446744073709551617",
		"e-18446744073709551617", "e99999999999999999999999", "e-99999999999999999999999", "E+308", "E+0000000000000000000000308", "e-0000000000000000000000000000324", "e+00", "E-00"}
	for _, m := range mants {
		for _, x := range exps {
			out = append(out, m+x)
		}
	}
	// digit runs and exponents that cancel: the value is exactly 1 (or 1e±3)
	for k := 0; k <= 1200; k++ {
		out = append(out, "1"+strings.Repeat("0", k)+"e-"+strconv.Itoa(k))
		out = append(out, "0."+strings.Repeat("0", k)+"1e"+strconv.Itoa(k+1))
		out = append(out, "1"+strings.Repeat("0", k)+"."+strings.Repeat("0", k%7)+"E-"+strconv.Itoa(k+3))
	}
	return out
}

// ---------------------------------------------------------------------------------------
// FORMAT side

type c19fk[T comparable] struct {
	name      string
	desc      func(T) string
	from      func(string) (T, bool)
	same      func(a, b T) bool
	key       func(T) uint64
	zero      func(T) bool // the value is a (signed) zero
	bytesLike bool         // []T marshals as base64 (uint8)
	// backClass refines the class of a parse-back difference (text read back as b instead of v)
	backClass func(text []byte, v, b T) string
}

// c19stdFloat replicates encoding/json's floatEncoder on top of strconv (validated against
// json.Marshal on every pattern-set value; used alone only in the 2^32 sweep).
func c19stdFloat(b []byte, f float64, bitSize int) []byte {
	abs := math.Abs(f)
	fm := byte('f')
	if abs != 0 {
		if bitSize == 64 && (abs < 1e-6 || abs >= 1e21) || bitSize == 32 && (float32(abs) < 1e-6 || float32(abs) >= 1e21) {
			fm = 'e'
		}
	}
	b = strconv.AppendFloat(b, f, fm, -1, bitSize)
	if fm == 'e' {
		n := len(b)
		if n >= 4 && b[n-4] == 'e' && b[n-3] == '-' && b[n-2] == '0' {
			b[n-2] = b[n-1]
			b = b[:n-1]
		}
	}
	return b
}

func c19fmtClass(want, got []byte) string {
	we, ge := bytes.IndexByte(want, 'e') >= 0, bytes.IndexByte(got, 'e') >= 0
	switch {
	case we != ge:
		return "differs-from-encoding-json:notation"
	case len(want) > 0 && len(got) > 0 && (want[0] == '-') != (got[0] == '-'):
		return "differs-from-encoding-json:sign"
	case len(want) != len(got):
		return "differs-from-encoding-json:digit-count"
	}
	return "differs-from-encoding-json:digits"
}

// c19fmtOne judges ONE value through every format entry point (also the replay function).
func c19fmtOne[T comparable](k *c19fk[T], v T, evals *int64) []ev.Violation {
	want, werr := json.Marshal(v)
	type res struct {
		name string
		got  []byte
		err  error
		want []byte
		werr error
	}
	var rs []res
	// every entry point is compared with encoding/json.Marshal of the SAME Go value (so that
	// e.g. []uint8 is base64 on both sides)
	run := func(name string, x interface{}, f func(interface{}) ([]byte, error)) {
		g, err := f(x)
		*evals++
		w, werr := want, werr
		if name != "std/top" && name != "default/top" {
			w, werr = json.Marshal(x)
		}
		rs = append(rs, res{name, g, err, w, werr})
	}
	run("std/top", v, sonic.ConfigStd.Marshal)
	run("default/top", v, sonic.Marshal)
	run("std/field", c19box[T]{v}, sonic.ConfigStd.Marshal)
	run("default/field", &c19box[T]{v}, sonic.Marshal)
	run("std/elem", []T{v}, sonic.ConfigStd.Marshal)
	run("std/boxed", []interface{}{v}, sonic.ConfigStd.Marshal)
	run("default/map", map[string]T{"q": v}, sonic.Marshal)
	byClass := map[string][]string{}
	obs := map[string]string{}
	note := func(cl, where, o string) {
		byClass[cl] = append(byClass[cl], where)
		if _, ok := obs[cl]; !ok {
			obs[cl] = o
		}
	}
	for _, x := range rs {
		switch {
		case x.werr != nil && x.err == nil:
			note("nan-or-inf-not-rejected", x.name, string(x.got))
		case x.werr == nil && x.err != nil:
			note("unexpected-error", x.name, x.err.Error())
		case x.werr == nil:
			if !bytes.Equal(x.got, x.want) {
				note(c19fmtClass(x.want, x.got), x.name, string(x.got))
			}
		}
	}
	// parse back through sonic: identical bits
	if werr == nil {
		if rs[0].err == nil {
			var b T
			err := sonic.ConfigStd.Unmarshal(append(make([]byte, 0, len(rs[0].got)), rs[0].got...), &b)
			*evals++
			if err != nil || !k.same(v, b) {
				cl := "parse-back-differs"
				if k.zero(v) {
					cl += ":sign-of-zero"
				} else if k.backClass != nil && err == nil {
					cl += k.backClass(rs[0].got, v, b)
				}
				note(cl, "std/top", fmt.Sprintf("text %s parsed back as %s err=%v", rs[0].got, k.desc(b), err))
			}
		}
		if rs[4].err == nil {
			var bs []T
			err := sonic.ConfigStd.Unmarshal(append(make([]byte, 0, len(rs[4].got)), rs[4].got...), &bs)
			*evals++
			if err != nil || len(bs) != 1 || !k.same(v, bs[0]) {
				cl := "parse-back-differs"
				if k.zero(v) {
					cl += ":sign-of-zero"
				} else if k.backClass != nil && err == nil && len(bs) == 1 && len(rs[4].got) > 2 {
					cl += k.backClass(rs[4].got[1:len(rs[4].got)-1], v, bs[0])
				}
				d := "?"
				if len(bs) == 1 {
					d = k.desc(bs[0])
				}
				note(cl, "std/elem", fmt.Sprintf("text %s parsed back as %s err=%v", rs[4].got, d, err))
			}
		}
	}
	var out []ev.Violation
	cls := make([]string, 0, len(byClass))
	for cl := range byClass {
		cls = append(cls, cl)
	}
	sort.Strings(cls)
	for _, cl := range cls {
		where := byClass[cl]
		ctx := strings.Join(where, "+")
		if len(where) == len(rs) {
			ctx = "all"
		}
		exp := string(want)
		if werr != nil {
			exp = "error (" + werr.Error() + ")"
		}
		key := "format:" + k.name + ":" + cl + ":at=" + ctx
		if strings.HasSuffix(cl, ":sign-of-zero") {
			key = "format:" + k.name + ":" + cl // which entry points fail is placement dependent, see the parse side
		}
		out = append(out, ev.Violation{Property: "C19", Key: key,
			What:     fmt.Sprintf("Marshal of %s value %s: %s (entry points %s)", k.name, k.desc(v), cl, strings.Join(where, ",")),
			Case:     ev.J(c19case{Side: "format", Kind: k.name, Val: k.desc(v)}),
			Expected: exp, Observed: obs[cl]})
	}
	return out
}

// c19fmtBatch marshals a whole slice in one call (amortised cost; also exercises buffer
// growth inside the encoder), compares with the joined reference texts and parses the text
// back. full=true: the per-value entry points are skipped and the strconv replica is the oracle.
func c19fmtBatch[T comparable](k *c19fk[T], vals []T, oracle func([]byte, T) []byte, evals *int64, caseOf func() c19case) []ev.Violation {
	want := make([]byte, 0, 16*len(vals)+2)
	if k.bytesLike {
		want, _ = json.Marshal(vals) // []uint8 is base64 text, not an array
	} else {
		want = append(want, '[')
		for i, v := range vals {
			if i > 0 {
				want = append(want, ',')
			}
			want = oracle(want, v)
		}
		want = append(want, ']')
	}
	got, err := sonic.ConfigStd.Marshal(vals)
	*evals += int64(len(vals))
	var out []ev.Violation
	if err != nil || !bytes.Equal(got, want) {
		n := 0
		for _, v := range vals {
			vs := c19fmtOne(k, v, evals)
			if len(vs) > 0 {
				n++
				if n <= 4 {
					out = append(out, vs...)
				}
			}
		}
		if n == 0 {
			out = append(out, ev.Violation{Property: "C19", Key: "format:" + k.name + ":differs-only-inside-a-long-slice",
				What: "Marshal of a slice differs from the reference although every element alone agrees", Case: ev.J(caseOf()),
				Expected: c19clip(string(want), 200), Observed: c19clip(string(got), 200) + fmt.Sprint(" err=", err)})
		}
		return out
	}
	var back []T
	err = sonic.ConfigStd.Unmarshal(got, &back)
	*evals += int64(len(vals))
	bad := err != nil || len(back) != len(vals)
	if !bad {
		for i := range vals {
			if !k.same(vals[i], back[i]) {
				bad = true
				break
			}
		}
	}
	if bad {
		n := 0
		for _, v := range vals {
			vs := c19fmtOne(k, v, evals)
			if len(vs) > 0 {
				n++
				if n <= 4 {
					out = append(out, vs...)
				}
			}
		}
		if n == 0 {
			out = append(out, ev.Violation{Property: "C19", Key: "format:" + k.name + ":parse-back-differs-only-inside-a-long-slice",
				What: "Unmarshal of the marshalled slice differs from the original although every element alone round-trips", Case: ev.J(caseOf()),
				Expected: "identical values", Observed: fmt.Sprint("err=", err, " len=", len(back))})
		}
	}
	return out
}

func c19floatKind64() *c19fk[float64] {
	return &c19fk[float64]{name: "float64",
		desc: func(v float64) string { return fmt.Sprintf("%016x", math.Float64bits(v)) },
		from: func(s string) (float64, bool) {
			u, err := strconv.ParseUint(s, 16, 64)
			return math.Float64frombits(u), err == nil
		},
		same: func(a, b float64) bool { return math.Float64bits(a) == math.Float64bits(b) },
		key:  func(v float64) uint64 { return math.Float64bits(v) },
		zero: func(v float64) bool { return v == 0 },
	}
}

func c19floatKind32() *c19fk[float32] {
	return &c19fk[float32]{name: "float32",
		desc: func(v float32) string { return fmt.Sprintf("%08x", math.Float32bits(v)) },
		from: func(s string) (float32, bool) {
			u, err := strconv.ParseUint(s, 16, 32)
			return math.Float32frombits(uint32(u)), err == nil
		},
		same: func(a, b float32) bool { return math.Float32bits(a) == math.Float32bits(b) },
		key:  func(v float32) uint64 { return uint64(math.Float32bits(v)) },
		zero: func(v float32) bool { return v == 0 },
		backClass: func(text []byte, v, b float32) string {
			// the text is fine (strconv reads it back as v) but sonic goes through float64
			if f, err := strconv.ParseFloat(string(text), 32); err == nil && float32(f) == v {
				if g, err := strconv.ParseFloat(string(text), 64); err == nil && float32(g) == b {
					return ":double-rounding-via-float64"
				}
			}
			return ""
		},
	}
}

func c19sintKind[T c19sint](name string, bitSize int) *c19fk[T] {
	return &c19fk[T]{name: name,
		desc: func(v T) string { return strconv.FormatInt(int64(v), 10) },
		from: func(s string) (T, bool) {
			i, err := strconv.ParseInt(s, 10, bitSize)
			return T(i), err == nil
		},
		same: func(a, b T) bool { return a == b },
		key:  func(v T) uint64 { return uint64(int64(v)) },
		zero: func(v T) bool { return false },
	}
}

func c19uintKind[T c19uint](name string, bitSize int) *c19fk[T] {
	return &c19fk[T]{name: name,
		desc: func(v T) string { return strconv.FormatUint(uint64(v), 10) },
		from: func(s string) (T, bool) {
			i, err := strconv.ParseUint(s, 10, bitSize)
			return T(i), err == nil
		},
		same: func(a, b T) bool { return a == b },
		key:  func(v T) uint64 { return uint64(v) },
		zero: func(v T) bool { return false },
	}
}

func c19bytesLike[T comparable](k *c19fk[T]) *c19fk[T] { k.bytesLike = true; return k }

// c19intValues: every int16/uint16 value that fits, the kind's own boundaries ±2, and
// ±2^k±2, ±10^k±2 that fit.
func c19intValues(min, max *big.Int) []*big.Int {
	var out []*big.Int
	for _, n := range c19boundaryInts(0) {
		if n.Cmp(min) >= 0 && n.Cmp(max) <= 0 {
			out = append(out, n)
		}
	}
	seen := map[string]bool{}
	for _, n := range out {
		seen[n.String()] = true
	}
	add := func(n *big.Int) {
		if n.Cmp(min) >= 0 && n.Cmp(max) <= 0 && !seen[n.String()] {
			seen[n.String()] = true
			out = append(out, n)
		}
	}
	for i := int64(-32768); i <= 65535; i++ {
		add(big.NewInt(i))
	}
	for d := int64(-2); d <= 2; d++ {
		add(new(big.Int).Add(min, big.NewInt(d)))
		add(new(big.Int).Add(max, big.NewInt(d)))
	}
	return out
}

type c19fmtRunner struct {
	name   string
	replay func(cs *c19case, evals *int64) []ev.Violation
	run    func(c *ev.Ctx, r *ev.Report, evals *int64, seen map[uint64]struct{}) bool
}

func c19caseBatch[T comparable](k *c19fk[T], vals []T) func() c19case {
	return func() c19case {
		b := make([]string, len(vals))
		for i, v := range vals {
			b[i] = k.desc(v)
		}
		return c19case{Side: "format", Kind: k.name, Batch: b}
	}
}

func c19replayFmt[T comparable](k *c19fk[T], oracle func([]byte, T) []byte) func(cs *c19case, evals *int64) []ev.Violation {
	return func(cs *c19case, evals *int64) []ev.Violation {
		if cs.Val != "" {
			v, ok := k.from(cs.Val)
			if !ok {
				return nil
			}
			return c19fmtOne(k, v, evals)
		}
		var vals []T
		for _, s := range cs.Batch {
			if v, ok := k.from(s); ok {
				vals = append(vals, v)
			}
		}
		if cs.From != "" {
			u, err := strconv.ParseUint(cs.From, 16, 64)
			if err != nil {
				return nil
			}
			for i := 0; i < cs.Count; i++ {
				if v, ok := k.from(fmt.Sprintf("%x", u+uint64(i))); ok {
					vals = append(vals, v)
				}
			}
		}
		if len(vals) == 0 {
			return nil
		}
		return c19fmtBatch(k, vals, oracle, evals, c19caseBatch(k, vals))
	}
}

func c19intRunner[T comparable](k *c19fk[T], min, max *big.Int, conv func(*big.Int) T, unitBase int) *c19fmtRunner {
	oracle := func(b []byte, v T) []byte {
		j, _ := json.Marshal(v)
		return append(b, j...)
	}
	return &c19fmtRunner{name: k.name, replay: c19replayFmt(k, oracle),
		run: func(c *ev.Ctx, r *ev.Report, evals *int64, seen map[uint64]struct{}) bool {
			vals := c19intValues(min, max)
			const chunk = 1024
			for u := 0; u*chunk < len(vals); u++ {
				if !c.Mine(unitBase + u) {
					continue
				}
				if c.Expired() {
					return false
				}
				hi := (u + 1) * chunk
				if hi > len(vals) {
					hi = len(vals)
				}
				ts := make([]T, 0, chunk)
				for _, n := range vals[u*chunk : hi] {
					ts = append(ts, conv(n))
				}
				cb := c19caseBatch(k, ts)
				c.SetCase(string(ev.J(cb())))
				for _, v := range c19fmtBatch(k, ts, oracle, evals, cb) {
					c19violate(r, v)
				}
				for _, t := range ts {
					for _, v := range c19fmtOne(k, t, evals) {
						c19violate(r, v)
					}
					seen[k.key(t)] = struct{}{}
					r.Count("format_values_"+k.name, 1)
				}
			}
			return true
		}}
}

func c19mant32() []uint32 {
	set := map[uint32]bool{}
	add := func(m uint32) { set[m&(1<<23-1)] = true }
	for i := uint32(0); i < 2048; i++ {
		add(i)
		add(i << 12)
	}
	for j := uint(0); j < 23; j++ {
		add(1 << j)
		add(1<<j - 1)
		add(1<<j + 1)
		add((1<<j - 1) << (23 - j))
		add((1<<j-1)<<(23-j) + 1)
		add((1<<j-1)<<(23-j) - 1)
		add(^uint32(1 << j))
	}
	add(0x2AAAAA)
	add(0x555555)
	out := make([]uint32, 0, len(set))
	for m := range set {
		out = append(out, m)
	}
	sort.Slice(out, func(i, j int) bool { return out[i] < out[j] })
	return out
}

func c19mant64() []uint64 {
	set := map[uint64]bool{}
	add := func(m uint64) { set[m&(1<<52-1)] = true }
	for i := uint64(0); i < 1024; i++ {
		add(i)
		add(i << 42)
	}
	for j := uint(0); j < 52; j++ {
		add(1 << j)
		add(1<<j - 1)
		add(1<<j + 1)
		add((1<<j - 1) << (52 - j))
		add((1<<j-1)<<(52-j) + 1)
		add((1<<j-1)<<(52-j) - 1)
		add(^uint64(1 << j))
		for i := uint(0); i < j; i++ {
			add(1<<j | 1<<i)
		}
	}
	add(0xAAAAAAAAAAAAA)
	add(0x5555555555555)
	out := make([]uint64, 0, len(set))
	for m := range set {
		out = append(out, m)
	}
	sort.Slice(out, func(i, j int) bool { return out[i] < out[j] })
	return out
}

// c19floatBatches feeds values in batches of 256 through the batch check, and (unless
// sweep) every value through the single-value entry points.
type c19feeder[T comparable] struct {
	k      *c19fk[T]
	oracle func([]byte, T) []byte
	buf    []T
	sweep  bool
	from   uint64 // sweep: first bit pattern of the batch
	c      *ev.Ctx
	r      *ev.Report
	evals  *int64
	seen   map[uint64]struct{}
	bad    func(T) bool // NaN/Inf: cannot be batched
	label  string
}

func (f *c19feeder[T]) push(v T) {
	if f.bad(v) {
		// NaN / ±Inf: each one alone, every entry point must report an error
		f.c.SetCase(string(ev.J(c19case{Side: "format", Kind: f.k.name, Val: f.k.desc(v)})))
		for _, x := range c19fmtOne(f.k, v, f.evals) {
			c19violate(f.r, x)
		}
		if f.seen != nil {
			f.seen[f.k.key(v)] = struct{}{}
		}
		f.r.Count("format_values_"+f.label, 1)
		f.r.Count("format_nan_inf_values", 1)
		return
	}
	f.buf = append(f.buf, v)
	if len(f.buf) == 256 {
		f.flush()
	}
}

func (f *c19feeder[T]) flush() {
	if len(f.buf) == 0 {
		return
	}
	vals := f.buf
	var cb func() c19case
	if f.sweep {
		first, n := f.k.desc(vals[0]), len(vals)
		cb = func() c19case { return c19case{Side: "format", Kind: f.k.name, From: first, Count: n} }
	} else {
		cb = c19caseBatch(f.k, vals)
	}
	f.c.SetCase(string(ev.J(cb())))
	for _, x := range c19fmtBatch(f.k, vals, f.oracle, f.evals, cb) {
		c19violate(f.r, x)
	}
	if !f.sweep {
		for i, v := range vals {
			// the slice entry point above sees every value; the seven single-value entry points
			// see every value in thorough, every 7th in quick
			if f.c.Thorough() || i%7 == 0 {
				for _, x := range c19fmtOne(f.k, v, f.evals) {
					c19violate(f.r, x)
				}
				f.r.Count("format_values_all_entry_points", 1)
			}
			f.seen[f.k.key(v)] = struct{}{}
		}
	}
	f.r.Count("format_values_"+f.label, int64(len(vals)))
	f.buf = f.buf[:0]
}

// ---------------------------------------------------------------------------------------

// c19violate records a violation and counts the failing cases per key.
func c19violate(r *ev.Report, v ev.Violation) {
	r.Count("cases["+v.Key+"]", 1)
	r.Violate(v)
}

func c19hash(s string) uint64 {
	h := fnv.New64a()
	h.Write([]byte(s))
	return h.Sum64()
}

func init() {
	var env *c19env
	getEnv := func() *c19env {
		if env == nil {
			env = c19newEnv()
		}
		return env
	}
	k64, k32 := c19floatKind64(), c19floatKind32()
	jsonF64 := func(b []byte, v float64) []byte { j, _ := json.Marshal(v); return append(b, j...) }
	jsonF32 := func(b []byte, v float32) []byte { j, _ := json.Marshal(v); return append(b, j...) }
	replF32 := func(b []byte, v float32) []byte { return c19stdFloat(b, float64(v), 32) }
	bi := func(s string) *big.Int { n, _ := new(big.Int).SetString(s, 10); return n }
	intRunners := []*c19fmtRunner{
		c19intRunner(c19sintKind[int]("int", 64), bi("-9223372036854775808"), bi("9223372036854775807"), func(n *big.Int) int { return int(n.Int64()) }, 0),
		c19intRunner(c19sintKind[int8]("int8", 8), bi("-128"), bi("127"), func(n *big.Int) int8 { return int8(n.Int64()) }, 1),
		c19intRunner(c19sintKind[int16]("int16", 16), bi("-32768"), bi("32767"), func(n *big.Int) int16 { return int16(n.Int64()) }, 2),
		c19intRunner(c19sintKind[int32]("int32", 32), bi("-2147483648"), bi("2147483647"), func(n *big.Int) int32 { return int32(n.Int64()) }, 3),
		c19intRunner(c19sintKind[int64]("int64", 64), bi("-9223372036854775808"), bi("9223372036854775807"), func(n *big.Int) int64 { return n.Int64() }, 4),
		c19intRunner(c19uintKind[uint]("uint", 64), bi("0"), bi("18446744073709551615"), func(n *big.Int) uint { return uint(n.Uint64()) }, 5),
		c19intRunner(c19bytesLike(c19uintKind[uint8]("uint8", 8)), bi("0"), bi("255"), func(n *big.Int) uint8 { return uint8(n.Uint64()) }, 6),
		c19intRunner(c19uintKind[uint16]("uint16", 16), bi("0"), bi("65535"), func(n *big.Int) uint16 { return uint16(n.Uint64()) }, 7),
		c19intRunner(c19uintKind[uint32]("uint32", 32), bi("0"), bi("4294967295"), func(n *big.Int) uint32 { return uint32(n.Uint64()) }, 8),
		c19intRunner(c19uintKind[uint64]("uint64", 64), bi("0"), bi("18446744073709551615"), func(n *big.Int) uint64 { return n.Uint64() }, 9),
		c19intRunner(c19uintKind[uintptr]("uintptr", 64), bi("0"), bi("18446744073709551615"), func(n *big.Int) uintptr { return uintptr(n.Uint64()) }, 10),
	}
	fmtReplay := map[string]func(cs *c19case, evals *int64) []ev.Violation{
		"float64": c19replayFmt(k64, jsonF64),
		"float32": c19replayFmt(k32, jsonF32),
	}
	for _, ir := range intRunners {
		fmtReplay[ir.name] = ir.replay
	}

	ev.Register(&ev.Check{
		ID: "C19", Level: "exploration", Workers: 16, QuickSecs: 150, ThorSecs: 1800,
		Rule: "PARSE: (i) every string of length <=6 (quick) / <=7 (thorough) over {0,1,5,9,.,e,E,+,-} and <=4 / <=5 over the full {0-9,.,e,E,+,-}; " +
			"(ii) +-(2^k|10^k)+-{0,1,2} (2^k: k<=65,127,128,1023,1024; 10^k: k<=25,30,38..40,100,308,309,400) and [-300,300] in 13+ spellings (plain, .0, .00, e0, E+0, e-0, 0e-1, .5, E+1-scaled, leading zero, leading +, trailing ./e, -0 forms), " +
			"every other integer in [-70000,70000] plain into everything (quick: .0/e0 into the integer kinds only; thorough: all spellings into everything); " +
			"(iii) the exact decimal rounding midpoint (math/big) of every float64 binary exponent (2047) x mantissas {0,1,2^52-1,2^26 (quick) | 2^52-2 and all 51 single bits (thorough)} and every float32 exponent (255) x {0,1,2^23-2,2^23-1,22 single bits}: " +
			"midpoint, +-1 unit in the last place, truncation/extension to {17,19,20,770,799,800,801,1100} digits below/at/above, scientific and integer-mantissa (thorough: also positional) spelling, both signs " +
			"(thorough single-bit mantissas: scientific spelling, {19,800,801}); these long literals go into float64,float32,json.Number,interface{}(+UseInt64),ast.Float64/Interface, in quick only under ConfigStd at top level and as array element; " +
			"(iv) digit-run x exponent extremes (exponents up to 10^23, cancelling digit runs of 0..1200 zeros); " +
			"otherwise each literal at top level, as object field and as array element into float64, float32, 11 integer kinds, json.Number, interface{} (default/UseNumber/UseInt64) under ConfigStd and ConfigDefault, " +
			"and through sonic.Get(...).Float64/StrictInt64/Int64/Number/Interface/InterfaceUseNumber; " +
			"oracle: accept/reject and value = encoding/json.Unmarshal into the same type, float64 bits = strconv.ParseFloat, both cross-checked against exact rounding with math/big.Rat (which wins where strconv is itself wrong). " +
			"FORMAT: float32 all 256 exponents x ~4200 mantissa patterns x 2 signs (thorough: additionally ALL 2^32 bit patterns), float64 all 2048 exponents x ~3600 mantissa patterns x 2 signs, every decimal d*10^e with d<=9999, e in -330..310 (float32: -50..40), " +
			"every int16/uint16 value, +-(2^k|10^k)+-2 and the type bounds +-2 in all 11 integer kinds; every value inside a slice of 256 (Marshal + sonic parse-back), and through top level/field/slice element/boxed in interface{}/map value " +
			"under ConfigStd and ConfigDefault (quick: every 7th float value; integers and thorough: all); " +
			"oracle: bytes = encoding/json.Marshal of the same Go value, NaN/Inf = error, sonic parse-back gives identical bits. " +
			"distinct_nontrivial = distinct well-formed literals (64-bit hash set) + distinct (kind,value) pairs formatted (hash sets; the 2^32 sweep is measured with a per-unit bitmap)",
		Assume: []string{"encoding/json and strconv are the reference (cross-checked against each other on every literal); math/big.Rat rounding is the arbiter where they are not correctly rounded (|exponent| < 10000)",
			"in the 2^32 float32 sweep the reference text is a strconv replica of encoding/json's floatEncoder, itself compared with json.Marshal on every pattern-set value",
			"UseInt64 has no encoding/json counterpart: integer syntax fitting int64 -> int64, otherwise float64 as strconv.ParseFloat",
			"ast Node.Int64 is a documented cast: truncation of in-range values is tolerated, values outside int64 must be errors",
			"well-formedness of what sonic.Get accepts after a complete value is C02's subject and not judged here",
			"pre-assembled native routines are exercised as shipped for the instruction set selected by the environment"},
		Run: func(c *ev.Ctx, r *ev.Report) {
			// 16 worker processes share 16 cores: one mutator thread each, fewer collections
			// (throughput knobs only; no effect on what is computed)
			runtime.GOMAXPROCS(2)
			debug.SetGCPercent(400)
			e := getEnv()
			st := &c19stats{outcomes: map[string]bool{}, stdWrongClasses: map[string]bool{}}
			valid := map[uint64]struct{}{}
			nlit := int64(0)
			stop := false
			t0 := time.Now()
			phase := func(name string) {
				if os.Getenv("VERIF_VERBOSE") != "" {
					fmt.Printf("C19 worker %d: phase %s done at %.1fs\n", c.Shard, name, time.Since(t0).Seconds())
				}
			}
			lite := false
			evalOne := func(lit string, mask uint64, label string) {
				if lit == "" {
					return // "[" + "" + "]" is a well-formed empty array: not a number literal at all
				}
				nlit++
				if nlit&0x3ff == 0 && c.Expired() {
					stop = true
					r.Exhaustive = false
				}
				if len(lit) < 4000 {
					c.SetCase(`{"side":"parse","lit":"` + lit + `"}`)
				}
				for _, v := range e.evalLit(lit, mask, lite && len(lit) > 40, st) {
					c19violate(r, v)
				}
				r.Count("literals_"+label, 1)
				if c19validNumber(lit) {
					valid[c19hash(lit)] = struct{}{}
					r.Count("literals_wellformed_"+label, 1)
				}
			}
			// ---- (i)
			small := []string{"0", "1", "5", "9", ".", "e", "E", "+", "-"}
			full := []string{"0", "1", "2", "3", "4", "5", "6", "7", "8", "9", ".", "e", "E", "+", "-"}
			nSmall, nFull := 6, 4
			if c.Thorough() {
				nSmall, nFull = 7, 5
			}
			gen.ForEachTok2(small, nSmall, c.Mine, func(idx []int, s []byte) bool {
				evalOne(string(s), e.all, "i_small_alphabet")
				return !stop
			})
			gen.ForEachTok2(full, nFull, c.Mine, func(idx []int, s []byte) bool {
				if !bytes.ContainsAny(s, "234678") {
					return true // already in the reduced-alphabet space
				}
				evalOne(string(s), e.all, "i_full_alphabet")
				return !stop
			})
			phase("i")
			// ---- (ii)
			if !stop {
				// boundary integers: every spelling, every destination
				ints := c19boundaryInts(300)
				for i, n := range ints {
					if !c.Mine(i / 4) {
						continue
					}
					for _, sp := range c19spellings(n) {
						evalOne(sp, e.all, "ii_boundary_integers")
					}
					if stop {
						break
					}
				}
				// the dense range: plain spelling into everything; quick: ".0"/"e0" into the
				// integer kinds (+float64) only; thorough: every spelling into everything
				for i := -70000; i <= 70000 && !stop; i++ {
					if !c.Mine((i + 70000) / 64) {
						continue
					}
					if i >= -300 && i <= 300 {
						continue // above
					}
					sp := c19spellings(big.NewInt(int64(i)))
					evalOne(sp[0], e.all, "ii_dense_integers")
					for k, x := range sp[1:] {
						if c.Thorough() {
							evalOne(x, e.all, "ii_dense_integers")
						} else if k == 0 || k == 2 {
							evalOne(x, e.inty, "ii_dense_integers")
						}
					}
				}
			}
			phase("ii")
			// ---- (iii) float64
			if !stop {
				// quick: 4 mantissas, reduced entry-point set for the long literals; thorough: the 4
				// main mantissas through every entry point, the single-bit ones through the reduced set
				m64 := []uint64{0, 1, 1<<52 - 1, 1 << 26} // 1<<26 stands in for the single bits
				if c.Thorough() {
					m64 = []uint64{0, 1, 1<<52 - 1, 1<<52 - 2}
					for j := uint(1); j < 52; j++ {
						m64 = append(m64, 1<<j)
					}
				}
				for ex := 0; ex <= 2046 && !stop; ex++ {
					if !c.Mine(ex) {
						continue
					}
					for mi, m := range m64 {
						n := new(big.Int).SetUint64(m)
						q := ex - 1075
						if ex == 0 {
							q = -1074
						} else {
							n.Add(n, new(big.Int).Lsh(big.NewInt(1), 52))
						}
						D, dexp := c19boundaryDigits(n, q)
						lite = !c.Thorough() || mi >= 4
						ks, mask := c19truncK, e.floaty
						if mi >= 4 {
							ks = c19truncKReduced
						}
						if !c.Thorough() {
							mask = e.floatyLite
						}
						c19boundaryLits(D, dexp, ks, mi == 0 && c.Thorough(), mi >= 4, func(lit string) {
							if !stop {
								evalOne(lit, mask, "iii_float64_boundaries")
							}
						})
					}
					r.SetAdd("float64_binary_exponents_covered", strconv.Itoa(ex))
				}
				m32 := []uint32{0, 1, 1<<23 - 2, 1<<23 - 1}
				for j := uint(1); j < 23; j++ {
					m32 = append(m32, 1<<j)
				}
				for ex := 0; ex <= 254 && !stop; ex++ {
					if !c.Mine(ex) {
						continue
					}
					for mi, m := range m32 {
						n := big.NewInt(int64(m))
						q := ex - 150
						if ex == 0 {
							q = -149
						} else {
							n.Add(n, big.NewInt(1<<23))
						}
						D, dexp := c19boundaryDigits(n, q)
						lite = !c.Thorough() || mi >= 4
						mask := e.floaty
						if !c.Thorough() {
							mask = e.floatyLite
						}
						c19boundaryLits(D, dexp, c19truncK32, mi == 0 && c.Thorough(), mi >= 4 && !c.Thorough(), func(lit string) {
							if !stop {
								evalOne(lit, mask, "iii_float32_boundaries")
							}
						})
					}
					r.SetAdd("float32_binary_exponents_covered", strconv.Itoa(ex))
				}
			}
			lite = false
			phase("iii")
			// ---- (iv)
			if !stop {
				for i, lit := range c19extremes() {
					if !c.Mine(i / 8) {
						continue
					}
					evalOne(lit, e.all, "iv_extremes")
					if stop {
						break
					}
				}
			}
			phase("iv")
			r.Evaluations += st.evals
			r.Count("parse_evaluations", st.evals)
			for o := range st.outcomes {
				r.SetAdd("parse_outcome_classes", o)
			}
			r.Count("literals_where_strconv_is_not_correctly_rounded", st.stdWrong)
			for o := range st.stdWrongClasses {
				r.SetAdd("strconv_not_correctly_rounded_classes", o)
			}
			r.Distinct += int64(len(valid))
			r.Count("distinct_wellformed_literals", int64(len(valid)))
			valid = nil

			// =========================== FORMAT
			var fevals int64
			seen64, seen32 := map[uint64]struct{}{}, map[uint64]struct{}{}
			f64 := &c19feeder[float64]{k: k64, oracle: jsonF64, c: c, r: r, evals: &fevals, seen: seen64, label: "float64",
				bad: func(v float64) bool { return math.IsNaN(v) || math.IsInf(v, 0) }}
			f32 := &c19feeder[float32]{k: k32, oracle: jsonF32, c: c, r: r, evals: &fevals, seen: seen32, label: "float32",
				bad: func(v float32) bool { return v != v || math.IsInf(float64(v), 0) }}
			replicaChecked := int64(0)
			var scratch []byte
			pm32 := c19mant32()
			for ex := uint32(0); ex < 256 && !stop; ex++ {
				if !c.Mine(int(ex)) {
					continue
				}
				if c.Expired() {
					stop, r.Exhaustive = true, false
					break
				}
				for _, m := range pm32 {
					for s := uint32(0); s < 2; s++ {
						v := math.Float32frombits(s<<31 | ex<<23 | m)
						f32.push(v)
						if ex != 255 {
							// validate the replica used by the sweep
							scratch = c19stdFloat(scratch[:0], float64(v), 32)
							j, _ := json.Marshal(v)
							replicaChecked++
							if !bytes.Equal(j, scratch) {
								r.Violate(ev.Violation{Property: "C19", Key: "oracle:strconv-replica-differs-from-encoding-json",
									What: "check-internal reference disagreement", Case: ev.J(c19case{Side: "format", Kind: "float32", Val: k32.desc(v)}),
									Expected: string(j), Observed: string(scratch)})
							}
						}
					}
				}
				f32.flush()
			}
			r.Count("replica_validated_values", replicaChecked)
			pm64 := c19mant64()
			for ex := uint64(0); ex < 2048 && !stop; ex++ {
				if !c.Mine(int(ex)) {
					continue
				}
				if c.Expired() {
					stop, r.Exhaustive = true, false
					break
				}
				for _, m := range pm64 {
					f64.push(math.Float64frombits(ex<<52 | m))
					f64.push(math.Float64frombits(1<<63 | ex<<52 | m))
				}
				f64.flush()
			}
			// shortest decimals
			f64.label = "float64_short_decimals"
			for de := -330; de <= 310 && !stop; de++ {
				if !c.Mine(de + 330) {
					continue
				}
				if c.Expired() {
					stop, r.Exhaustive = true, false
					break
				}
				for d := 1; d <= 9999; d++ {
					if d%10 == 0 {
						continue // same value as d/10 at de+1
					}
					v, err := strconv.ParseFloat(strconv.Itoa(d)+"e"+strconv.Itoa(de), 64)
					if err != nil || v == 0 {
						continue
					}
					f64.push(v)
					if d < 100 {
						f64.push(-v)
					}
				}
				f64.flush()
			}
			// float32 short decimals (cheap, same idea)
			f32.label = "float32_short_decimals"
			for de := -50; de <= 40 && !stop; de++ {
				if !c.Mine(de + 50) {
					continue
				}
				for d := 1; d <= 9999; d++ {
					if d%10 == 0 {
						continue
					}
					v, err := strconv.ParseFloat(strconv.Itoa(d)+"e"+strconv.Itoa(de), 32)
					if err != nil || v == 0 {
						continue
					}
					f32.push(float32(v))
				}
				f32.flush()
			}
			// integers
			iseen := map[uint64]struct{}{}
			for _, ir := range intRunners {
				if stop {
					break
				}
				for k := range iseen {
					delete(iseen, k)
				}
				if !ir.run(c, r, &fevals, iseen) {
					stop, r.Exhaustive = true, false
				}
				r.Distinct += int64(len(iseen))
				r.Count("distinct_format_values_integers", int64(len(iseen)))
			}
			r.Distinct += int64(len(seen64)) + int64(len(seen32))
			r.Count("distinct_format_values_float64", int64(len(seen64)))
			r.Count("distinct_format_values_float32_patterns", int64(len(seen32)))
			seen64, seen32 = nil, nil
			phase("format-patterns")
			// ---- thorough: ALL 2^32 float32 bit patterns
			if c.Thorough() && !stop {
				sw := &c19feeder[float32]{k: k32, oracle: replF32, c: c, r: r, evals: &fevals, sweep: true, label: "float32_full_sweep",
					bad: func(v float32) bool { return v != v || math.IsInf(float64(v), 0) }}
				bitmap := make([]uint64, 1<<14)
				for u := 0; u < 4096 && !stop; u++ {
					if !c.Mine(u) {
						continue
					}
					if c.Expired() {
						stop, r.Exhaustive = true, false
						break
					}
					base := uint32(u) << 20
					for i := uint32(0); i < 1<<20; i++ {
						b := base | i
						bitmap[(b&0xfffff)>>6] |= 1 << (b & 63)
						sw.push(math.Float32frombits(b))
					}
					sw.flush()
					n := 0
					for i := range bitmap {
						n += bits.OnesCount64(bitmap[i])
						bitmap[i] = 0
					}
					r.Distinct += int64(n)
					r.Count("distinct_format_values_float32_sweep", int64(n))
					r.Count("float32_sweep_units_of_2^20", 1)
				}
			}
			phase("format-sweep")
			r.Evaluations += fevals
			r.Count("format_evaluations", fevals)
			r.Sample(map[string]string{"side": "parse", "lit": "1.000000059604644775390626", "dst": "float32"})
			r.Sample(map[string]string{"side": "parse", "lit": "-0", "dst": "all, contexts top/field/elem"})
			r.Sample(map[string]string{"side": "format", "kind": "float64", "val": "3ff0000000000001"})
		},
		Replay: func(c *ev.Ctx, desc json.RawMessage) *ev.Violation {
			var cs c19case
			if json.Unmarshal(desc, &cs) != nil {
				return nil
			}
			var vs []ev.Violation
			if cs.Side == "format" {
				f := fmtReplay[cs.Kind]
				if f == nil {
					return nil
				}
				var n int64
				vs = f(&cs, &n)
			} else {
				e := getEnv()
				mask := e.all
				if i, ok := e.byName[cs.Dst]; ok {
					mask = 1 << uint(i)
				}
				vs = e.evalLit(cs.Lit, mask, false, nil)
			}
			if len(vs) == 0 {
				return nil
			}
			return &vs[0]
		},
	})
}
