package main

import (
	"bytes"
	"encoding/json"
	"fmt"
	"sort"
	"strconv"
	"strings"
)

// The C15 reference model: a plain ordered tree. Objects are ordered lists of pairs
// (duplicates allowed, lookups address the FIRST pair with the key), arrays are lists.

type mnode struct {
	kind byte   // 'z' null, 'b' bool, 'd' number, 's' string, 'a' array, 'o' object, 'x' none
	lit  string // leaf: JSON literal text (number literal / true / false); string: decoded value
	keys []string
	kids []*mnode
}

func (m *mnode) clone() *mnode {
	if m == nil {
		return nil
	}
	c := &mnode{kind: m.kind, lit: m.lit}
	c.keys = append([]string(nil), m.keys...)
	for _, k := range m.kids {
		c.kids = append(c.kids, k.clone())
	}
	return c
}

// mparse builds the model from JSON text, keeping order, duplicates and number literals.
func mparse(text string) *mnode {
	dec := json.NewDecoder(strings.NewReader(text))
	dec.UseNumber()
	var val func() *mnode
	val = func() *mnode {
		tok, err := dec.Token()
		if err != nil {
			panic(fmt.Sprintf("mparse(%q): %v", text, err))
		}
		switch t := tok.(type) {
		case json.Delim:
			if t == '[' {
				n := &mnode{kind: 'a'}
				for dec.More() {
					n.kids = append(n.kids, val())
				}
				dec.Token()
				return n
			}
			n := &mnode{kind: 'o'}
			for dec.More() {
				k, _ := dec.Token()
				n.keys = append(n.keys, k.(string))
				n.kids = append(n.kids, val())
			}
			dec.Token()
			return n
		case nil:
			return &mnode{kind: 'z'}
		case bool:
			return &mnode{kind: 'b', lit: strconv.FormatBool(t)}
		case json.Number:
			return &mnode{kind: 'd', lit: string(t)}
		case string:
			return &mnode{kind: 's', lit: t}
		}
		panic("mparse: token")
	}
	return val()
}

func (m *mnode) render(b *bytes.Buffer) {
	switch m.kind {
	case 'z':
		b.WriteString("null")
	case 'b', 'd':
		b.WriteString(m.lit)
	case 's':
		q, _ := json.Marshal(m.lit)
		b.Write(q)
	case 'a':
		b.WriteByte('[')
		for i, k := range m.kids {
			if i > 0 {
				b.WriteByte(',')
			}
			k.render(b)
		}
		b.WriteByte(']')
	case 'o':
		b.WriteByte('{')
		for i, k := range m.kids {
			if i > 0 {
				b.WriteByte(',')
			}
			q, _ := json.Marshal(m.keys[i])
			b.Write(q)
			b.WriteByte(':')
			k.render(b)
		}
		b.WriteByte('}')
	case 'x':
		b.WriteString("<none>")
	}
}

func (m *mnode) text() string {
	var b bytes.Buffer
	m.render(&b)
	return b.String()
}

// tokens canonicalises JSON text: the token sequence with strings decoded and number
// literals kept verbatim, so that only escape spelling and whitespace are forgiven.
func tokens(text string) string {
	dec := json.NewDecoder(strings.NewReader(text))
	dec.UseNumber()
	var b strings.Builder
	for {
		tok, err := dec.Token()
		if err != nil {
			if err.Error() != "EOF" {
				return "UNPARSEABLE(" + text + ")"
			}
			break
		}
		switch t := tok.(type) {
		case json.Delim:
			b.WriteString(string(t))
		case nil:
			b.WriteString("null")
		case bool:
			b.WriteString(strconv.FormatBool(t))
		case json.Number:
			b.WriteString("#" + string(t))
		case string:
			b.WriteString(strconv.Quote(t))
		}
		b.WriteByte(' ')
	}
	if dec.More() {
		return "TRAILING(" + text + ")"
	}
	return b.String()
}

func (m *mnode) find(key string) int {
	for i, k := range m.keys {
		if k == key {
			return i
		}
	}
	return -1
}

func (m *mnode) removeAt(i int) {
	m.kids = append(m.kids[:i:i], m.kids[i+1:]...)
	if m.kind == 'o' {
		m.keys = append(m.keys[:i:i], m.keys[i+1:]...)
	}
}

func (m *mnode) hasDupKeys() bool {
	if m.kind == 'o' {
		seen := map[string]bool{}
		for _, k := range m.keys {
			if seen[k] {
				return true
			}
			seen[k] = true
		}
	}
	for _, k := range m.kids {
		if k.hasDupKeys() {
			return true
		}
	}
	return false
}

func (m *mnode) sortKeys(recurse bool) {
	if m.kind == 'o' {
		idx := make([]int, len(m.keys))
		for i := range idx {
			idx[i] = i
		}
		sort.SliceStable(idx, func(a, b int) bool { return m.keys[idx[a]] < m.keys[idx[b]] })
		nk := make([]string, len(idx))
		nv := make([]*mnode, len(idx))
		for i, j := range idx {
			nk[i], nv[i] = m.keys[j], m.kids[j]
		}
		m.keys, m.kids = nk, nv
	}
	if recurse {
		for _, k := range m.kids {
			if k.kind == 'o' || k.kind == 'a' {
				k.sortKeys(true)
			}
		}
	}
}
