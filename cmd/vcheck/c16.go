package main

import (
	"encoding/json"
	"fmt"
	"os"
	"path/filepath"
	"regexp"
	"runtime"
	"runtime/debug"
	"sort"
	"strings"
	"sync"
	"time"

	"github.com/bytedance/sonic"
	"github.com/bytedance/sonic/ast"
	"github.com/bytedance/sonic/loader/vshim"

	"verif/internal/ev"
)

// C16: nodes declared concurrently readable really are.
// Engine E3: every interleaving (<= p preemptions) of 2-3 read operations on one shared
// node, under the cooperative scheduler; oracle = linearizability against the node itself
// run sequentially. Companion: the same bodies free-running under -race.

type c16op struct {
	name string
	f    func(n *ast.Node) string
}

func res(v interface{}, err error) string {
	if err != nil {
		return "ERR:" + errClass(err)
	}
	switch x := v.(type) {
	case []byte:
		return string(x)
	case string:
		return x
	}
	b, e := json.Marshal(v)
	if e != nil {
		return fmt.Sprintf("%v", v)
	}
	return string(b)
}

// errClass drops position-dependent detail but keeps the kind of error.
func errClass(err error) string {
	s := err.Error()
	if i := strings.IndexByte(s, '\n'); i >= 0 {
		s = s[:i]
	}
	return s
}

var c16ops = []c16op{
	{"MarshalJSON", func(n *ast.Node) string { r, e := n.MarshalJSON(); return res(r, e) }},
	{"Get(a).Index(1).Raw", func(n *ast.Node) string { r, e := n.Get("a").Index(1).Raw(); return res(r, e) }},
	{"Raw", func(n *ast.Node) string { r, e := n.Raw(); return res(r, e) }},
	{"Interface", func(n *ast.Node) string { r, e := n.Interface(); return res(r, e) }},
	{"Get(c).String", func(n *ast.Node) string { r, e := n.Get("c").String(); return res(r, e) }},
	{"GetByPath(a,2,b).Raw", func(n *ast.Node) string { r, e := n.GetByPath("a", 2, "b").Raw(); return res(r, e) }},
	{"Map", func(n *ast.Node) string { r, e := n.Map(); return res(r, e) }},
	{"Index(1).Raw", func(n *ast.Node) string { r, e := n.Index(1).Raw(); return res(r, e) }},
	{"String", func(n *ast.Node) string { r, e := n.String(); return res(r, e) }},
	{"Get(k16).Int64", func(n *ast.Node) string { r, e := n.Get("k16").Int64(); return res(r, e) }},
	{"Array", func(n *ast.Node) string { r, e := n.Array(); return res(r, e) }},
	{"Get(a).MarshalJSON", func(n *ast.Node) string { r, e := n.Get("a").MarshalJSON(); return res(r, e) }},
}

func c16op_(name string) *c16op {
	for i := range c16ops {
		if c16ops[i].name == name {
			return &c16ops[i]
		}
	}
	return nil
}

type c16node struct {
	name string
	mk   func() *ast.Node
	ops  []string
	tier int // 0 = quick and thorough, 1 = thorough only
}

const c16docNested = `{"a":[1,"x",{"b":null}],"c":"d\n"}`

func c16doc17() string {
	var b strings.Builder
	b.WriteByte('{')
	for i := 0; i < 17; i++ {
		if i > 0 {
			b.WriteByte(',')
		}
		fmt.Fprintf(&b, `"k%d":%d`, i, i)
	}
	b.WriteByte('}')
	return b.String()
}

func c16nodes() []c16node {
	cr := func(doc string) func() *ast.Node {
		return func() *ast.Node { n := ast.NewRawConcurrentRead(doc); return &n }
	}
	get := func(doc string, validate bool, path ...interface{}) func() *ast.Node {
		return func() *ast.Node {
			n, err := sonic.GetWithOptions([]byte(doc), ast.SearchOptions{ConcurrentRead: true, ValidateJSON: validate}, path...)
			if err != nil {
				panic(err)
			}
			return &n
		}
	}
	loaded := func(doc string, all bool) func() *ast.Node {
		return func() *ast.Node {
			n := ast.NewRaw(doc)
			if all {
				n.LoadAll()
			} else {
				n.Load()
			}
			return &n
		}
	}
	nestedOps := []string{"MarshalJSON", "Get(a).Index(1).Raw", "Raw", "Interface", "Get(c).String", "Get(a).MarshalJSON", "GetByPath(a,2,b).Raw", "Map", "Index(1).Raw"}
	return []c16node{
		{"NewRawConcurrentRead/nested", cr(c16docNested), nestedOps[:6], 0},
		{"NewRawConcurrentRead/nested-all-ops", cr(c16docNested), nestedOps, 1},
		{"GetWithOptions-CR/nested-child", get(`{"x":`+c16docNested+`}`, true, "x"), []string{"MarshalJSON", "Get(a).Index(1).Raw", "Interface", "Get(c).String"}, 0},
		{"Load/nested", loaded(c16docNested, false), []string{"MarshalJSON", "Get(a).Index(1).Raw", "Interface", "Get(c).String", "GetByPath(a,2,b).Raw"}, 0},
		{"LoadAll/nested", loaded(c16docNested, true), []string{"MarshalJSON", "Get(a).Index(1).Raw", "Interface", "Map"}, 1},
		{"NewRawConcurrentRead/obj17", cr(c16doc17()), []string{"Get(k16).Int64", "MarshalJSON", "Index(1).Raw", "Map"}, 0},
		{"NewRawConcurrentRead/string", cr(`"a\nbé"`), []string{"String", "Raw", "MarshalJSON", "Interface"}, 0},
		{"NewRawConcurrentRead/array", cr(`[1,[2,3],{"a":4}]`), []string{"Array", "Index(1).Raw", "MarshalJSON", "Interface"}, 1},
		{"GetWithOptions-CR-novalidate/malformed-inside", get(`{"a":[1,}`, false), []string{"Get(a).Index(1).Raw", "MarshalJSON", "Interface", "Raw"}, 0},
	}
}

type c16scn struct {
	node c16node
	ops  []*c16op
}

func (s *c16scn) name() string {
	var n []string
	for _, o := range s.ops {
		n = append(n, o.name)
	}
	return s.node.name + ": " + strings.Join(n, " || ")
}

func c16scenarios(thorough bool) []c16scn {
	var out []c16scn
	for _, nd := range c16nodes() {
		if nd.tier == 1 && !thorough {
			continue
		}
		for i := 0; i < len(nd.ops); i++ {
			for j := i; j < len(nd.ops); j++ {
				out = append(out, c16scn{nd, []*c16op{c16op_(nd.ops[i]), c16op_(nd.ops[j])}})
			}
		}
	}
	if thorough {
		// three readers on the two richest nodes
		for _, nd := range c16nodes()[:1] {
			ops := nd.ops[:4]
			for i := 0; i < len(ops); i++ {
				for j := i; j < len(ops); j++ {
					for k := j; k < len(ops); k++ {
						out = append(out, c16scn{nd, []*c16op{c16op_(ops[i]), c16op_(ops[j]), c16op_(ops[k])}})
					}
				}
			}
		}
	}
	return out
}

// allowed returns the set of result vectors produced by the sequential orders.
func (s *c16scn) allowed() map[string]bool {
	idx := make([]int, len(s.ops))
	for i := range idx {
		idx[i] = i
	}
	out := map[string]bool{}
	var perm func(k int)
	perm = func(k int) {
		if k == len(idx) {
			n := s.node.mk()
			resv := make([]string, len(s.ops))
			for _, t := range idx {
				resv[t] = s.ops[t].f(n)
			}
			out[strings.Join(resv, "\x00")] = true
			return
		}
		for i := k; i < len(idx); i++ {
			idx[k], idx[i] = idx[i], idx[k]
			perm(k + 1)
			idx[k], idx[i] = idx[i], idx[k]
		}
	}
	perm(0)
	return out
}

func (s *c16scn) bodies() []func() interface{} {
	n := s.node.mk()
	var bs []func() interface{}
	for _, o := range s.ops {
		o := o
		bs = append(bs, func() interface{} { return o.f(n) })
	}
	return bs
}

func vecOf(x vshim.Exec) string {
	v := make([]string, len(x.Results))
	for i, r := range x.Results {
		v[i] = fmt.Sprint(r)
	}
	return strings.Join(v, "\x00")
}

func classify16(x vshim.Exec, allowed map[string]bool) string {
	switch {
	case x.Diverged != "":
		return "infra-divergence"
	case x.Deadlock:
		return "deadlock"
	case x.Horizon:
		return "livelock-horizon"
	}
	for _, r := range x.Results {
		if s, ok := r.(string); ok && strings.HasPrefix(s, "PANIC:") {
			return "panic"
		}
	}
	if !allowed[vecOf(x)] {
		return "result-matches-no-sequential-order"
	}
	return ""
}

type c16case struct {
	Scenario string `json:"scenario"`
	Thorough bool   `json:"thorough"`
	Choices  []int  `json:"choices"`
}

func c16find(name string, thorough bool) *c16scn {
	for _, s := range c16scenarios(true) {
		if s.name() == name {
			s := s
			return &s
		}
	}
	return nil
}

func init() {
	ev.Register(&ev.Check{
		ID: "C16", Level: "model_checking", Workers: 16, QuickSecs: 100, ThorSecs: 1200,
		Rule: "for every scenario (node kind x document x pair/triple of documented read operations on ONE shared node): every interleaving with <= p preemptions " +
			"(p=2 quick, 3 thorough where it completes) at every lock/atomic operation and before every statement of every *Node method (sync imports replaced by a shim, " +
			"yields inserted textually), run on the real code under a cooperative scheduler; oracle: result vector equals that of some sequential order on a fresh node, " +
			"no deadlock, no panic. states = complete schedules explored, transitions = scheduling decisions executed. Companion pass: same bodies free-running under -race.",
		Assume: []string{"Go memory model effects below statement granularity are only covered by the -race companion pass",
			"the shim models Mutex/RWMutex/atomic semantics (hooks/vshim)", "Parser methods run on thread-private parser copies"},
		Run: c16run,
		Extra: func(r *ev.Report) map[string]interface{} {
			return map[string]interface{}{"distinct_nontrivial": len(r.Sets["outcome"]),
				"distinct_nontrivial_rule": "distinct (scenario, deadlock flag, result vector) outcomes observed over all schedules"}
		},
		Replay: func(c *ev.Ctx, desc json.RawMessage) *ev.Violation {
			var cs c16case
			json.Unmarshal(desc, &cs)
			if strings.HasPrefix(cs.Scenario, "race:") {
				return nil
			}
			s := c16find(cs.Scenario, cs.Thorough)
			if s == nil {
				return nil
			}
			allowed := s.allowed()
			x1 := vshim.Run(cs.Choices, s.bodies()...)
			x2 := vshim.Run(cs.Choices, s.bodies()...)
			if x1.Diverged != "" || vecOf(x1) != vecOf(x2) || x1.Deadlock != x2.Deadlock {
				fmt.Println("replay is not deterministic or diverged:", x1.Diverged)
				return nil
			}
			if cl := classify16(x1, allowed); cl != "" {
				return c16viol(s, cl, x1, cs.Choices, allowed, cs.Thorough)
			}
			return nil
		},
	})
}

func c16viol(s *c16scn, cl string, x vshim.Exec, choices []int, allowed map[string]bool, thorough bool) *ev.Violation {
	var al []string
	for k := range allowed {
		al = append(al, strings.ReplaceAll(k, "\x00", " | "))
	}
	sort.Strings(al)
	return &ev.Violation{Property: "C16", Key: s.name() + ": " + cl,
		What:     "concurrent reads on a node declared concurrently readable: " + cl,
		Case:     ev.J(c16case{s.name(), thorough, choices}),
		Expected: "one of the sequential outcomes: " + strings.Join(al, "  OR  "),
		Observed: fmt.Sprintf("deadlock=%v results=%q preemptions=%d", x.Deadlock, strings.ReplaceAll(vecOf(x), "\x00", " | "), x.Preemptions())}
}

func c16run(c *ev.Ctx, r *ev.Report) {
	if os.Getenv("VERIF_RACEPASS") != "" {
		c16racepass(c, r)
		return
	}
	debug.SetGCPercent(400)
	scns := c16scenarios(c.Thorough())
	bounds := []int{0, 1, 2}
	if c.Thorough() {
		bounds = []int{0, 1, 2, 3}
	}
	// iterative context bounding ACROSS scenarios: all scenarios at bound 0, then all at bound
	// 1, ...: a deadline cuts the deepest bound of the last scenarios, never a whole scenario
	type scnState struct {
		allowed  map[string]bool
		outcomes map[string]bool
		maxBound int
		done     bool
	}
	sts := make([]*scnState, len(scns))
	for si := range scns {
		sts[si] = &scnState{allowed: scns[si].allowed(), outcomes: map[string]bool{}, maxBound: -1}
	}
	for _, b := range bounds {
		for si := range scns {
			// every worker visits every scenario and explores its share of the first-level
			// subtrees of that scenario's schedule tree (balanced; the root schedule is shard 0's)
			s, ss := &scns[si], sts[si]
			if ss.done || (b == 3 && len(s.ops) > 2) {
				continue
			}
			allowed, outcomes := ss.allowed, ss.outcomes
			bad := 0
			st := vshim.Explore(b, (c.Shard+int(c.Seed))%c.NShard, c.NShard, s.bodies, func(x vshim.Exec, ch []int) bool {
				oc := fmt.Sprint(x.Deadlock, "\x00", vecOf(x))
				if !outcomes[oc] {
					outcomes[oc] = true
					r.SetAdd("outcome", fmt.Sprintf("%d:%x", si, fnvs(oc)))
				}
				if cl := classify16(x, allowed); cl != "" {
					if cl == "infra-divergence" {
						r.Notes = append(r.Notes, "replay divergence in "+s.name()+": "+x.Diverged)
						r.Exhaustive = false
						return false
					}
					bad++
					// confirm: the same schedule must fail the same way twice
					x2 := vshim.Run(ch, s.bodies()...)
					if classify16(x2, allowed) == cl {
						r.Violate(*c16viol(s, cl, x, ch, allowed, c.Thorough()))
					} else {
						r.Notes = append(r.Notes, "non-reproducible failure in "+s.name())
					}
					if bad >= 3 {
						return false // enough witnesses for this scenario at this bound
					}
				}
				return true
			}, func() bool { return c.Expired() || c.OverMemory() })
			r.States += int64(st.Execs)
			r.Transitions += int64(st.Transitions)
			r.Validated += int64(st.Execs)
			r.Evaluations += int64(st.Execs)
			if st.MaxPoints > int(r.Counters["max_points_per_execution"]) {
				r.Counters["max_points_per_execution"] = int64(st.MaxPoints)
			}
			if st.Stopped {
				if c.Expired() || c.OverMemory() {
					r.Exhaustive = false
				}
				ss.done = true
				continue
			}
			ss.maxBound = b
			if bad > 0 {
				ss.done = true
			}
		}
		runtime.GC()
	}
	for si := range scns {
		s, ss := &scns[si], sts[si]
		r.SetAdd(fmt.Sprintf("scenario_shards_completed_at_preemption_bound_%d", ss.maxBound), fmt.Sprintf("%d/%d", si, c.Shard))
		if c.Shard == 0 {
			r.Count("scenarios", 1)
		}
		if si%7 == 0 && c.Shard == 0 {
			r.Sample(map[string]interface{}{"scenario": s.name(), "bound_completed": ss.maxBound, "distinct_outcomes": len(ss.outcomes)})
		}
	}
	// companion pass (one worker starts it)
	if c.Shard == 0 {
		if bin := os.Getenv("VERIF_RACE_BIN"); bin != "" {
			logp := filepath.Join(ev.Root, ".build", "run", "C16-race")
			old, _ := filepath.Glob(logp + ".*")
			for _, f := range old {
				os.Remove(f)
			}
			rep, tail, err := ev.RunOther(bin, "C16", c, []string{"VERIF_RACEPASS=1", "GORACE=log_path=" + logp + " halt_on_error=0 history_size=3"}, 5*time.Minute)
			if err != nil {
				r.Notes = append(r.Notes, "race companion pass failed to run: "+err.Error()+" "+lastN(tail, 300))
			} else {
				r.Count("racepass_executions", rep.Evaluations)
			}
			files, _ := filepath.Glob(logp + ".*")
			races := map[string]string{}
			for _, f := range files {
				b, _ := os.ReadFile(f)
				for k, v := range parseRaces(string(b)) {
					races[k] = v
				}
			}
			r.Count("racepass_distinct_races", int64(len(races)))
			for k, v := range races {
				r.Violate(ev.Violation{Property: "C16", Key: "race: " + k, What: "data race reported by the free-running -race companion pass",
					Case: ev.J(c16case{Scenario: "race:" + k}), Expected: "no data race", Observed: v})
			}
		} else {
			r.Notes = append(r.Notes, "race companion pass skipped (VERIF_RACE_BIN unset)")
		}
	}
}

func fnvs(s string) uint64 {
	h := uint64(14695981039346656037)
	for i := 0; i < len(s); i++ {
		h ^= uint64(s[i])
		h *= 1099511628211
	}
	return h
}

func lastN(s string, n int) string {
	if len(s) > n {
		return s[len(s)-n:]
	}
	return s
}

var reFrame = regexp.MustCompile(`(?m)^\s+(github\.com/bytedance/sonic[^\s(]*(?:\([^)]*\))?[^\s(]*)\(`)

// parseRaces extracts, for each race report, the first sonic frame of the two accesses.
func parseRaces(log string) map[string]string {
	out := map[string]string{}
	for _, blk := range strings.Split(log, "==================") {
		if !strings.Contains(blk, "DATA RACE") {
			continue
		}
		parts := regexp.MustCompile(`(?m)^(Read|Write|Previous read|Previous write|Goroutine) `).Split(blk, -1)
		var fr []string
		for _, p := range parts[1:] {
			if len(fr) == 2 {
				break
			}
			m := reFrame.FindStringSubmatch(p)
			if m != nil {
				fr = append(fr, strings.TrimPrefix(m[1], "github.com/bytedance/sonic/"))
			} else {
				fr = append(fr, "?")
			}
		}
		sort.Strings(fr)
		k := strings.Join(fr, " <-> ")
		if _, ok := out[k]; !ok {
			out[k] = clipS(blk, 1500)
		}
	}
	return out
}

func clipS(s string, n int) string {
	if len(s) > n {
		return s[:n] + "..."
	}
	return s
}

// c16racepass: the same scenario bodies, real goroutines, real sync, under -race.
func c16racepass(c *ev.Ctx, r *ev.Report) {
	scns := c16scenarios(c.Thorough())
	iters := 30
	for si := range scns {
		s := &scns[si]
		if strings.Contains(s.node.name, "malformed-inside") {
			continue // may deadlock for real (reported by the scheduler pass); never run it free
		}
		for it := 0; it < iters; it++ {
			bodies := s.bodies()
			var wg sync.WaitGroup
			start := make(chan struct{})
			for _, b := range bodies {
				wg.Add(1)
				b := b
				go func() { defer wg.Done(); defer func() { recover() }(); <-start; b() }()
			}
			close(start)
			wg.Wait()
			r.Evaluations++
		}
	}
	r.Distinct = int64(len(scns))
}
