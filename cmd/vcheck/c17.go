package main

// C17 — stream chunking independence (fault_enumeration, engine E4: environment answers).
//
// Decoder side: for every byte string E that is a stream of the STREAMS family or a prefix of
// one (the prefix is what the decoder has seen when the Reader fails), every scripted Reader
// that hands out E in consecutive Read results (all cuts, one optional (0,nil) read at every
// position, the terminal answer — io.EOF or a sentinel error — together with the last data or
// alone) is run against sonic's stream decoder for each option.DefaultDecoderBufferSize in
// {1,4,16,4096}. The oracle is encoding/json.Decoder on the unchunked bytes.
//
// Encoder side: every scripted Writer (per-call acceptance cap of every length, a failure at
// every Write call index with every accepted count) against every stream-encoder construction.

import (
	"bytes"
	"encoding/hex"
	"encoding/json"
	"errors"
	"fmt"
	"hash/fnv"
	"io"
	"os"
	"runtime"
	"runtime/debug"
	"sort"
	"strconv"
	"strings"
	"unsafe"

	"github.com/bytedance/sonic"
	"github.com/bytedance/sonic/encoder"
	"github.com/bytedance/sonic/option"

	sdec "github.com/bytedance/sonic/decoder"

	"verif/internal/ev"
)

// ---------------------------------------------------------------------------------------
// the finite spaces

var c17Values = []string{`1`, `"ab"`, `{"a":[1]}`, `[]`, `true`, `12.5e1`}
var c17Seps = []string{"", " ", "\n"}

// a negative size means: that size with the stream-buffer pool left ON (a released buffer is
// handed to the next decoder, so data that still refers to it is overwritten)
var c17BufSizes = []int{1, 4, 16, 4096, -4096}

const c17MaxStream = 20

// c17Tails: nothing, a space, a stray closer, junk, and every proper prefix of every value.
func c17Tails() []string {
	t := []string{"", " ", "]", "}", "x"}
	for _, v := range c17Values {
		for i := 1; i < len(v); i++ {
			t = append(t, v[:i])
		}
	}
	return t
}

// c17Streams: every (<=3 values) x separator x tail, at most c17MaxStream bytes, distinct
// byte strings, sorted.
func c17Streams() []string {
	set := map[string]bool{}
	tails := c17Tails()
	var rec func(parts []string)
	emit := func(parts []string) {
		for _, sep := range c17Seps {
			for _, tl := range tails {
				p := parts
				if tl != "" {
					p = append(append([]string{}, parts...), tl)
				}
				s := strings.Join(p, sep)
				if len(s) <= c17MaxStream {
					set[s] = true
				}
			}
		}
	}
	rec = func(parts []string) {
		emit(parts)
		if len(parts) == 3 {
			return
		}
		for _, v := range c17Values {
			rec(append(append([]string{}, parts...), v))
		}
	}
	rec(nil)
	out := make([]string, 0, len(set))
	for s := range set {
		out = append(out, s)
	}
	sort.Strings(out)
	return out
}

// c17Inputs: the decoder's possible complete inputs: (E, EOF) for E a stream; (E, reader
// error) for E any prefix of a stream (including the stream itself and the empty prefix).
type c17Input struct {
	eff   string
	fault bool
}

func c17Inputs() []c17Input {
	streams := c17Streams()
	pref := map[string]bool{}
	for _, s := range streams {
		for p := 0; p <= len(s); p++ {
			pref[s[:p]] = true
		}
	}
	ps := make([]string, 0, len(pref))
	for s := range pref {
		ps = append(ps, s)
	}
	sort.Strings(ps)
	out := make([]c17Input, 0, len(streams)+len(ps))
	for _, s := range streams {
		out = append(out, c17Input{s, false})
	}
	for _, s := range ps {
		out = append(out, c17Input{s, true})
	}
	// a fixed pseudo-random order (by hash): every worker gets the same mix of lengths and
	// shapes, and a run cut short by the deadline has still sampled the whole family
	h := func(x c17Input) uint64 {
		f := fnv.New64a()
		f.Write([]byte(x.eff))
		if x.fault {
			f.Write([]byte{1})
		}
		return f.Sum64()
	}
	sort.Slice(out, func(i, j int) bool {
		a, b := h(out[i]), h(out[j])
		if a != b {
			return a < b
		}
		if out[i].eff != out[j].eff {
			return out[i].eff < out[j].eff
		}
		return !out[i].fault && out[j].fault
	})
	return out
}

// ---------------------------------------------------------------------------------------
// scripted Reader

var c17Sentinel = errors.New("c17: injected reader failure")
var c17Runaway = errors.New("c17: reader called too often")
var c17WSentinel = errors.New("c17: injected writer failure")

type c17Reader struct {
	data     []byte
	ends     []int // cumulative piece end offsets; last == len(data) (empty when no data)
	pi       int
	pos      int
	zero     int // a (0,nil) answer is given once, just before piece `zero` starts; -1 = never
	with     bool
	end      error
	calls    int
	maxCalls int
	runaway  bool
	emptyBuf int
}

func (r *c17Reader) Read(p []byte) (int, error) {
	r.calls++
	if r.calls > r.maxCalls {
		r.runaway = true
		return 0, c17Runaway
	}
	if len(p) == 0 {
		r.calls--
		r.emptyBuf++
		if r.emptyBuf > 4096 {
			r.runaway = true
			return 0, c17Runaway
		}
		return 0, nil
	}
	if r.zero == r.pi {
		start := 0
		if r.pi > 0 {
			start = r.ends[r.pi-1]
		}
		if r.pos == start {
			r.zero = -1
			return 0, nil
		}
	}
	if r.pi >= len(r.ends) {
		return 0, r.end
	}
	e := r.ends[r.pi]
	n := copy(p, r.data[r.pos:e])
	r.pos += n
	if r.pos == e {
		r.pi++
		if r.pi == len(r.ends) && r.with {
			return n, r.end
		}
	}
	return n, nil
}

// ---------------------------------------------------------------------------------------
// running a decoder

const (
	c17tEOF    = iota // clean io.EOF
	c17tDATA          // data / syntax error (io.ErrUnexpectedEOF included)
	c17tRD            // the injected reader error, identical (==)
	c17tRDWRAP        // something that mentions / wraps the injected error but is not ==
	c17tNOPROG        // a successful Decode that did not advance
	c17tNOTERM        // Decode bound exhausted
	c17tPANIC
)

var c17TermName = []string{"clean-EOF", "data-error", "reader-error", "reader-error-altered", "no-progress", "no-termination", "panic"}

type c17Dec interface {
	Decode(interface{}) error
	More() bool
	Buffered() io.Reader
	InputOffset() int64
}

type c17Res struct {
	vals      []string
	ends      []int64
	mores     []bool
	kept      []interface{} // the decoded values themselves, re-examined when the run ends
	bufAfterD []int         // delivered-len(Buffered()) after each successful Decode (probe mode)
	bufAfterM []int         // the same after each More() (probe mode)
	term      int
	trunc     bool // reference only: terminal error is io.ErrUnexpectedEOF
	err       error
	stuckOn   string // no-progress: the kind of the first unread byte (from Buffered())
	errStr    string
	structKey string      // first internal-consistency failure
	structArg interface{} // its detail (formatted lazily)
}

func (a *c17Res) sameOutcome(b *c17Res) bool {
	if a.term != b.term || len(a.vals) != len(b.vals) {
		return false
	}
	for i := range a.vals {
		if a.vals[i] != b.vals[i] {
			return false
		}
	}
	return true
}

func (a *c17Res) String() string {
	es := a.errStr
	if a.err != nil {
		es = a.err.Error()
	}
	return fmt.Sprintf("values=[%s] terminal=%s (%.80q)", strings.Join(a.vals, " "), c17TermName[a.term], es)
}

func c17Canon(b []byte, v interface{}) []byte {
	switch x := v.(type) {
	case nil:
		return append(b, "null"...)
	case bool:
		return strconv.AppendBool(b, x)
	case float64:
		return strconv.AppendFloat(b, x, 'g', -1, 64)
	case string:
		return strconv.AppendQuote(b, x)
	case []interface{}:
		b = append(b, '[')
		for i, e := range x {
			if i > 0 {
				b = append(b, ',')
			}
			b = c17Canon(b, e)
		}
		return append(b, ']')
	case map[string]interface{}:
		ks := make([]string, 0, len(x))
		for k := range x {
			ks = append(ks, k)
		}
		sort.Strings(ks)
		b = append(b, '{')
		for i, k := range ks {
			if i > 0 {
				b = append(b, ',')
			}
			b = strconv.AppendQuote(b, k)
			b = append(b, ':')
			b = c17Canon(b, x[k])
		}
		return append(b, '}')
	}
	return append(b, fmt.Sprintf("?%T:%v", v, v)...)
}

func c17SafeDecode(d c17Dec, v *interface{}) (err error, pan interface{}) {
	defer func() {
		if e := recover(); e != nil {
			pan = e
		}
	}()
	return d.Decode(v), nil
}

var c17BufScratch [4096]byte

// c17SafeBuffered reads Buffered() completely (the result aliases a scratch array).
func c17SafeBuffered(d c17Dec) (b []byte, pan interface{}) {
	defer func() {
		if e := recover(); e != nil {
			pan = e
		}
	}()
	rd := d.Buffered()
	if br, ok := rd.(*bytes.Reader); ok && br.Len() <= len(c17BufScratch) {
		n, _ := br.Read(c17BufScratch[:br.Len()])
		return c17BufScratch[:n], nil
	}
	b, _ = io.ReadAll(rd)
	return b, nil
}

func c17ClassifyErr(err error) int {
	switch {
	case err == io.EOF:
		return c17tEOF
	case err == c17Sentinel:
		return c17tRD
	case errors.Is(err, c17Sentinel) || strings.Contains(err.Error(), c17Sentinel.Error()):
		return c17tRDWRAP
	}
	return c17tDATA
}

// c17Drive runs the Decode loop. rd tells how many stream bytes the Reader has handed out so
// far; eff is the complete byte string. The same consistency rules are evaluated for
// encoding/json (and must hold there, otherwise the rules are wrong). res is reset and filled.
func c17Drive(d c17Dec, eff []byte, rd c17Delivered, probe bool, res *c17Res) *c17Res {
	for i := range res.kept {
		res.kept[i] = nil
	}
	*res = c17Res{vals: res.vals[:0], ends: res.ends[:0], mores: res.mores[:0], kept: res.kept[:0], bufAfterD: res.bufAfterD[:0], bufAfterM: res.bufAfterM[:0], term: c17tNOTERM}
	// a value handed to the caller must not change when the decoder goes on reading
	defer func() {
		for i, v := range res.kept {
			c17CanonBuf = c17Canon(c17CanonBuf[:0], v)
			if string(c17CanonBuf) != res.vals[i] && res.structKey == "" {
				res.structKey, res.structArg = "decode:returned-value-changes-during-later-calls", fmt.Sprintf("value %d was %s, now %s", i, res.vals[i], c17CanonBuf)
			}
		}
	}()
	fail := func(key string, arg interface{}) {
		if res.structKey == "" {
			res.structKey, res.structArg = key, arg
		}
	}
	checkBuffered := func(when string) int {
		b, pan := c17SafeBuffered(d)
		if pan != nil {
			fail("decode:Buffered-panics-"+when, pan)
			return -1
		}
		dl := rd.Delivered()
		if len(b) > dl || !bytes.Equal(b, eff[dl-len(b):dl]) {
			fail("decode:Buffered-not-a-suffix-of-the-delivered-bytes-"+when, fmt.Sprintf("delivered=%q Buffered=%q", eff[:dl], b))
			return -1
		}
		return dl - len(b)
	}
	if off := d.InputOffset(); off != 0 {
		fail("decode:InputOffset-not-zero-initially", off)
	}
	maxDecode := len(eff) + 5
	for k := 0; k < maxDecode; k++ {
		if probe {
			res.mores = append(res.mores, d.More())
			res.bufAfterM = append(res.bufAfterM, checkBuffered("after-More"))
		}
		before := d.InputOffset()
		var v interface{}
		err, pan := c17SafeDecode(d, &v)
		if pan != nil {
			res.term, res.errStr = c17tPANIC, fmt.Sprint(pan)
			return res
		}
		after := d.InputOffset()
		if err != nil {
			res.term, res.err = c17ClassifyErr(err), err
			res.trunc = err == io.ErrUnexpectedEOF
			// the Reader's terminal answer is sticky (value-level data errors need not be)
			if res.term == c17tEOF || res.term == c17tRD {
				var v2 interface{}
				err2, pan2 := c17SafeDecode(d, &v2)
				switch {
				case pan2 != nil:
					fail("decode:panic-on-Decode-after-"+c17TermName[res.term], pan2)
				case err2 == nil:
					fail("decode:error-not-sticky-after-"+c17TermName[res.term], fmt.Sprintf("first %v, then success with %v", err, v2))
				case err2 != err:
					fail("decode:error-not-sticky-after-"+c17TermName[res.term], fmt.Sprintf("first %v, then %v", err, err2))
				}
			}
			if probe {
				if _, pan := c17SafeBuffered(d); pan != nil {
					fail(c17PanicKeys[res.term], pan)
				}
			}
			return res
		}
		c17CanonBuf = c17Canon(c17CanonBuf[:0], v)
		if after <= before {
			// success without consuming input
			res.term = c17tNOPROG
			res.stuckOn = "unknown"
			if b, pan := c17SafeBuffered(d); pan == nil {
				res.stuckOn = c17Kind(b, 0)
			}
			res.errStr = fmt.Sprintf("Decode returned nil with value %s, InputOffset %d -> %d", c17CanonBuf, before, after)
			return res
		}
		cs, ok := c17Intern[string(c17CanonBuf)]
		if !ok {
			cs = string(c17CanonBuf)
			if len(c17Intern) < 4096 {
				c17Intern[cs] = cs
			}
		}
		res.vals = append(res.vals, cs)
		res.kept = append(res.kept, v)
		res.ends = append(res.ends, after)
		if after > int64(rd.Delivered()) {
			fail("decode:InputOffset-beyond-delivered-bytes", fmt.Sprintf("InputOffset=%d delivered=%d", after, rd.Delivered()))
		}
		if probe {
			res.bufAfterD = append(res.bufAfterD, checkBuffered("after-Decode"))
		}
	}
	return res
}

var c17CanonBuf []byte
var c17Intern = map[string]string{}
var c17PanicKeys = func() []string {
	out := make([]string, len(c17TermName))
	for i, n := range c17TermName {
		_ = n
		out[i] = "decode:Buffered-panics-after-Decode-returned-an-error"
	}
	return out
}()

type c17Delivered interface{ Delivered() int }

func (r *c17Reader) Delivered() int  { return r.pos }
func (r *c17OneShot) Delivered() int { return r.pos }

// one decoder run of sonic under a script
type c17Script struct {
	ends  []int
	zero  int
	with  bool
	buf   int
	probe bool
	api   int // 0 = sonic.ConfigDefault.NewDecoder, 1 = decoder.NewStreamDecoder
}

var c17EmptyReads int64 // Read calls with len(p)==0 (tolerated, counted)

var c17OrigBuf, c17OrigLimit = option.DefaultDecoderBufferSize, option.LimitBufferSize

// c17SetBuf: the buffer size under test. Pooling of released stream buffers is switched off
// (option.LimitBufferSize=0, also a public tunable): a pooled buffer keeps the capacity it grew
// to, so with pooling the capacity a decoder starts with would depend on the cases run before.
// (Zero-capacity slices still pass through the pool — setErr releases a nil buffer — and make
// the decoder call Read with an empty buffer; the scripted reader answers (0,nil) to that
// without consuming a script step.)
func c17SetBuf(n int) {
	if n < 0 {
		option.DefaultDecoderBufferSize = uint(-n)
		option.LimitBufferSize = c17OrigLimit
		return
	}
	option.DefaultDecoderBufferSize = uint(n)
	option.LimitBufferSize = 0
}

func c17Restore() {
	option.DefaultDecoderBufferSize, option.LimitBufferSize = c17OrigBuf, c17OrigLimit
}

func c17RunSonic(eff []byte, fault bool, sc *c17Script, into *c17Res) (*c17Res, *c17Reader) {
	end := io.EOF
	if fault {
		end = c17Sentinel
	}
	// private exact-length copy for the reader
	data := append(make([]byte, 0, len(eff)), eff...)
	rd := &c17Reader{data: data, ends: sc.ends, zero: sc.zero, with: sc.with, end: end, maxCalls: 16*len(eff) + 64}
	c17SetBuf(sc.buf)
	var d c17Dec
	if sc.api == 1 {
		d = sdec.NewStreamDecoder(rd)
	} else {
		d = sonic.ConfigDefault.NewDecoder(rd).(c17Dec)
	}
	res := c17Drive(d, eff, rd, sc.probe, into)
	if rd.runaway && res.structKey == "" {
		res.structKey, res.structArg = "decode:unbounded-reads", fmt.Sprintf("%d Read calls for %d bytes", rd.calls, len(eff))
	}
	c17EmptyReads += int64(rd.emptyBuf)
	return res, rd
}

type c17OneShot struct {
	data []byte
	end  error
	pos  int
}

func (r *c17OneShot) Read(p []byte) (int, error) {
	if r.pos < len(r.data) {
		n := copy(p, r.data[r.pos:])
		r.pos += n
		return n, nil
	}
	return 0, r.end
}

func c17RunRef(eff []byte, fault bool) *c17Res {
	end := io.EOF
	if fault {
		end = c17Sentinel
	}
	rd := &c17OneShot{data: eff, end: end}
	return c17Drive(json.NewDecoder(rd), eff, rd, true, &c17Res{})
}

// ---------------------------------------------------------------------------------------
// classification (computed from the witness, never the raw stream)

func c17IsSpace(c byte) bool { return c == ' ' || c == '\n' || c == '\t' || c == '\r' }

func c17SkipSpace(eff []byte, i int) int {
	for i < len(eff) && c17IsSpace(eff[i]) {
		i++
	}
	return i
}

func c17Kind(eff []byte, i int) string {
	i = c17SkipSpace(eff, i)
	if i >= len(eff) {
		return "end-of-input"
	}
	switch c := eff[i]; {
	case c == '"':
		return "string"
	case c == '{' || c == '[':
		return "container"
	case c == ']' || c == '}':
		return "closing-bracket"
	case c == '-' || (c >= '0' && c <= '9'):
		return "number"
	case c == 't' || c == 'f' || c == 'n':
		return "literal"
	}
	return "junk"
}

// c17HasTopNumber: does a number token occur at the top level of the stream? (Numbers are the
// only tokens that are not self-delimiting; streams without them form their own stratum so
// that a defect confined to number framing cannot hide a different one.)
func c17HasTopNumber(eff []byte) bool {
	i := 0
	skipString := func() {
		i++
		for i < len(eff) && eff[i] != '"' {
			if eff[i] == '\\' {
				i++
			}
			i++
		}
		i++
	}
	for i < len(eff) {
		switch c := eff[i]; {
		case c == '"':
			skipString()
		case c == '{' || c == '[':
			depth := 0
			for i < len(eff) {
				switch eff[i] {
				case '"':
					skipString()
					continue
				case '{', '[':
					depth++
				case '}', ']':
					depth--
				}
				i++
				if depth == 0 {
					break
				}
			}
		case c == '-' || (c >= '0' && c <= '9'):
			return true
		default:
			i++
		}
	}
	return false
}

// c17TailClass describes what follows the last value the reference accepted.
func c17TailClass(eff []byte, ref *c17Res, fault bool) string {
	pos := 0
	if len(ref.ends) > 0 {
		pos = int(ref.ends[len(ref.ends)-1])
	}
	k := c17Kind(eff, pos)
	switch {
	case k == "end-of-input":
		return "nothing"
	case k == "closing-bracket":
		return "closing-bracket"
	case k == "string" || k == "literal" || k == "container":
		k = "value"
	}
	switch {
	case k == "junk":
		return "junk"
	case fault:
		return "incomplete-" + k
	case ref.term == c17tDATA && ref.trunc:
		return "truncated-" + k
	case ref.term == c17tDATA:
		return "malformed-" + k
	}
	return k
}

type c17Finding struct {
	key, what string
	detail    string      // lazily extended with the two outcomes by the reporter
	arg       interface{} // formatted lazily into detail
}

func c17Describe(f *c17Finding, r, ref *c17Res) (expected, observed string) {
	if a, ok := f.arg.([4]int64); ok {
		f.arg, f.detail = nil, fmt.Sprintf("after value %d InputOffset=%d, want %d..%d", a[0], a[1], a[2], a[3])
	}
	expected = "encoding/json.Decoder on the unchunked bytes: " + ref.String()
	observed = "sonic stream decoder: " + r.String()
	if f.arg != nil {
		f.detail = fmt.Sprint(f.arg)
	}
	if f.detail != "" {
		observed = f.detail + "; " + observed
	}
	return
}

// c17SelfDelimited: the last value of a clean stream ends in a token that needs no
// following byte to be known complete (string, literal, container) — such a value may be
// returned before a reader error although encoding/json happens to wait for one more byte.
func c17SelfDelimited(eff []byte, clean *c17Res) bool {
	n := len(clean.vals)
	if n == 0 || clean.term != c17tEOF {
		return false
	}
	start := 0
	if n > 1 {
		start = int(clean.ends[n-2])
	}
	k := c17Kind(eff, start)
	return k == "string" || k == "literal" || k == "container"
}

// c17Compare judges one sonic run against the reference (and names chunk dependence using
// the unchunked sonic run `base`, which may be nil when r is itself the base run).
// For fault inputs `clean` is the reference on the same bytes followed by io.EOF.
func c17Compare(eff []byte, fault bool, r, ref, clean, base *c17Res) []c17Finding {
	var out []c17Finding
	chunkDep := base != nil && !r.sameOutcome(base)
	add := func(key, what string) { out = append(out, c17Finding{key: key, what: what}) }
	if r.structKey != "" {
		out = append(out, c17Finding{key: r.structKey, what: "internal consistency of Decode/More/Buffered/InputOffset", arg: r.structArg})
	}
	if r.term == c17tPANIC {
		add("decode:panic-in-Decode", "Decode panicked")
	}
	// tolerated alternative for a reader error right after a self-delimited last value
	if fault && ref.term == c17tRD && r.term == c17tRD && len(r.vals) == len(ref.vals)+1 && clean != nil &&
		len(clean.vals) == len(r.vals) && c17SelfDelimited(eff, clean) {
		ref = &c17Res{vals: clean.vals, ends: clean.ends, term: c17tRD, errStr: ref.errStr}
	}
	// values: first divergence
	n := len(r.vals)
	if len(ref.vals) < n {
		n = len(ref.vals)
	}
	div := -1
	for i := 0; i < n; i++ {
		if r.vals[i] != ref.vals[i] {
			div = i
			break
		}
	}
	if div < 0 && r.term == c17tNOPROG {
		add("decode:no-progress-on-"+r.stuckOn, "Decode reports success without consuming input")
		return out
	}
	if div < 0 && len(r.vals) != len(ref.vals) && r.term != c17tPANIC {
		div = n
	}
	pfx := "decode:"
	if chunkDep {
		pfx = "decode:chunking-changes-values:"
	}
	if div >= 0 {
		// the class of the first divergence: what the reference sees at that point (a number
		// token, another value token, or no value: junk / closing bracket / end of input),
		// whether the token before it is a number (numbers are not self-delimiting) and whether
		// the two are separated by white space.
		prevEnd := 0
		if div > 0 {
			prevEnd = int(ref.ends[div-1])
		}
		where := c17Kind(eff, prevEnd)
		switch where {
		case "string", "literal", "container":
			where = "value"
		}
		if div >= len(ref.vals) && where == "value" {
			where = "incomplete-value"
		}
		ctx := "at-" + where
		if !c17HasTopNumber(eff) {
			ctx = "number-free-stream:" + ctx
		}
		if div > 0 {
			pstart := 0
			if div > 1 {
				pstart = int(ref.ends[div-2])
			}
			if c17Kind(eff, pstart) == "number" {
				ctx = "after-number"
				if c17SkipSpace(eff, prevEnd) == prevEnd {
					ctx += "-unseparated"
				}
			}
		}
		switch {
		case div >= len(ref.vals):
			add(pfx+"value-extra:"+ctx, "sonic returns a value where the reference reports "+c17TermName[ref.term])
		case div >= len(r.vals):
			add(pfx+"value-lost-or-altered:"+ctx, "sonic ends the stream before a value the reference returns")
		default:
			add(pfx+"value-lost-or-altered:"+ctx, "sonic returns a different value")
		}
		return out
	}
	if r.term == c17tPANIC {
		return out
	}
	// terminal condition. With a failing Reader *and* malformed data in front of the failure
	// either error is a truthful report; which one wins is not part of the property.
	if r.term != ref.term && !(fault && ref.term == c17tDATA && r.term == c17tRD) {
		tail := c17TailClass(eff, ref, fault)
		var key string
		switch {
		case ref.term == c17tDATA && r.term == c17tEOF && ref.trunc:
			key = "truncated-tail-reported-as-clean-EOF"
		case ref.term == c17tDATA && r.term == c17tEOF && tail == "closing-bracket":
			key = "closing-bracket-tail-reported-as-clean-EOF"
		case ref.term == c17tDATA && r.term == c17tEOF:
			key = "junk-tail-reported-as-clean-EOF"
		case ref.term == c17tRD:
			key = "reader-error-not-returned-unchanged:observed-" + c17TermName[r.term] + ":" + tail + "-tail"
		default:
			key = "terminal-differs:expected-" + c17TermName[ref.term] + ":observed-" + c17TermName[r.term] + ":" + tail + "-tail"
		}
		if chunkDep {
			key = "chunking-changes-terminal:" + key
		}
		add("decode:"+key, "terminal condition differs")
		return out
	}
	// same values, same terminal: offsets, Buffered and More()
	for i, e := range r.ends {
		lo := ref.ends[i]
		hi := int64(c17SkipSpace(eff, int(lo)))
		if e < lo || e > hi {
			key := "decode:InputOffset-before-end-of-returned-value"
			if e > hi {
				key = "decode:InputOffset-beyond-start-of-next-token"
			}
			out = append(out, c17Finding{key: key, what: "InputOffset after a successful Decode", arg: [4]int64{int64(i), e, lo, hi}})
			break
		}
	}
	for i, b := range r.bufAfterD {
		lo := int(ref.ends[i])
		if b >= 0 && (b < lo || b > c17SkipSpace(eff, lo)) {
			out = append(out, c17Finding{key: "decode:Buffered-does-not-start-between-end-of-value-and-next-token", what: "Buffered() after a successful Decode",
				detail: fmt.Sprintf("after value %d Buffered starts at %d, want %d..%d", i, b, lo, c17SkipSpace(eff, lo))})
			break
		}
	}
	for i, b := range r.bufAfterM {
		lo := 0
		if i > 0 && i-1 < len(ref.ends) {
			lo = int(ref.ends[i-1])
		}
		if b >= 0 && (b < lo || b > c17SkipSpace(eff, lo)) {
			out = append(out, c17Finding{key: "decode:Buffered-does-not-start-between-end-of-value-and-next-token", what: "Buffered() after More()",
				detail: fmt.Sprintf("after More() call %d Buffered starts at %d, want %d..%d", i, b, lo, c17SkipSpace(eff, lo))})
			break
		}
	}
	if len(r.mores) > 0 && len(r.mores) == len(ref.mores) {
		for i := range r.mores {
			if r.mores[i] != ref.mores[i] {
				out = append(out, c17Finding{key: "decode:More-differs-from-reference", what: "More() before Decode",
					detail: fmt.Sprintf("More() call %d: %v, reference %v", i, r.mores[i], ref.mores[i])})
				break
			}
		}
	}
	return out
}

// ---------------------------------------------------------------------------------------
// case description

type c17Case struct {
	Dir    string `json:"dir"`
	Stream string `json:"stream_hex,omitempty"` // the bytes the Reader delivers before its terminal answer
	Text   string `json:"stream_text,omitempty"`
	Fault  bool   `json:"reader_error_after_stream"` // false: io.EOF
	Cuts   []int  `json:"cuts"`                      // cumulative piece end offsets
	Zero   int    `json:"zero_read_before_piece"`
	With   bool   `json:"terminal_with_last_data"`
	Buf    int    `json:"buffer_size"`
	Probe  bool   `json:"probe_more_buffered"`
	API    int    `json:"api"`
	// encoder
	Cfg       int   `json:"enc_cfg,omitempty"`
	Vals      []int `json:"enc_vals,omitempty"`
	Cap       int   `json:"write_cap,omitempty"`
	FaultCall int   `json:"fault_call,omitempty"`
	FaultN    int   `json:"fault_n,omitempty"`
	FaultErr  int   `json:"fault_err,omitempty"`
}

// c17Refs: the reference outcomes of one decoder input.
type c17Refs struct {
	ref   *c17Res // encoding/json on the unchunked bytes with the same terminal answer
	clean *c17Res // fault inputs: encoding/json on the same bytes followed by io.EOF
	base  *c17Res // sonic, one Read, buffer 4096, terminal answer alone
}

func c17GetRefs(eff []byte, fault bool) *c17Refs {
	x := &c17Refs{ref: c17RunRef(eff, fault)}
	if fault {
		x.clean = c17RunRef(eff, false)
	}
	x.base, _ = c17RunSonic(eff, fault, c17BaseScript(len(eff)), &c17Res{})
	return x
}

func c17BaseScript(n int) *c17Script {
	sc := &c17Script{zero: -1, buf: 4096}
	if n > 0 {
		sc.ends = []int{n}
	}
	return sc
}

func c17IsBase(sc *c17Script) bool {
	return len(sc.ends) <= 1 && sc.zero == -1 && !sc.with && sc.buf == 4096 && !sc.probe && sc.api == 0
}

// c17Scratch: the result of the run being judged (consumed before the next run starts).
var c17Scratch c17Res

func c17JudgeDecode(x *c17Refs, eff []byte, fault bool, sc *c17Script) ([]c17Finding, *c17Res) {
	r, _ := c17RunSonic(eff, fault, sc, &c17Scratch)
	base := x.base
	if c17IsBase(sc) {
		base = nil
	}
	return c17Compare(eff, fault, r, x.ref, x.clean, base), r
}

func c17MkCase(eff []byte, fault bool, sc *c17Script) c17Case {
	return c17Case{Dir: "decode", Stream: hex.EncodeToString(eff), Text: string(eff), Fault: fault, Cuts: append([]int{}, sc.ends...),
		Zero: sc.zero, With: sc.with, Buf: sc.buf, Probe: sc.probe, API: sc.api}
}

// ---------------------------------------------------------------------------------------
// encoder side

var c17EncValues = []interface{}{
	float64(1), "ab", map[string]interface{}{"a": []interface{}{float64(1)}}, []interface{}{}, true, float64(125),
}

type c17Writer struct {
	got       []byte
	cap       int // bytes accepted per call when not failing (0 = everything)
	faultCall int // -1 = never
	faultN    int
	faultErr  error
	calls     int
	lens      []int // len(p) of every call
	failed    bool
	afterFail int
	faultNL   bool // the failing call carried exactly the newline
	runaway   bool
}

func (w *c17Writer) Write(p []byte) (int, error) {
	if w.failed {
		w.afterFail++
		return 0, w.faultErr
	}
	idx := w.calls
	w.calls++
	if w.calls > 512 {
		w.runaway = true
		return 0, c17Runaway
	}
	w.lens = append(w.lens, len(p))
	if idx == w.faultCall {
		n := w.faultN
		if n > len(p) {
			n = len(p)
		}
		w.got = append(w.got, p[:n]...)
		w.failed = true
		w.faultNL = len(p) == 1 && p[0] == '\n'
		return n, w.faultErr
	}
	n := len(p)
	if w.cap > 0 && n > w.cap {
		n = w.cap
	}
	w.got = append(w.got, p[:n]...)
	return n, nil
}

const c17NEncCfg = 6

var c17EncCfgName = []string{"ConfigDefault.NewEncoder", "Config{NoEncoderNewline}.NewEncoder", "encoder.NewStreamEncoder",
	"encoder.NewStreamEncoder+SetNoEncoderNewline", "ConfigDefault.NewEncoder+SetIndent", "Config{NoEncoderNewline}.NewEncoder+SetIndent"}

var c17NoNL = sonic.Config{NoEncoderNewline: true}.Froze()

type c17Enc interface{ Encode(interface{}) error }

func c17MkEncoder(cfg int, w io.Writer) (c17Enc, bool, bool) { // encoder, newline, indent
	switch cfg {
	case 0:
		return sonic.ConfigDefault.NewEncoder(w), true, false
	case 1:
		return c17NoNL.NewEncoder(w), false, false
	case 2:
		return encoder.NewStreamEncoder(w), true, false
	case 3:
		e := encoder.NewStreamEncoder(w)
		e.SetNoEncoderNewline(true)
		return e, false, false
	case 4:
		e := sonic.ConfigDefault.NewEncoder(w)
		e.SetIndent("", " ")
		return e, true, true
	default:
		e := c17NoNL.NewEncoder(w)
		e.SetIndent("", " ")
		return e, false, true
	}
}

func c17EncExpected(cfg int, vals []int) (per [][]byte, err error) {
	_, nl, indent := c17MkEncoder(cfg, io.Discard)
	for _, vi := range vals {
		var b []byte
		if indent {
			b, err = sonic.ConfigDefault.MarshalIndent(c17EncValues[vi], "", " ")
		} else {
			b, err = sonic.ConfigDefault.Marshal(c17EncValues[vi])
		}
		if err != nil {
			return nil, err
		}
		b = append([]byte{}, b...)
		if nl {
			b = append(b, '\n')
		}
		per = append(per, b)
	}
	return per, nil
}

// c17RunEncode performs the Encode calls against the scripted writer and judges them.
type c17EncFinding struct{ key, what, expected, observed string }

func c17RunEncode(cs *c17Case) (*c17EncFinding, *c17Writer) {
	per, err := c17EncExpected(cs.Cfg, cs.Vals)
	if err != nil {
		return &c17EncFinding{"encode:reference-marshal-failed", "Marshal failed", "", err.Error()}, nil
	}
	var ferr error
	switch cs.FaultErr {
	case 1:
		ferr = io.ErrShortWrite
	case 2:
		ferr = c17WSentinel
	}
	w := &c17Writer{cap: cs.Cap, faultCall: cs.FaultCall, faultN: cs.FaultN, faultErr: ferr}
	if ferr == nil {
		w.faultCall = -1
	}
	enc, _, indent := c17MkEncoder(cs.Cfg, w)
	var want []byte
	which := "value-bytes"
	mk := func(key, what, exp, obs string) (*c17EncFinding, *c17Writer) {
		path := "plain"
		if indent {
			path = "indent"
		}
		return &c17EncFinding{"encode:" + key + ":" + path + "-path", what, exp, obs}, w
	}
	for i, vi := range cs.Vals {
		want = append(want, per[i]...)
		var e error
		var pan interface{}
		func() {
			defer func() { pan = recover() }()
			e = enc.Encode(c17EncValues[vi])
		}()
		if pan != nil {
			return mk("panic", "Encode panicked", "", fmt.Sprint(pan))
		}
		if w.runaway {
			return mk("unbounded-writes", "Encode keeps calling Write", "", fmt.Sprint(w.calls))
		}
		if w.failed {
			if w.faultNL {
				which = "newline"
			}
			if e == nil {
				return mk(which+"-write-error-dropped", "the Writer failed but Encode returned nil",
					fmt.Sprintf("Encode returns %v", ferr), fmt.Sprintf("nil; writer got %q", w.got))
			}
			if e != ferr {
				return mk(which+"-write-error-altered", "Encode returns a different error than the Writer's",
					fmt.Sprintf("%v", ferr), fmt.Sprintf("%v", e))
			}
			if w.afterFail > 0 {
				return mk("write-after-"+which+"-write-error", "Encode keeps writing after the Writer failed", "no further Write", fmt.Sprint(w.afterFail, " more calls"))
			}
			if !bytes.HasPrefix(want, w.got) {
				return mk("bytes-differ-before-failure", "the Writer received bytes that are not a prefix of Marshal's", fmt.Sprintf("%q", want), fmt.Sprintf("%q", w.got))
			}
			return nil, w
		}
		if e != nil {
			// no injected failure. The only acceptable error is io.ErrShortWrite when the writer
			// accepted fewer bytes than offered without reporting an error (a Writer outside the
			// io.Writer contract).
			if e == io.ErrShortWrite && cs.Cap > 0 && bytes.HasPrefix(want, w.got) {
				return nil, w
			}
			return mk("spurious-error", "Encode fails although the Writer never failed", "nil", e.Error())
		}
		if !bytes.Equal(w.got, want) {
			cls := "bytes-differ"
			if cs.Cap > 0 {
				cls = "bytes-differ-under-short-writes-without-error"
			}
			return mk(cls, "the Writer did not receive exactly Marshal's bytes (plus newline)", fmt.Sprintf("%q", want), fmt.Sprintf("%q", w.got))
		}
	}
	return nil, w
}

// ---------------------------------------------------------------------------------------
// enumeration

// c17ForEachCut calls f with the cumulative piece ends of every admissible cut of m bytes.
func c17ForEachCut(m, fullN int, f func(ends []int)) {
	ends := make([]int, 0, m+1)
	if m == 0 {
		f(ends)
		return
	}
	emit := func(mask uint32) {
		ends = ends[:0]
		for j := 0; j < m-1; j++ {
			if mask&(1<<uint(j)) != 0 {
				ends = append(ends, j+1)
			}
		}
		ends = append(ends, m)
		f(ends)
	}
	if m <= fullN {
		for mask := uint32(0); mask < 1<<uint(m-1); mask++ {
			emit(mask)
		}
		return
	}
	emit(0)
	for a := 0; a < m-1; a++ {
		emit(1 << uint(a))
		for b := a + 1; b < m-1; b++ {
			emit(1<<uint(a) | 1<<uint(b))
		}
	}
	emit(1<<uint(m-1) - 1)
}

func c17AppendCase(b []byte, effHex string, fault bool, sc *c17Script) []byte {
	b = append(b, `{"dir":"decode","stream_hex":"`...)
	b = append(b, effHex...)
	b = append(b, `","reader_error_after_stream":`...)
	b = strconv.AppendBool(b, fault)
	b = append(b, `,"cuts":[`...)
	for i, e := range sc.ends {
		if i > 0 {
			b = append(b, ',')
		}
		b = strconv.AppendInt(b, int64(e), 10)
	}
	b = append(b, `],"zero_read_before_piece":`...)
	b = strconv.AppendInt(b, int64(sc.zero), 10)
	b = append(b, `,"terminal_with_last_data":`...)
	b = strconv.AppendBool(b, sc.with)
	b = append(b, `,"buffer_size":`...)
	b = strconv.AppendInt(b, int64(sc.buf), 10)
	b = append(b, `,"probe_more_buffered":`...)
	b = strconv.AppendBool(b, sc.probe)
	b = append(b, `,"api":`...)
	b = strconv.AppendInt(b, int64(sc.api), 10)
	return append(b, '}')
}

func c17RunAll(c *ev.Ctx, r *ev.Report) {
	defer c17Restore()
	// tens of millions of tiny decoder objects: collect a little less often (measured optimum;
	// no effect on what is checked)
	defer debug.SetGCPercent(debug.SetGCPercent(200))
	// the worker is one goroutine; 16 workers x GOMAXPROCS=16 collector threads only fight
	// (measured: 4x the throughput with 1)
	defer runtime.GOMAXPROCS(runtime.GOMAXPROCS(1))
	fullN := 10
	if c.Thorough() {
		fullN = 12
	}
	inputs := c17Inputs()
	distinct := map[string]struct{}{}
	var caseBuf []byte
	cnt := 0
	expired := false
	perKey := map[string]int{}
	var nViol, nConform, nZero, nWith, nFull, nThree, nProbe int64
	// per key the two smallest witnesses (stream length, pieces, zero read, probes, buffer size)
	// met by this worker are kept and reported when the enumeration ends
	type witness struct {
		size int
		v    ev.Violation
	}
	best := map[string][]witness{}
	report := func(eff []byte, fault bool, sc *c17Script, x *c17Refs, res *c17Res, fs []c17Finding) {
		nViol++
		size := len(eff)*1000 + len(sc.ends)*20
		if sc.zero >= 0 {
			size += 5
		}
		if sc.probe {
			size += 3
		}
		if sc.with {
			size += 2
		}
		if sc.buf != 4096 {
			size += 10
		}
		for i := range fs {
			f := &fs[i]
			perKey[f.key]++
			b := best[f.key]
			if len(b) == 2 && size >= b[1].size {
				continue
			}
			exp, obs := c17Describe(f, res, x.ref)
			w := witness{size, ev.Violation{Property: "C17", Key: f.key, What: f.what, Case: ev.J(c17MkCase(eff, fault, sc)), Expected: exp, Observed: obs}}
			if len(b) < 2 {
				b = append(b, w)
			} else {
				b[1] = w
			}
			if len(b) == 2 && b[1].size < b[0].size {
				b[0], b[1] = b[1], b[0]
			}
			best[f.key] = b
		}
	}
	defer func() {
		keys := make([]string, 0, len(best))
		for k := range best {
			keys = append(keys, k)
		}
		sort.Strings(keys)
		for _, k := range keys {
			for _, w := range best[k] {
				r.Violate(w.v)
			}
		}
	}()
	unit := 0
	only := os.Getenv("C17_ONLY") // development aid: "encode" skips the decoder half, "decode" the encoder half
	for _, in := range inputs {
		if only == "encode" {
			break
		}
		eff := []byte(in.eff)
		effHex := hex.EncodeToString(eff)
		for _, bs := range c17BufSizes {
			unit++
			if !c.Mine(unit) || expired {
				continue
			}
			m := len(eff)
			x := c17GetRefs(eff, in.fault)
			ref := x.ref
			// the consistency rules themselves must hold for the reference
			if ref.structKey != "" {
				r.Violate(ev.Violation{Property: "C17", Key: "check-self-test:reference:" + ref.structKey, What: "the consistency rules fail on encoding/json itself",
					Case: ev.J(c17MkCase(eff, in.fault, c17BaseScript(m))), Observed: fmt.Sprint(ref.structArg)})
			}
			if fs := c17Compare(eff, in.fault, ref, ref, x.clean, nil); len(fs) > 0 {
				r.Violate(ev.Violation{Property: "C17", Key: "check-self-test:reference:" + fs[0].key, What: "the comparison rules reject encoding/json itself",
					Case: ev.J(c17MkCase(eff, in.fault, c17BaseScript(m))), Observed: fmt.Sprint(fs[0].detail, fs[0].arg)})
			}
			r.SetAdd("reference_outcome_classes", fmt.Sprintf("%d-values/%s/%s-tail", len(ref.vals), c17TermName[ref.term], c17TailClass(eff, ref, in.fault)))
			distinct[fmt.Sprintf("%s/%v/%d", in.eff, in.fault, bs)] = struct{}{}
			if in.fault {
				r.Count("inputs_reader_error_after_prefix_x_bufsize", 1)
			} else {
				r.Count("inputs_stream_then_EOF_x_bufsize", 1)
			}
			sc := &c17Script{buf: bs}
			// both entry points on the unchunked script
			if bs == 4096 {
				for api := 0; api < 2; api++ {
					b := c17BaseScript(m)
					b.api = api
					caseBuf = c17AppendCase(caseBuf[:0], effHex, in.fault, b)
					c.SetCase(unsafe.String(&caseBuf[0], len(caseBuf))) // copied at once by SetCase
					fs, res := c17JudgeDecode(x, eff, in.fault, b)
					r.Evaluations++
					r.Count("decode_runs_unchunked", 1)
					r.SetAdd("sonic_outcome_classes", fmt.Sprintf("%d-values/%s", len(res.vals), c17TermName[res.term]))
					if len(fs) > 0 {
						report(eff, in.fault, b, x, res, fs)
					} else {
						nConform++
					}
				}
			}
			c17ForEachCut(m, fullN, func(ends []int) {
				if expired {
					return
				}
				cnt++
				if cnt&0x3ff == 0 && c.Expired() {
					expired = true
					r.Exhaustive = false
					return
				}
				sc.ends = ends
				np := len(ends)
				for w := 0; w < 2; w++ {
					sc.with = w == 1
					if sc.with && m == 0 {
						continue
					}
					for z := -1; z <= np; z++ {
						if sc.with && z == np {
							continue
						}
						// quick tier, long inputs: zero-byte reads only in cuts of <=2 pieces and in the all-singletons cut
						if z >= 0 && m > fullN && np > 2 && np < m && !c.Thorough() {
							continue
						}
						// quick tier: zero-byte reads are not crossed with terminal-with-last-data
						if z >= 0 && sc.with && !c.Thorough() {
							continue
						}
						sc.zero = z
						for p := 0; p < 2; p++ {
							sc.probe = p == 1
							// quick tier: the More/Buffered probes are not crossed with the zero-byte reads
							if sc.probe && z >= 0 && !c.Thorough() {
								continue
							}
							caseBuf = c17AppendCase(caseBuf[:0], effHex, in.fault, sc)
							c.SetCase(unsafe.String(&caseBuf[0], len(caseBuf))) // copied at once by SetCase
							fs, res := c17JudgeDecode(x, eff, in.fault, sc)
							r.Evaluations++
							if z >= 0 {
								nZero++
							}
							if sc.with {
								nWith++
							}
							if sc.probe {
								nProbe++
							}
							if m <= fullN {
								nFull++
							} else {
								nThree++
							}
							if len(fs) > 0 {
								report(eff, in.fault, sc, x, res, fs)
							} else {
								nConform++
							}
						}
					}
				}
			})
		}
	}
	r.Count("decode_runs_with_zero_byte_read", nZero)
	r.Count("decode_runs_terminal_with_last_data", nWith)
	r.Count("decode_runs_with_More_Buffered_probes", nProbe)
	r.Count("decode_runs_in_full_cut_enumeration", nFull)
	r.Count("decode_runs_in_3_piece_cut_enumeration", nThree)
	r.Count("decode_runs_conforming", nConform)
	r.Count("decode_runs_violating", nViol)
	r.Count("decode_Read_calls_with_empty_buffer_tolerated", c17EmptyReads)
	for k, n := range perKey {
		r.Count("cases["+k+"]", int64(n))
	}
	if c.Shard == 0 {
		r.Count("decode_inputs_total", int64(len(inputs)))
	}
	// ---- encoder
	c17Restore()
	seqs := [][]int{}
	for a := range c17EncValues {
		seqs = append(seqs, []int{a})
		for b := range c17EncValues {
			seqs = append(seqs, []int{a, b})
		}
	}
	for cfg := 0; cfg < c17NEncCfg && only != "decode"; cfg++ {
		for _, vals := range seqs {
			unit++
			if !c.Mine(unit) || expired {
				continue
			}
			if c.Expired() {
				expired = true
				r.Exhaustive = false
				break
			}
			per, err := c17EncExpected(cfg, vals)
			if err != nil {
				continue
			}
			total := 0
			for _, p := range per {
				total += len(p)
			}
			distinct[fmt.Sprintf("enc/%d/%v", cfg, vals)] = struct{}{}
			for cp := 0; cp <= total; cp++ { // 0 = accept everything
				cs := &c17Case{Dir: "encode", Cfg: cfg, Vals: vals, Cap: cp, FaultCall: -1}
				c.SetCase(string(ev.J(cs)))
				f, w := c17RunEncode(cs)
				r.Evaluations++
				r.Count("encode_runs_no_failure", 1)
				if cp > 0 {
					r.Count("encode_runs_short_writes_without_error", 1)
				}
				if f != nil {
					r.Violate(ev.Violation{Property: "C17", Key: f.key, What: f.what + " [" + c17EncCfgName[cfg] + "]", Case: ev.J(cs), Expected: f.expected, Observed: f.observed})
					continue
				}
				// failure at every write call, every accepted count, both error values
				lens := append([]int{}, w.lens...)
				for call, L := range lens {
					for n := 0; n <= L; n++ {
						if cp > 0 && n > cp {
							break
						}
						for fe := 1; fe <= 2; fe++ {
							fc := &c17Case{Dir: "encode", Cfg: cfg, Vals: vals, Cap: cp, FaultCall: call, FaultN: n, FaultErr: fe}
							f, fw := c17RunEncode(fc)
							r.Evaluations++
							r.Count("encode_runs_with_write_failure", 1)
							if fw != nil && fw.faultNL {
								r.Count("encode_runs_failure_on_newline_write", 1)
							}
							if f != nil {
								r.Violate(ev.Violation{Property: "C17", Key: f.key, What: f.what + " [" + c17EncCfgName[cfg] + "]", Case: ev.J(fc), Expected: f.expected, Observed: f.observed})
							}
						}
					}
				}
			}
		}
	}
	r.Distinct = int64(len(distinct))
	r.Sample(map[string]interface{}{"stream": `1 "ab"`, "cuts": []int{1, 3, 6}, "zero_read_before_piece": 1, "terminal": "EOF with last data", "buffer_size": 4})
	r.Sample(map[string]interface{}{"stream": `{"a":[1]}` + "\n" + `tr`, "cuts": []int{5, 12}, "terminal": "sentinel error alone", "buffer_size": 1})
}

func init() {
	ev.Register(&ev.Check{
		ID: "C17", Level: "fault_enumeration", Workers: 16, QuickSecs: 150, ThorSecs: 1500,
		Rule: "decoder inputs: every stream (<=3 values of 6) x separator {none,space,newline} x tail {none,space,],},x, proper value prefixes}, <=20 bytes, followed by io.EOF, " +
			"and every prefix of such a stream followed by a sentinel reader error; reader answers: all 2^(n-1) cuts for n<=10 (12 thorough), else all cuts into <=3 pieces plus all-singletons; " +
			"x (no | one (0,nil) read before any piece or before the terminal answer) x terminal answer (with last data | alone) x DefaultDecoderBufferSize {1,4,16,4096} x (Decode only | More+Buffered probes) " +
			"[quick tier only: zero-byte reads are crossed neither with the probes nor with terminal-with-last-data, and for n>10 only with cuts of <=2 pieces and the all-singletons cut]; " +
			"both constructors on the unchunked script; " +
			"oracle: values and terminal class {clean EOF, data error, reader error ==} equal encoding/json.Decoder on the unchunked bytes (tolerated: a self-delimited last value returned before a reader error; " +
			"the reader error instead of the data error when both are present); equal to unchunked sonic (names the class); every successful Decode advances InputOffset; at most len+5 Decode calls; EOF/reader error sticky; " +
			"InputOffset within [end of value, start of next]; Buffered() a suffix of the delivered bytes starting there; Buffered() never panics; More() equal to the reference's; returned values do not change afterwards. " +
			"encoder: 6 constructions x value sequences of length 1..2 x per-call acceptance cap 0..len (short writes without error) x failure at every Write call with every accepted count x {io.ErrShortWrite, sentinel}; " +
			"oracle: Writer received exactly Marshal(+newline) bytes (a prefix up to the failure), Encode returns the Writer's error ==, no Write after a failure. " +
			"distinct_nontrivial = distinct (decoder input, buffer size) pairs + distinct (encoder construction, value sequence) pairs (measured, set)",
		Assume: []string{"encoding/json.Decoder on the unchunked bytes is the reference for value framing and terminal class",
			"a Reader that failed keeps returning the same error; a Reader at EOF keeps returning io.EOF; a Read with an empty buffer is answered (0,nil)",
			"stream-buffer pooling is disabled (option.LimitBufferSize=0) during decoder runs so that buffer capacities are a function of the case alone"},
		Run: c17RunAll,
		Replay: func(c *ev.Ctx, desc json.RawMessage) *ev.Violation {
			defer c17Restore()
			var cs c17Case
			if err := json.Unmarshal(desc, &cs); err != nil {
				return nil
			}
			if cs.Dir == "encode" {
				f, _ := c17RunEncode(&cs)
				if f == nil {
					return nil
				}
				return &ev.Violation{Property: "C17", Key: f.key, What: f.what, Case: ev.J(cs), Expected: f.expected, Observed: f.observed}
			}
			eff, _ := hex.DecodeString(cs.Stream)
			sc := &c17Script{ends: cs.Cuts, zero: cs.Zero, with: cs.With, buf: cs.Buf, probe: cs.Probe, api: cs.API}
			if sc.buf == 0 {
				sc.buf = 4096
			}
			x := c17GetRefs(eff, cs.Fault)
			fs, res := c17JudgeDecode(x, eff, cs.Fault, sc)
			if len(fs) == 0 {
				return nil
			}
			f := &fs[0]
			exp, obs := c17Describe(f, res, x.ref)
			return &ev.Violation{Property: "C17", Key: f.key, What: f.what, Case: ev.J(c17MkCase(eff, cs.Fault, sc)), Expected: exp, Observed: obs}
		},
	})
}
