package main

import (
	"bytes"
	"encoding/json"
	"fmt"
	"os"
	"regexp"
	"strings"

	"verif/internal/ev"
)

// C11 / C12 / C13: start-up configuration equivalence (engine E5).

func xReplay(prop string, cfgs []xcfgSpec) func(c *ev.Ctx, desc json.RawMessage) *ev.Violation {
	return func(c *ev.Ctx, desc json.RawMessage) *ev.Violation {
		// a replay re-runs the comparison for the recorded suite on every shard's unit is too
		// coarse; instead the recorded case id is looked up by enumerating the suite in both
		// configurations with a filter.
		var cs map[string]string
		json.Unmarshal(desc, &cs)
		s := xsuites[cs["suite"]]
		if s == nil {
			return nil
		}
		if os.Getenv("VERIF_XREPLAY_CHILD") != "" {
			return nil
		}
		obs := map[string]string{}
		for _, cfg := range cfgs {
			if cfg.name != cfgs[0].name && cfg.name != cs["cfg"] {
				continue
			}
			out, err := runReplayChild(c, prop, cs["suite"], cfg, cs["id"])
			if err != nil {
				fmt.Println("replay child failed:", err)
				return nil
			}
			obs[cfg.name] = out
		}
		if obs[cfgs[0].name] != obs[cs["cfg"]] {
			return &ev.Violation{Property: prop, Key: cs["cfg"] + ":" + xkeyShape(cs["id"], obs[cfgs[0].name], obs[cs["cfg"]]),
				What: "observation differs between configurations", Case: desc, Expected: clipS(obs[cfgs[0].name], 300), Observed: clipS(obs[cs["cfg"]], 300)}
		}
		return nil
	}
}

// runReplayChild enumerates the suite (all shards) in a child with the configuration's
// environment until the case id matches and returns its observation.
func runReplayChild(c *ev.Ctx, prop, suite string, cfg xcfgSpec, id string) (string, error) {
	path := fmt.Sprintf("%s/.build/run/%s-replay-%s.json", ev.Root, prop, strings.ReplaceAll(cfg.name, "/", "_"))
	cc := *c
	cc.Shard, cc.NShard = 0, 1
	os.Setenv("VERIF_SUITE_FIND", id)
	defer os.Unsetenv("VERIF_SUITE_FIND")
	if err := runSuiteChild(&cc, prop, suite, cfg, "", path); err != nil {
		return "", err
	}
	b, err := os.ReadFile(path)
	if err != nil {
		return "", err
	}
	var m map[string]string
	json.Unmarshal(b, &m)
	return m["obs"], nil
}

func init() {
	c11cfgs := []xcfgSpec{
		{"jitdec(default)", []string{"SONIC_USE_OPTDEC=", "SONIC_USE_FASTMAP="}},
		{"optdec", []string{"SONIC_USE_OPTDEC=1", "SONIC_USE_FASTMAP="}},
		{"optdec+fastmap", []string{"SONIC_USE_OPTDEC=1", "SONIC_USE_FASTMAP=1"}},
	}
	ev.Register(&ev.Check{
		ID: "C11", Level: "exploration", Workers: 16, QuickSecs: 200, ThorSecs: 1500,
		Rule: "the C01 decode suite restricted to valid documents (values compared) and structurally malformed ones (must be rejected) x 50 destination types x 5 configurations is enumerated in three separate processes (default JIT decoder, SONIC_USE_OPTDEC=1, SONIC_USE_OPTDEC=1+SONIC_USE_FASTMAP=1) through the real start-up selection; the 64-bit digests of the observations (error | canonical value dump) are compared case by case and a mismatching case is regenerated in full; " +
			"every structurally malformed document must be an error in all three. distinct_nontrivial = distinct observation digests of the reference configuration",
		Assume: []string{"a 64-bit FNV digest collision could hide a difference (probability ~1e-12 per run)", "errors are compared as a class, values by canonical dump"},
		Run: func(c *ev.Ctx, r *ev.Report) {
			if xchild(c, r) {
				return
			}
			xcompare(c, r, "C11", "dec11", c11cfgs, c11key)
			r.Sample(map[string]string{"suite": "dec", "configs": "jitdec | optdec | optdec+fastmap"})
		},
		Replay: xReplay("C11", c11cfgs),
	})
	c12cfgs := []xcfgSpec{
		{"jit(default)", []string{"SONIC_ENCODER_USE_VM="}},
		{"vm", []string{"SONIC_ENCODER_USE_VM=1"}},
	}
	ev.Register(&ev.Check{
		ID: "C12", Level: "exploration", Workers: 16, QuickSecs: 200, ThorSecs: 1500,
		Rule: "the C04 encode suite (boundary values of ~250 types, by value and through a pointer, x ALL 512 encoder option sets, cyclic and deep values) and the C03 suite (full type grammar under ConfigStd) are enumerated in two processes (JIT back end, SONIC_ENCODER_USE_VM=1); outputs must be byte-identical or both errors (digest comparison case by case, mismatches regenerated in full). " +
			"Suite hist: every two-step history (any operation of C09's alphabet incl. Pretouch with compile options and PretouchMany, then any observing operation) from reset caches - the interpreter has its own ahead-of-time compile walk. " +
			"distinct_nontrivial = distinct observation digests of the reference configuration",
		Assume: []string{"a 64-bit FNV digest collision could hide a difference"},
		Run: func(c *ev.Ctx, r *ev.Report) {
			if xchild(c, r) {
				return
			}
			xcompare(c, r, "C12", "hist", c12cfgs, c12key)
			xcompare(c, r, "C12", "enc", c12cfgs, c12key)
			xcompare(c, r, "C12", "enc-types", c12cfgs, c12key)
			r.Sample(map[string]string{"suite": "enc + enc-types", "configs": "jit | vm"})
		},
		Replay: xReplay("C12", c12cfgs),
	})
	c13cfgs := []xcfgSpec{
		{"avx2(auto)", []string{"SONIC_MODE="}},
		{"sse(noavx2)", []string{"SONIC_MODE=noavx2"}},
	}
	ev.Register(&ev.Check{
		ID: "C13", Level: "exploration", Workers: 16, QuickSecs: 240, ThorSecs: 1800,
		Rule: "five suites are enumerated in two processes (SONIC_MODE unset = AVX2 on this host, SONIC_MODE=noavx2 = SSE): structural validation of token strings and length strata through 17 consuming APIs; the C01 decode suite; the C03 encode suite; " +
			"native string routines (Quote, unquote, HTMLEscape, utf8 validate/correct, Unmarshal, Get, ast) on 20 payloads at every offset of every length 0..136; number formatting for all 2048 exponents x 10 mantissa patterns x sign and number parsing of 29 boundary literals at 40 paddings; digests compared case by case, mismatches regenerated in full. " +
			"Suite errpos: every length stratum and every token string <= 3/4 tokens through Unmarshal / decoder.Skip / Get / NewRaw.Check with the reported error POSITION and code in the observation. " +
			"distinct_nontrivial = distinct observation digests of the AVX2 configuration",
		Assume: []string{"the host supports AVX2 (otherwise both processes run the SSE routines and the check is vacuous: reported)", "a 64-bit FNV digest collision could hide a difference"},
		Run: func(c *ev.Ctx, r *ev.Report) {
			if xchild(c, r) {
				return
			}
			for _, s := range []string{"errpos", "native", "valid", "enc-types", "dec"} {
				xcompare(c, r, "C13", s, c13cfgs, xkeyShape3)
			}
			r.Sample(map[string]string{"suites": "native valid enc-types dec", "configs": "avx2 | sse"})
		},
		Replay: xReplay("C13", c13cfgs),
	})
}

// keys: suite-specific abstraction of the mismatching case
func c11key(id, a, b string) string {
	// id = cfg|type|dochex ; the key names the document feature the mismatch hinges on (in
	// a fixed priority order) and the destination type, not the document itself
	p := strings.SplitN(id, "|", 3)
	if len(p) != 3 {
		return xkeyShape(id, a, b)
	}
	var doc []byte
	fmt.Sscanf(p[2], "%x", &doc)
	if f, ks := c11feature(doc), xkeyShape(id, a, b); f == "number-beyond-float64-range" && ks == "value-vs-ERR" {
		// one root cause whatever the destination: the alternative decoder converts every
		// number while it builds its node tree, also where the destination never would
		return ks + ":" + f + ":any-destination-that-does-not-convert-the-literal"
	}
	return xkeyShape(id, a, b) + ":" + c11feature(doc) + ":" + p[1]
}

var (
	reBareMinus = regexp.MustCompile(`(^|[^0-9eE])-([^0-9]|$)`)
	reHugeExp   = regexp.MustCompile(`[eE][+-]?[0-9]{3,}`)
)

func c11feature(doc []byte) string {
	switch {
	case reBareMinus.Match(doc):
		return "bare-minus-sign"
	case reHugeExp.Match(doc):
		return "number-beyond-float64-range"
	case bytes.Contains(doc, []byte("null")):
		return "null"
	case bytes.Contains(doc, []byte("-0")):
		return "negative-zero"
	}
	return tokenShape(doc)
}

func c12key(id, a, b string) string {
	var cs struct {
		Type string `json:"type"`
		Opts string `json:"opt_names"`
	}
	json.Unmarshal([]byte(id), &cs)
	return xkeyShape(id, a, b) + ":" + cs.Type
}

func xkeyShape3(id, a, b string) string {
	pfx := id
	if i := strings.IndexAny(id, ":|"); i > 0 {
		pfx = id[:i]
	}
	if len(pfx) > 24 {
		pfx = pfx[:24]
	}
	return xkeyShape(id, a, b) + ":" + pfx
}
