package main

import (
	"encoding/json"
	"fmt"
	"hash/fnv"
	"reflect"
	"strings"

	"github.com/bytedance/sonic"

	"verif/internal/ev"
	"verif/internal/gen"
)

// C03: Marshal agrees with encoding/json on errors and on the emitted JSON text.
// Engine E1: every (type, value) of TYPE(d) x VAL(T).

type encCase struct {
	ti   int // index into the type list
	vi   int // index into Values(T)
	addr bool
}

// encSuite enumerates the encode cases; f receives the value to marshal.
// Unit of sharding = type index.
func encSuite(c *ev.Ctx, depth int, f func(t gen.TypeCase, ti, vi int, addr bool, val interface{}) bool) {
	types := gen.Types(depth)
	for ti, t := range types {
		if !c.Mine(ti) {
			continue
		}
		vals := gen.Values(t.T, 0)
		for vi, v := range vals {
			if !f(t, ti, vi, false, v.Interface()) {
				return
			}
			// the same value reached through a pointer (addressable: pointer-receiver methods apply)
			p := reflect.New(t.T)
			p.Elem().Set(v)
			if !f(t, ti, vi, true, p.Interface()) {
				return
			}
		}
	}
}

// safely runs a marshal function, turning a panic into an observation
func safeMarshal(f func(interface{}) ([]byte, error), v interface{}) (out []byte, err error, pan string) {
	defer func() {
		if r := recover(); r != nil {
			pan = fmt.Sprint(r)
		}
	}()
	out, err = f(v)
	return
}

// typeShape abstracts a type to the constructs the codec branches on.
func typeShape(t reflect.Type, d int) string {
	if d > 3 {
		return "…"
	}
	name := ""
	if t.PkgPath() != "" && t.Name() != "" {
		name = t.Name() + ":"
	}
	switch t.Kind() {
	case reflect.Ptr:
		return "*" + typeShape(t.Elem(), d+1)
	case reflect.Slice:
		return "[]" + typeShape(t.Elem(), d+1)
	case reflect.Array:
		return fmt.Sprintf("[%d]", t.Len()) + typeShape(t.Elem(), d+1)
	case reflect.Map:
		return "map[" + typeShape(t.Key(), d+1) + "]" + typeShape(t.Elem(), d+1)
	case reflect.Struct:
		if name != "" {
			return strings.TrimSuffix(name, ":")
		}
		var fs []string
		for i := 0; i < t.NumField() && i < 3; i++ {
			f := t.Field(i)
			tag := f.Tag.Get("json")
			if j := strings.IndexByte(tag, ','); j >= 0 {
				tag = tag[j:]
			} else if tag != "-" {
				tag = ""
			}
			fs = append(fs, typeShape(f.Type, d+1)+tag)
		}
		return "struct{" + strings.Join(fs, ";") + "}"
	}
	return name + t.Kind().String()
}

type c03case struct {
	Depth int    `json:"depth"`
	TI    int    `json:"type_index"`
	VI    int    `json:"value_index"`
	Addr  bool   `json:"addr"`
	Type  string `json:"type"`
}

func c03judge(t gen.TypeCase, depth, ti, vi int, addr bool, val interface{}) *ev.Violation {
	so, serr, span := safeMarshal(sonic.ConfigStd.Marshal, val)
	jo, jerr, _ := safeMarshal(json.Marshal, val)
	mk := func(class, exp, obs string) *ev.Violation {
		a := ""
		if addr {
			a = "&"
		}
		return &ev.Violation{Property: "C03", Key: "marshal:" + class + ":" + a + typeShape(t.T, 0),
			What: "ConfigStd.Marshal differs from encoding/json.Marshal: " + class,
			Case: ev.J(c03case{depth, ti, vi, addr, t.Name}), Expected: exp, Observed: obs}
	}
	if span != "" {
		return mk("panic", clipS(fmt.Sprintf("%s / %v", jo, jerr), 300), "panic: "+clipS(span, 300))
	}
	if (serr == nil) != (jerr == nil) {
		cl := "error-where-std-succeeds"
		if serr == nil {
			cl = "succeeds-where-std-errors"
			// one class per unsupported map key kind, whatever the element type
			if ute, ok := jerr.(*json.UnsupportedTypeError); ok && ute.Type.Kind() == reflect.Map {
				return &ev.Violation{Property: "C03", Key: "marshal:succeeds-where-std-errors:unsupported-map-key-kind:" + ute.Type.Key().Kind().String(),
					What: "ConfigStd.Marshal encodes a map whose key kind encoding/json rejects as unsupported",
					Case: ev.J(c03case{depth, ti, vi, addr, t.Name}), Expected: "error: " + jerr.Error(), Observed: clipS(string(so), 200)}
			}
		}
		if serr != nil && jerr == nil && strings.Contains(serr.Error(), "unsupported type") {
			// encoding/json never reaches a value of the unsupported type (nil pointer, empty
			// slice ...); sonic rejects the type when it compiles the program
			return &ev.Violation{Property: "C03", Key: "marshal:error-where-std-succeeds:unsupported-type-rejected-at-compile-time-although-no-value-of-it-is-encoded",
				What: "ConfigStd.Marshal fails on a type encoding/json only rejects when a value of it is reached", Case: ev.J(c03case{depth, ti, vi, addr, t.Name}),
				Expected: clipS(string(jo), 200), Observed: "error: " + serr.Error()}
		}
		return mk(cl, clipS(fmt.Sprintf("%s / err=%v", jo, jerr), 300), clipS(fmt.Sprintf("%s / err=%v", so, serr), 300))
	}
	if serr != nil {
		return nil
	}
	st, jt := tokens(string(so)), tokens(string(jo))
	if st != jt {
		cl := "different-tokens"
		if strings.HasPrefix(st, "UNPARSEABLE") || strings.HasPrefix(st, "TRAILING") {
			cl = "malformed-output"
		} else if len(strings.Fields(st)) == len(strings.Fields(jt)) {
			// same structure: which kind of token differs first
			sf, jf := strings.Fields(st), strings.Fields(jt)
			for i := range sf {
				if sf[i] != jf[i] {
					switch {
					case strings.HasPrefix(sf[i], "#") && strings.HasPrefix(jf[i], "#"):
						cl = "different-number-literal"
					case strings.HasPrefix(sf[i], `"`) && strings.HasPrefix(jf[i], `"`):
						cl = "different-string-denotation"
					default:
						cl = "different-token-kind"
					}
					break
				}
			}
		}
		// two recognisable root causes get a shape-independent key (so that one defect seen
		// through many types is one finding, and anything else keeps its own key)
		if c := c03rootCause(st, jt); c != "" {
			return &ev.Violation{Property: "C03", Key: "marshal:" + c, What: "ConfigStd.Marshal differs from encoding/json.Marshal: " + c,
				Case: ev.J(c03case{depth, ti, vi, addr, t.Name}), Expected: clipS(string(jo), 300), Observed: clipS(string(so), 300)}
		}
		return mk(cl, clipS(string(jo), 300), clipS(string(so), 300))
	}
	return nil
}

// c03rootCause recognises (from the two token streams) the divergences classified as known
// findings; the predicate is exact, anything else returns "".
func c03rootCause(st, jt string) string {
	sf, jf := strings.Fields(st), strings.Fields(jt)
	// (0) a pointer-receiver (Text)Marshaler was printed as a plain struct: wherever the
	//     streams differ, std has the marshaler's text ("ptN" / [N,"pm"]) and sonic has the
	//     plain encoding {"V":N} of the same value. (The encoder's program cache is keyed by
	//     type only: a type first compiled for a non-addressable occurrence is reused, through
	//     OP_recurse, for addressable ones.)
	{
		i, j, hits, ok := 0, 0, 0, true
		for i < len(sf) && j < len(jf) {
			if sf[i] == jf[j] {
				i++
				j++
				continue
			}
			plain := func(n string) bool {
				return i+3 < len(sf) && sf[i] == "{" && sf[i+1] == `"V"` && sf[i+2] == "#"+n && sf[i+3] == "}"
			}
			if strings.HasPrefix(jf[j], `"pt`) && strings.HasSuffix(jf[j], `"`) && plain(strings.TrimSuffix(strings.TrimPrefix(jf[j], `"pt`), `"`)) {
				i, j, hits = i+4, j+1, hits+1
				continue
			}
			if j+3 < len(jf) && jf[j] == "[" && strings.HasPrefix(jf[j+1], "#") && jf[j+2] == `"pm"` && jf[j+3] == "]" && plain(jf[j+1][1:]) {
				i, j, hits = i+4, j+4, hits+1
				continue
			}
			ok = false
			break
		}
		if ok && hits > 0 && i == len(sf) && j == len(jf) {
			return "pointer-receiver-marshaler-of-an-addressable-value-ignored(program-cached-for-a-non-addressable-occurrence)"
		}
	}
	// (1) omitempty keeps -0.0: removing every `"key" #-0` pair from sonic's stream gives std's
	if len(sf) > len(jf) {
		var out []string
		for i := 0; i < len(sf); i++ {
			if i+1 < len(sf) && strings.HasPrefix(sf[i], `"`) && sf[i+1] == "#-0" && i > 0 && (sf[i-1] == "{" || !strings.HasPrefix(sf[i-1], `"`) || true) {
				// only drop a pair in key position: previous token is `{` or a complete value
				i++
				continue
			}
			out = append(out, sf[i])
		}
		if strings.Join(out, " ") == strings.Join(jf, " ") {
			return "omitempty-keeps-negative-zero"
		}
	}
	// (2) `,string` on a string: std HTML-escapes the quoted text before quoting it again
	if len(sf) == len(jf) {
		all, any := true, false
		for i := range sf {
			if sf[i] == jf[i] {
				continue
			}
			ds, e1 := strconvUnquote(sf[i])
			dj, e2 := strconvUnquote(jf[i])
			if e1 != nil || e2 != nil || !strings.HasPrefix(ds, `"`) {
				all = false
				break
			}
			// both inner texts are JSON string literals denoting the same string: only the
			// spelling of escapes *inside the inner literal* differs (std spells < as the six
			// characters < and an invalid byte as �; sonic writes the characters)
			var a, b string
			if json.Unmarshal([]byte(ds), &a) != nil || json.Unmarshal([]byte(dj), &b) != nil || a != b {
				all = false
				break
			}
			any = true
		}
		if all && any {
			return "string-option-on-string-inner-literal-escapes-spelled-differently"
		}
	}
	return ""
}

func init() {
	ev.Register(&ev.Check{
		ID: "C03", Level: "exploration", Workers: 16, QuickSecs: 120, ThorSecs: 1200,
		Rule: "every type of the reflect-built grammar TYPE(d) (d=2 quick: 33 leaves x 24 constructors + hand-written shapes; d=3 thorough over 6 representative leaves) x every value of the boundary set VAL(T) " +
			"(ints 0,+-1,min,max; floats +-0,1,1e21,1e-7,5e-324,Max,NaN,+-Inf; strings with quotes/HTML/invalid UTF-8/NUL; containers nil/empty/1/3; pointers nil/set; interfaces nil/each dynamic kind; struct fields varied one at a time), " +
			"by value and through a pointer; ConfigStd.Marshal vs encoding/json.Marshal: errors coincide, token sequences equal with number literals byte-identical and string literals equal by denotation. " +
			"Component part: the real map-key sorter (radix quicksort / heapsort fallback / insertion sort / ninther pivot) driven with a chosen input order (through Marshal the order is Go's random map iteration): 6 key families x common prefix 0..24 bytes x 0..48 keys x {every permutation up to 7 keys (9 thorough); all rotations, transpositions, organ-pipe and stride interleavings and their reversals above}: output sorted, values still paired. " +
			"distinct_nontrivial = distinct (type, value, addressability) cases on which at least one side produced output",
		Assume: []string{"encoding/json is the reference", "the comparison tokenizer is encoding/json's Decoder.Token with UseNumber"},
		Run: func(c *ev.Ctx, r *ev.Report) {
			depth := 2
			if c.Thorough() {
				depth = 3
			}
			seen := map[uint64]struct{}{}
			n := 0
			encSuite(c, depth, func(t gen.TypeCase, ti, vi int, addr bool, val interface{}) bool {
				n++
				if n&0x3ff == 0 && c.Expired() {
					r.Exhaustive = false
					return false
				}
				c.SetCase(string(ev.J(c03case{depth, ti, vi, addr, t.Name})))
				r.Evaluations++
				if v := c03judge(t, depth, ti, vi, addr, val); v != nil {
					r.Violate(*v)
				}
				h := fnv.New64a()
				fmt.Fprintf(h, "%d/%d/%v", ti, vi, addr)
				seen[h.Sum64()] = struct{}{}
				r.SetAdd("kinds", t.T.Kind().String())
				if vi == 0 && !addr {
					r.Count("types", 1)
				}
				if n%5000 == 1 {
					jo, _ := json.Marshal(val)
					r.Sample(map[string]string{"type": t.Name, "value_json": clipS(string(jo), 80)})
				}
				return true
			})
			r.Distinct = int64(len(seen))
			c03sorter(c, r)
			c03extras(c, r)
		},
		Replay: func(c *ev.Ctx, desc json.RawMessage) *ev.Violation {
			if v, ok := c03sortReplay(desc); ok {
				return v
			}
			var cs c03case
			json.Unmarshal(desc, &cs)
			if cs.TI < 0 {
				return c03extraJudge(cs.VI)
			}
			types := gen.Types(cs.Depth)
			if cs.TI >= len(types) {
				return nil
			}
			t := types[cs.TI]
			vals := gen.Values(t.T, 0)
			if cs.VI >= len(vals) {
				return nil
			}
			var val interface{} = vals[cs.VI].Interface()
			if cs.Addr {
				p := reflect.New(t.T)
				p.Elem().Set(vals[cs.VI])
				val = p.Interface()
			}
			return c03judge(t, cs.Depth, cs.TI, cs.VI, cs.Addr, val)
		},
	})
}
