// vcheck: one binary holding every check; `vcheck <ID> quick|thorough [--replay f]`.
package main

import "verif/internal/ev"

func main() { ev.Main() }
