package main

import (
	"encoding/json"
	"errors"
	"fmt"
	"reflect"
	"strings"

	"github.com/bytedance/sonic/ast"

	"verif/internal/ev"
)

// C15: ast.Node behaves like a plain ordered tree; lazy loading is unobservable.
// Engine E2: breadth-first search over operation histories on the real node (a state is the
// history that produces it; successors are computed by replaying on a fresh node), states
// merged on (model state, complete dump of the hidden representation).

type c15doc struct {
	name string
	text string
	path []interface{} // target of "child" ops
}

func c15docs() []c15doc {
	big := func(n int, dup bool) string {
		var b strings.Builder
		b.WriteByte('{')
		for i := 0; i < n; i++ {
			if i > 0 {
				b.WriteByte(',')
			}
			k := fmt.Sprintf("k%d", i)
			if dup && i == n-1 {
				k = "k0"
			}
			fmt.Fprintf(&b, `"%s":%d`, k, i)
		}
		b.WriteByte('}')
		return b.String()
	}
	arr17 := "[" + strings.TrimSuffix(strings.Repeat("1,", 8)+`{"b":2,"a":1},`+strings.Repeat("3,", 8), ",") + "]"
	return []c15doc{
		{"obj-dup-escaped", `{"a":1,"b":{"y":[1,2],"x":"s"},"a":2,"a":3,"c":null}`, []interface{}{"b"}},
		{"nested-arrays", `[[1,2,3],{"b":1,"a":[true]},"s",4]`, []interface{}{0}},
		{"obj17", big(17, false), nil},
		{"obj17-dup", big(17, true), nil},
		{"obj16", big(16, false), nil},
		// 20 pairs, k0 repeated as the 19th: a lookup can leave more than 16 pairs loaded with the
		// node still lazy, and a later one then loads the duplicate
		{"obj20-dup-late", strings.Replace(big(20, false), `"k18":`, `"k0":`, 1), nil},
		{"arr17", arr17, []interface{}{8}},
		{"empty-obj", `{}`, nil},
		{"empty-arr", `[]`, nil},
		{"null", `null`, nil},
		{"ws-heavy", " {\n \"b\" : [ 1 , { \"z\" : 1 , \"y\" : 2 } ] ,\r\n \"a\" : \"x\\ny\" } ", []interface{}{"b"}},
	}
}

// values used by Set/Add
type c15val struct {
	name string
	mk   func() ast.Node
	text string
}

var c15vals = []c15val{
	{"num7", func() ast.Node { return ast.NewNumber("7") }, `7`},
	{"strz", func() ast.Node { return ast.NewString("z\n") }, `"z\n"`},
	{"rawobj", func() ast.Node { return ast.NewRaw(`{"n":[1]}`) }, `{"n":[1]}`},
	{"null", func() ast.Node { return ast.NewNull() }, `null`},
}

// An op instance. run applies it to the real node and to the model and returns both
// observations (class strings).
type c15op struct {
	name    string
	kind    string
	child   bool // applies to the node at doc.path
	mutates bool
	ok      func(d *c15doc, root *mnode) bool // applicable in this document (static)
	impl    func(n *ast.Node) string
	model   func(m *mnode) string // "?" = unspecified by the documentation: not compared
}

func errc(err error) string {
	if err == nil {
		return "ok"
	}
	if errors.Is(err, ast.ErrNotExist) || err == ast.ErrNotExist || err.Error() == ast.ErrNotExist.Error() {
		return "notexist"
	}
	return "err"
}

// observe a node returned by a lookup: value tokens, notexist, or err
func obsNode(v *ast.Node) string {
	if v == nil {
		return "notexist"
	}
	if !v.Exists() {
		if err := v.Check(); err != nil {
			return errc(err)
		}
		return "notexist"
	}
	raw, err := v.Raw()
	if err != nil {
		return "err"
	}
	return "val:" + tokens(raw)
}

func obsModel(m *mnode) string {
	if m == nil {
		return "notexist"
	}
	return "val:" + tokens(m.text())
}

func mchild(m *mnode, i int) *mnode {
	if i < 0 || i >= len(m.kids) {
		return nil
	}
	return m.kids[i]
}

func c15ops() []c15op {
	var ops []c15op
	add := func(o c15op) { ops = append(ops, o) }
	isObj := func(m *mnode) bool { return m.kind == 'o' }
	isArr := func(m *mnode) bool { return m.kind == 'a' }
	for _, child := range []bool{false, true} {
		child := child
		sfx := ""
		if child {
			sfx = "@child"
		}
		for _, k := range []string{"a", "b", "k0", "k16", "missing"} {
			k := k
			add(c15op{name: "Get(" + k + ")" + sfx, kind: "Get", child: child,
				impl: func(n *ast.Node) string { return obsNode(n.Get(k)) },
				model: func(m *mnode) string {
					if !isObj(m) {
						return "err"
					}
					if i := m.find(k); i >= 0 {
						return obsModel(m.kids[i])
					}
					return "notexist"
				}})
		}
		for _, i := range []int{0, 1, 15, 16, 17} {
			i := i
			add(c15op{name: fmt.Sprintf("Index(%d)%s", i, sfx), kind: "Index", child: child,
				impl: func(n *ast.Node) string { return obsNode(n.Index(i)) },
				model: func(m *mnode) string {
					if !isObj(m) && !isArr(m) {
						return "err"
					}
					return obsModel(mchild(m, i))
				}})
		}
		for _, i := range []int{0, 1, 16} {
			i := i
			add(c15op{name: fmt.Sprintf("IndexPair(%d)%s", i, sfx), kind: "IndexPair", child: child,
				impl: func(n *ast.Node) string {
					p := n.IndexPair(i)
					if p == nil {
						return "notexist"
					}
					return fmt.Sprintf("%q=", p.Key) + obsNode(&p.Value)
				},
				model: func(m *mnode) string {
					if !isObj(m) || i >= len(m.kids) {
						return "notexist"
					}
					return fmt.Sprintf("%q=", m.keys[i]) + obsModel(m.kids[i])
				}})
		}
		add(c15op{name: "IndexOrGet(0,b)" + sfx, kind: "IndexOrGet", child: child,
			impl: func(n *ast.Node) string { return obsNode(n.IndexOrGet(0, "b")) },
			model: func(m *mnode) string {
				if !isObj(m) {
					return "err"
				}
				if len(m.keys) > 0 && m.keys[0] == "b" {
					return obsModel(m.kids[0])
				}
				if i := m.find("b"); i >= 0 {
					return obsModel(m.kids[i])
				}
				return "notexist"
			}})
		add(c15op{name: "Len" + sfx, kind: "Len", child: child,
			impl: func(n *ast.Node) string {
				l, err := n.Len()
				if err != nil {
					return errc(err)
				}
				return fmt.Sprint("len:", l)
			},
			model: func(m *mnode) string {
				switch m.kind {
				case 'a', 'o':
					return fmt.Sprint("len:", len(m.kids))
				case 'z', 'x':
					return "len:0"
				case 's':
					return "?"
				}
				return "err"
			}})
		for _, k := range []string{"a", "k0", "new"} {
			for _, v := range c15vals[:3] {
				k, v := k, v
				add(c15op{name: "Set(" + k + "," + v.name + ")" + sfx, kind: "Set", child: child, mutates: true,
					impl: func(n *ast.Node) string {
						ex, err := n.Set(k, v.mk())
						return fmt.Sprint(ex, ",", errc(err))
					},
					model: func(m *mnode) string {
						if m.kind == 'z' || m.kind == 'x' {
							m.kind, m.keys, m.kids, m.lit = 'o', []string{k}, []*mnode{mparse(v.text)}, ""
							return "false,ok"
						}
						if !isObj(m) {
							return "false,err"
						}
						if i := m.find(k); i >= 0 {
							m.kids[i] = mparse(v.text)
							return "true,ok"
						}
						m.keys = append(m.keys, k)
						m.kids = append(m.kids, mparse(v.text))
						return "false,ok"
					}})
			}
		}
		for _, i := range []int{0, 1, 16} {
			i := i
			v := c15vals[0]
			add(c15op{name: fmt.Sprintf("SetByIndex(%d,%s)%s", i, v.name, sfx), kind: "SetByIndex", child: child, mutates: true,
				impl: func(n *ast.Node) string {
					ex, err := n.SetByIndex(i, v.mk())
					return fmt.Sprint(ex, ",", errc(err))
				},
				model: func(m *mnode) string {
					if i == 0 && (m.kind == 'z' || m.kind == 'x') {
						m.kind, m.kids, m.lit = 'a', []*mnode{mparse(v.text)}, ""
						return "false,ok"
					}
					if !isObj(m) && !isArr(m) {
						// Index() on a scalar is an error node: Exists() false -> ErrNotExist
						return "false,notexist"
					}
					if i >= len(m.kids) {
						return "false,notexist"
					}
					m.kids[i] = mparse(v.text)
					return "true,ok"
				}})
		}
		for _, v := range c15vals[:3] {
			v := v
			add(c15op{name: "Add(" + v.name + ")" + sfx, kind: "Add", child: child, mutates: true,
				impl: func(n *ast.Node) string { return errc(n.Add(v.mk())) },
				model: func(m *mnode) string {
					if m.kind == 'z' || m.kind == 'x' {
						m.kind, m.kids, m.lit = 'a', []*mnode{mparse(v.text)}, ""
						return "ok"
					}
					if !isArr(m) {
						return "err"
					}
					m.kids = append(m.kids, mparse(v.text))
					return "ok"
				}})
		}
		for _, k := range []string{"a", "k0", "k16", "missing"} {
			k := k
			add(c15op{name: "Unset(" + k + ")" + sfx, kind: "Unset", child: child, mutates: true,
				impl: func(n *ast.Node) string {
					ex, err := n.Unset(k)
					return fmt.Sprint(ex, ",", errc(err))
				},
				model: func(m *mnode) string {
					if !isObj(m) {
						return "false,err"
					}
					if i := m.find(k); i >= 0 {
						m.removeAt(i)
						return "true,ok"
					}
					return "false,ok"
				}})
		}
		for _, i := range []int{0, 1, 16} {
			i := i
			add(c15op{name: fmt.Sprintf("UnsetByIndex(%d)%s", i, sfx), kind: "UnsetByIndex", child: child, mutates: true,
				impl: func(n *ast.Node) string {
					ex, err := n.UnsetByIndex(i)
					return fmt.Sprint(ex, ",", errc(err))
				},
				model: func(m *mnode) string {
					if !isObj(m) && !isArr(m) {
						return "false,err"
					}
					if i >= len(m.kids) {
						return "false,notexist"
					}
					m.removeAt(i)
					return "true,ok"
				}})
		}
		add(c15op{name: "Pop" + sfx, kind: "Pop", child: child, mutates: true,
			impl: func(n *ast.Node) string { return errc(n.Pop()) },
			model: func(m *mnode) string {
				if !isObj(m) && !isArr(m) {
					return "err"
				}
				if len(m.kids) > 0 {
					m.removeAt(len(m.kids) - 1)
				}
				return "ok"
			}})
		for _, mv := range [][2]int{{0, 1}, {2, 0}, {1, 1}, {16, 0}} {
			mv := mv
			add(c15op{name: fmt.Sprintf("Move(%d,%d)%s", mv[0], mv[1], sfx), kind: "Move", child: child, mutates: true,
				impl: func(n *ast.Node) string { return errc(n.Move(mv[0], mv[1])) },
				model: func(m *mnode) string {
					if !isArr(m) {
						return "err"
					}
					dst, src := mv[0], mv[1]
					if dst >= len(m.kids) || src >= len(m.kids) {
						return "!" // out-of-range Move is not specified by the documentation: history pruned
					}
					x := m.kids[src]
					m.kids = append(m.kids[:src:src], m.kids[src+1:]...)
					rest := append([]*mnode{}, m.kids[dst:]...)
					m.kids = append(append(m.kids[:dst:dst], x), rest...)
					return "ok"
				}})
		}
		for _, rec := range []bool{false, true} {
			rec := rec
			add(c15op{name: fmt.Sprintf("SortKeys(%v)%s", rec, sfx), kind: "SortKeys", child: child, mutates: true,
				ok:   func(d *c15doc, root *mnode) bool { return !root.hasDupKeys() }, // order among equal keys is unspecified
				impl: func(n *ast.Node) string { return errc(n.SortKeys(rec)) },
				model: func(m *mnode) string {
					if !isObj(m) {
						return "!" // SortKeys on a non-object: effect not documented: history pruned
					}
					m.sortKeys(rec)
					return "ok"
				}})
		}
		add(c15op{name: "Load" + sfx, kind: "Load", child: child,
			impl:  func(n *ast.Node) string { return errc(n.Load()) },
			model: func(m *mnode) string { return "ok" }})
		add(c15op{name: "LoadAll" + sfx, kind: "LoadAll", child: child,
			impl:  func(n *ast.Node) string { return errc(n.LoadAll()) },
			model: func(m *mnode) string { return "ok" }})
		add(c15op{name: "ForEach" + sfx, kind: "ForEach", child: child,
			impl: func(n *ast.Node) string {
				var b strings.Builder
				err := n.ForEach(func(p ast.Sequence, v *ast.Node) bool {
					if p.Key != nil {
						fmt.Fprintf(&b, "%q=", *p.Key)
					}
					b.WriteString(obsNode(v) + ";")
					return true
				})
				return b.String() + errc(err)
			},
			model: func(m *mnode) string {
				var b strings.Builder
				switch m.kind {
				case 'a':
					for _, k := range m.kids {
						b.WriteString(obsModel(k) + ";")
					}
				case 'o':
					for i, k := range m.kids {
						fmt.Fprintf(&b, "%q=", m.keys[i])
						b.WriteString(obsModel(k) + ";")
					}
				default:
					return "?"
				}
				return b.String() + "ok"
			}})
		add(c15op{name: "Iterate" + sfx, kind: "Iterate", child: child,
			impl: func(n *ast.Node) string {
				var b strings.Builder
				switch n.TypeSafe() {
				case ast.V_ARRAY:
					it, err := n.Values()
					if err != nil {
						return errc(err)
					}
					var v ast.Node
					for it.Next(&v) {
						b.WriteString(obsNode(&v) + ";")
					}
				case ast.V_OBJECT:
					it, err := n.Properties()
					if err != nil {
						return errc(err)
					}
					var p ast.Pair
					for it.Next(&p) {
						fmt.Fprintf(&b, "%q=", p.Key)
						b.WriteString(obsNode(&p.Value) + ";")
					}
				default:
					return "?"
				}
				return b.String() + "ok"
			},
			model: func(m *mnode) string {
				var b strings.Builder
				switch m.kind {
				case 'a':
					for _, k := range m.kids {
						b.WriteString(obsModel(k) + ";")
					}
				case 'o':
					for i, k := range m.kids {
						fmt.Fprintf(&b, "%q=", m.keys[i])
						b.WriteString(obsModel(k) + ";")
					}
				default:
					return "?"
				}
				return b.String() + "ok"
			}})
	}
	return ops
}

// mtarget / ntarget resolve the op's target
func mtarget(root *mnode, d *c15doc, child bool) *mnode {
	if !child {
		return root
	}
	m := root
	for _, st := range d.path {
		switch s := st.(type) {
		case string:
			if m.kind != 'o' {
				return nil
			}
			i := m.find(s)
			if i < 0 {
				return nil
			}
			m = m.kids[i]
		case int:
			if (m.kind != 'a' && m.kind != 'o') || s >= len(m.kids) {
				return nil
			}
			m = m.kids[s]
		}
	}
	return m
}

func ntarget(root *ast.Node, d *c15doc, child bool) *ast.Node {
	if !child {
		return root
	}
	n := root.GetByPath(d.path...)
	if n == nil || !n.Exists() {
		return nil
	}
	return n
}

// probe: full read-out of the node, compared with the model
func c15probe(root *ast.Node, m *mnode) (got, want string) {
	want = "json:" + tokens(m.text())
	b, err := root.MarshalJSON()
	if err != nil {
		got = "json:ERR " + err.Error()
	} else {
		got = "json:" + tokens(string(b))
	}
	if m.kind == 'x' {
		return "none", "none" // MarshalJSON of an empty node is not specified
	}
	// Interface() == encoding/json of the model's text (a Go map keeps the last duplicate)
	var ref interface{}
	if err := json.Unmarshal([]byte(m.text()), &ref); err == nil {
		v, err := root.Interface()
		if err != nil {
			got += " iface:ERR"
		} else if !reflect.DeepEqual(v, ref) {
			gb, _ := json.Marshal(v)
			got += " iface:" + string(gb)
			rb, _ := json.Marshal(ref)
			want += " iface:" + string(rb)
		}
	}
	return
}

type c15case struct {
	Doc string   `json:"doc"`
	Ops []string `json:"ops"`
}

type c15sys struct {
	docs []c15doc
	ops  []c15op
}

// run replays a history on a fresh node and a fresh model. It returns the observations of
// the LAST op (got, want), the final node and model, and whether the history is applicable.
var c15lazyBefore bool // whether the target of the last op was lazy/raw when the op started

func (s *c15sys) run(d *c15doc, hist []int) (got, want string, root *ast.Node, m *mnode, ok bool) {
	n := ast.NewRaw(d.text)
	root = &n
	m = mparse(d.text)
	ok = true
	for _, oi := range hist {
		o := &s.ops[oi]
		mt := mtarget(m, d, o.child)
		if mt == nil {
			return "", "", root, m, false // child path no longer exists in the model
		}
		nt := ntarget(root, d, o.child)
		if nt == nil {
			return "child-missing", "child-present", root, m, true
		}
		want = o.model(mt)
		if want == "!" {
			return "", "", root, m, false // effect unspecified by the documentation: pruned
		}
		c15lazyBefore = ast.VerifIsLazy(nt)
		got = o.impl(nt)
	}
	return
}

func c15opIndex(ops []c15op, name string) int {
	for i := range ops {
		if ops[i].name == name {
			return i
		}
	}
	return -1
}

func c15key(s *c15sys, d *c15doc, hist []int, what, got, want string) string {
	last := s.ops[hist[len(hist)-1]]
	cls := func(x string) string {
		if strings.HasPrefix(x, "json:ERR") {
			return "json-error"
		}
		if i := strings.IndexAny(x, ":"); i >= 0 && i < 12 {
			return x[:i]
		}
		if len(x) > 16 {
			return x[:16]
		}
		return x
	}
	// the key names the kind of failure: which operation kind observed it, on which document
	// family, and how the observation class differs; the history itself is in the replay file
	if what == "probe" && last.kind == "Iterate" && cls(got) == "json-error" {
		// one class whatever the document: reading the by-value copies handed out by
		// Values()/Properties() iterators exhausts the lazy children's shared parser state
		return "probe:Iterate want=json got=json-error"
	}
	return fmt.Sprintf("%s:%s doc=%s want=%s got=%s", what, last.kind, d.name, cls(want), cls(got))
}

func init() {
	sys := &c15sys{docs: c15docs(), ops: c15ops()}
	names := func(hist []int) []string {
		var l []string
		for _, oi := range hist {
			l = append(l, sys.ops[oi].name)
		}
		return l
	}
	// check one history completely: last op's return value, then (on a separate replay) the probe
	checkHist := func(d *c15doc, hist []int) (v *ev.Violation, stateKey string, applicable bool) {
		got, want, root, m, ok := sys.run(d, hist)
		if !ok {
			return nil, "", false
		}
		if len(hist) > 0 && want != "?" && got != want {
			// Len on a partially loaded node is documented to count parsed children only
			what := "return"
			key := ""
			var gl, wl int
			if sys.ops[hist[len(hist)-1]].kind == "Len" && c15lazyBefore {
				if n1, _ := fmt.Sscanf(got, "len:%d", &gl); n1 == 1 {
					if n2, _ := fmt.Sscanf(want, "len:%d", &wl); n2 == 1 && gl < wl {
						// documented WARN: only the children parsed so far are counted
						key = "return:Len on a partially loaded (lazy) node counts fewer children than it has"
					}
				}
			}
			if key == "" {
				key = c15key(sys, d, hist, what, got, want)
			}
			return &ev.Violation{Property: "C15", Key: key,
				What: "operation result differs from the ordered-tree model", Case: ev.J(c15case{d.name, names(hist)}),
				Expected: want, Observed: got}, "", true
		}
		stateKey = m.text() + "\x00" + ast.VerifDump(root)
		// terminal probe on a separate replay
		_, _, root2, m2, _ := sys.run(d, hist)
		pg, pw := c15probe(root2, m2)
		if pg != pw {
			h := hist
			if len(h) == 0 {
				h = []int{c15opIndex(sys.ops, "Load")}
			}
			return &ev.Violation{Property: "C15", Key: c15key(sys, d, append(append([]int{}, h...), h[len(h)-1]), "probe", pg, pw),
				What: "final MarshalJSON/Interface differs from the ordered-tree model", Case: ev.J(c15case{d.name, names(hist)}),
				Expected: pw, Observed: pg}, stateKey, true
		}
		return nil, stateKey, true
	}
	ev.Register(&ev.Check{
		ID: "C15", Level: "model_checking", Workers: 16, QuickSecs: 90, ThorSecs: 1200,
		Rule: "breadth-first search over ALL operation histories up to depth d (3 quick, 4-5 thorough) over ~120 op instances (Get/Index/IndexPair/IndexOrGet/Len/Set/SetByIndex/Add/Unset/UnsetByIndex/Pop/Move/SortKeys/Load/LoadAll/ForEach/iterators, on the root and on one child) " +
			"x 10 initial documents (duplicate+escaped keys, nested, 16/17-pair objects with and without duplicate, 17-element array, empty, null, whitespace-heavy); every transition executed on a fresh real node by replay; " +
			"each op's result compared with a 150-line ordered-tree model, each state's MarshalJSON+Interface read-out compared on a separate replay; states merged on (model text, hidden representation dump). " +
			"Sort sweep: SortKeys on objects of 0..48 pairs (1-4 storage chunks) in every document order up to 6 keys (8 thorough) and rotations / transpositions / organ-pipe / stride interleavings above, 5 key families x 4 common-prefix lengths x {fresh, loaded, after Unset of the middle / first+last key, after Set of a new key}: MarshalJSON, Len and Get(key) afterwards equal a stable sort of the live pairs. " +
			"distinct_nontrivial = distinct (model state, hidden representation) pairs reached",
		Assume: []string{"encoding/json tokenizer for canonical comparison", "where the API documentation leaves a result unspecified (Move out of range, SortKeys on non-objects, Len of strings) the op only acts as a state changer"},
		Run: func(c *ev.Ctx, r *ev.Report) {
			depth := 3
			if c.Thorough() {
				depth = 4
			}
			for di := range sys.docs {
				d := &sys.docs[di]
				root := mparse(d.text)
				var app []int
				for oi := range sys.ops {
					o := &sys.ops[oi]
					if o.child && d.path == nil {
						continue
					}
					if o.ok != nil && !o.ok(d, root) {
						continue
					}
					app = append(app, oi)
				}
				// the empty history (probe of the initial state) belongs to unit 0
				if c.Mine(di * 1000) {
					if v, _, _ := checkHist(d, nil); v != nil {
						r.Violate(*v)
					}
					r.States++
				}
				for _, first := range app {
					if !c.Mine(di*1000 + first + 1) {
						continue
					}
					seen := map[string]bool{}
					frontier := [][]int{{first}}
					for lvl := 1; lvl <= depth && len(frontier) > 0; lvl++ {
						var next [][]int
						for _, h := range frontier {
							if c.Expired() {
								r.Exhaustive = false
								break
							}
							r.Transitions++
							r.Validated++
							r.Evaluations++
							c.SetCase(string(ev.J(c15case{d.name, names(h)})))
							v, key, ok := checkHist(d, h)
							if !ok {
								continue
							}
							if v != nil {
								r.Violate(*v)
								continue // do not search below a violating state
							}
							if seen[key] {
								r.Count("merged_states", 1)
								continue
							}
							seen[key] = true
							r.States++
							if lvl < depth {
								for _, oi := range app {
									next = append(next, append(append(make([]int, 0, len(h)+1), h...), oi))
								}
							}
						}
						frontier = next
					}
					r.Distinct += int64(len(seen))
					if first%17 == 0 {
						r.Sample(map[string]interface{}{"doc": d.name, "first_op": sys.ops[first].name, "states_below": len(seen)})
					}
				}
			}
			r.SetAdd("depth_bound", fmt.Sprint(depth))
			c15sortSweep(c, r)
		},
		CrashKey: func(desc string) string {
			var cs c15case
			json.Unmarshal([]byte(desc), &cs)
			last := "?"
			if len(cs.Ops) > 0 {
				last = cs.Ops[len(cs.Ops)-1]
				if i := strings.IndexByte(last, '('); i > 0 {
					last = last[:i]
				}
			}
			return "crash:" + last + " doc=" + cs.Doc
		},
		Replay: func(c *ev.Ctx, desc json.RawMessage) *ev.Violation {
			if v, ok := c15sortReplay(desc); ok {
				return v
			}
			var cs c15case
			json.Unmarshal(desc, &cs)
			for di := range sys.docs {
				if sys.docs[di].name != cs.Doc {
					continue
				}
				var h []int
				for _, n := range cs.Ops {
					i := c15opIndex(sys.ops, n)
					if i < 0 {
						return nil
					}
					h = append(h, i)
				}
				// every prefix: the first failing one is the violation
				for k := 0; k <= len(h); k++ {
					if v, _, _ := checkHist(&sys.docs[di], h[:k]); v != nil {
						return v
					}
				}
			}
			return nil
		},
	})
}
