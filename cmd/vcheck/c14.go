package main

// C14 — AST search and read-only views return exactly the addressed value.
//
// Space (bounded-exhaustive, no sampling):
//   * every tree of DOC(k) over three alphabets (full / small / tiny, see c14plan), each rendered
//     in the 3 whitespace styles (style 2 additionally pads the root with blanks);
//   * the large-shape family (15,16,17,33 members: chunk size 16, hash index above 16 pairs),
//     arrays and objects, with a duplicated key at four position pairs, bare and wrapped;
//   * a depth grid (nested arrays / objects / alternating);
//   each with EVERY path of its tree (gen.Walk), every object member also addressed by
//   position (Node.Index on an object is documented to address the i-th pair), plus per
//   container: one missing key, the raw spelling of an escaped key, one wrong-kind step,
//   index == len, a large index, index -1 (Node API only); per scalar: one key and one index
//   step into it;
//   x entry points {sonic.Get, GetFromString, GetCopyFromString, GetWithOptions x 8 options,
//   Searcher.GetByPath x 8 options, Node.GetByPath and Node.Get/Index chains on roots from
//   ast.NewRaw / sonic.Get() / GetWithOptions(o)() x 8, each fresh, reused across all paths of
//   the document (progressively loaded) and after LoadAll()}.
// Oracle: by construction from the generated tree (first occurrence for duplicated keys),
//   cross-checked once per document against an encoding/json token walk.

import (
	"bytes"
	"encoding/json"
	"fmt"
	"hash/fnv"
	"io"
	"reflect"
	"runtime"
	"runtime/debug"
	"strconv"
	"strings"

	"github.com/bytedance/sonic"
	"github.com/bytedance/sonic/ast"

	"verif/internal/ev"
	"verif/internal/gen"
)

var (
	c14LeavesTiny = []string{`0`, `"s"`, `{}`, `[]`}
	c14KeysTiny   = []string{`"a"`, `"b"`}
)

const c14BigIndex = 1 << 32

func c14opt(i int) ast.SearchOptions {
	return ast.SearchOptions{ValidateJSON: i&1 != 0, CopyReturn: i&2 != 0, ConcurrentRead: i&4 != 0}
}

var c14optNames = func() (n [8]string) {
	for i := range n {
		n[i] = fmt.Sprintf("validate=%d,copy=%d,concurrent=%d", i&1, i>>1&1, i>>2&1)
	}
	return
}()

// ---------------------------------------------------------------------------------------
// documents and the expected model

type c14exp struct {
	done     bool
	compact  string
	toks     []string
	iface    interface{}
	ifaceNum interface{}
}

const (
	c14Found = iota
	c14Missing
	c14Wrong
)

type c14res struct {
	st   int
	pre  int    // addressed node (found)
	step int    // failing step (missing / wrong)
	kind string // kind of the failing step
}

type c14path struct {
	steps  []interface{}
	enc    string
	search c14res
	node   c14res
	neg    bool
}

type c14doc struct {
	fam    string
	t      *gen.Tree
	style  int
	text   string
	bs     []byte
	spans  []gen.Span
	nodes  []*gen.Tree
	kids   [][]int
	exp    []c14exp
	paths  []c14path
	cmpact string // compact rendering (replay description)
}

func c14build(t *gen.Tree, style int, fam string) *c14doc {
	d := &c14doc{t: t, style: style, fam: fam}
	var buf []byte
	if style == 2 {
		buf = append(buf, '\n', ' ')
	}
	buf = gen.RenderTo(buf, t, style, &d.spans)
	if style == 2 {
		buf = append(buf, ' ', '\n')
	}
	d.text = string(buf)
	d.bs = append(make([]byte, 0, len(buf)), buf...)
	d.nodes = make([]*gen.Tree, 0, t.N)
	d.kids = make([][]int, t.N)
	var rec func(n *gen.Tree)
	rec = func(n *gen.Tree) {
		me := len(d.nodes)
		d.nodes = append(d.nodes, n)
		if len(n.Kids) > 0 {
			ks := make([]int, len(n.Kids))
			for i, k := range n.Kids {
				ks[i] = len(d.nodes)
				rec(k)
			}
			d.kids[me] = ks
		}
	}
	rec(t)
	d.exp = make([]c14exp, len(d.nodes))
	return d
}

func (d *c14doc) span(pre int) string { return d.text[d.spans[pre].Start:d.spans[pre].End] }

func (d *c14doc) compactText() string {
	if d.cmpact == "" {
		d.cmpact = string(gen.RenderTo(nil, d.t, 0, nil))
	}
	return d.cmpact
}

func c14tokens(s string) ([]string, bool) {
	dec := json.NewDecoder(strings.NewReader(s))
	dec.UseNumber()
	var out []string
	for {
		t, err := dec.Token()
		if err == io.EOF {
			return out, true
		}
		if err != nil {
			return out, false
		}
		switch v := t.(type) {
		case json.Delim:
			out = append(out, string(rune(v)))
		case string:
			out = append(out, "s:"+v)
		case json.Number:
			out = append(out, "n:"+string(v))
		case bool:
			if v {
				out = append(out, "t")
			} else {
				out = append(out, "f")
			}
		case nil:
			out = append(out, "z")
		}
	}
}

func (d *c14doc) x(pre int) *c14exp {
	e := &d.exp[pre]
	if e.done {
		return e
	}
	e.done = true
	sp := d.span(pre)
	var cb bytes.Buffer
	if json.Compact(&cb, []byte(sp)) == nil {
		e.compact = cb.String()
	}
	e.toks, _ = c14tokens(sp)
	json.Unmarshal([]byte(sp), &e.iface)
	dec := json.NewDecoder(strings.NewReader(sp))
	dec.UseNumber()
	dec.Decode(&e.ifaceNum)
	return e
}

// resolve addresses a path in the generated tree. nodeMode: an int step into an object
// addresses the i-th pair (documented behaviour of Node.Index / Node.GetByPath); otherwise
// (search API: "Integer ... means searching current node as array") it is a wrong-kind step.
func (d *c14doc) resolve(path []interface{}, nodeMode bool) c14res {
	cur := 0
	for i, st := range path {
		n := d.nodes[cur]
		switch s := st.(type) {
		case string:
			if n.Kind != gen.KObj {
				k := "key-into-scalar"
				if n.Kind == gen.KArr {
					k = "key-into-array"
				}
				return c14res{st: c14Wrong, step: i, kind: k}
			}
			f := -1
			for j, kl := range n.Keys {
				if gen.KeyText(kl) == s {
					f = j
					break
				}
			}
			if f < 0 {
				return c14res{st: c14Missing, step: i, kind: "missing-key"}
			}
			cur = d.kids[cur][f]
		case int:
			if n.Kind == gen.KObj && !nodeMode {
				return c14res{st: c14Wrong, step: i, kind: "index-into-object"}
			}
			if n.Kind != gen.KObj && n.Kind != gen.KArr {
				return c14res{st: c14Wrong, step: i, kind: "index-into-scalar"}
			}
			nk := len(n.Kids)
			switch {
			case s < 0:
				return c14res{st: c14Missing, step: i, kind: "index-negative"}
			case s == nk:
				return c14res{st: c14Missing, step: i, kind: "index==len"}
			case s > nk:
				return c14res{st: c14Missing, step: i, kind: "index>len"}
			}
			cur = d.kids[cur][s]
		}
	}
	return c14res{st: c14Found, pre: cur}
}

func c14encPath(p []interface{}) string {
	var b strings.Builder
	b.WriteByte('[')
	for i, s := range p {
		if i > 0 {
			b.WriteByte(',')
		}
		switch v := s.(type) {
		case int:
			b.WriteString(strconv.Itoa(v))
		case string:
			q, _ := json.Marshal(v)
			b.Write(q)
		}
	}
	b.WriteByte(']')
	return b.String()
}

// mkpaths: every path of the tree plus the extra steps per node.
func (d *c14doc) mkpaths() {
	seen := map[string]bool{}
	add := func(p []interface{}) {
		e := c14encPath(p)
		if seen[e] {
			return
		}
		seen[e] = true
		cp := append([]interface{}{}, p...)
		q := c14path{steps: cp, enc: e}
		for _, s := range cp {
			if i, ok := s.(int); ok && i < 0 {
				q.neg = true
			}
		}
		q.search = d.resolve(cp, false)
		q.node = d.resolve(cp, true)
		d.paths = append(d.paths, q)
	}
	ext := func(p []interface{}, s interface{}) []interface{} {
		return append(p[:len(p):len(p)], s)
	}
	gen.Walk(d.t, func(n *gen.Tree, path []interface{}, pre int, dup bool) {
		add(path)
		r := d.resolve(path, true)
		if r.st != c14Found {
			return
		}
		n = d.nodes[r.pre] // the node the path really addresses (first occurrence)
		switch n.Kind {
		case gen.KObj:
			add(ext(path, "zz"))
			for _, k := range n.Keys {
				if strings.IndexByte(k, '\\') >= 0 {
					add(ext(path, strings.Trim(k, `"`))) // raw spelling is NOT the key
					break
				}
			}
			for i := range n.Kids {
				add(ext(path, i))
			}
			add(ext(path, len(n.Kids)))
			add(ext(path, c14BigIndex))
			add(ext(path, -1))
		case gen.KArr:
			add(ext(path, "a"))
			add(ext(path, len(n.Kids)))
			add(ext(path, c14BigIndex))
			add(ext(path, -1))
		default:
			add(ext(path, "a"))
			add(ext(path, 0))
		}
	})
}

// ---------------------------------------------------------------------------------------
// cross-check of the generated model against an encoding/json token walk

func (d *c14doc) crossCheck() string {
	if !json.Valid(d.bs) {
		return "document not valid for encoding/json"
	}
	dec := json.NewDecoder(strings.NewReader(d.text))
	dec.UseNumber()
	pre := 0
	var rec func() string
	rec = func() string {
		me := pre
		pre++
		if me >= len(d.nodes) {
			return "more values than nodes"
		}
		n := d.nodes[me]
		t, err := dec.Token()
		if err != nil {
			return "token: " + err.Error()
		}
		switch v := t.(type) {
		case json.Delim:
			switch v {
			case '[':
				if n.Kind != gen.KArr {
					return "kind"
				}
				for i := range n.Kids {
					if !dec.More() {
						return "array shorter"
					}
					_ = i
					if s := rec(); s != "" {
						return s
					}
				}
				if dec.More() {
					return "array longer"
				}
				dec.Token()
			case '{':
				if n.Kind != gen.KObj {
					return "kind"
				}
				for i := range n.Kids {
					if !dec.More() {
						return "object shorter"
					}
					kt, err := dec.Token()
					ks, ok := kt.(string)
					if err != nil || !ok || ks != gen.KeyText(n.Keys[i]) {
						return "key text differs"
					}
					if s := rec(); s != "" {
						return s
					}
				}
				if dec.More() {
					return "object longer"
				}
				dec.Token()
			default:
				return "unexpected delimiter"
			}
		case string:
			var s string
			if n.Kind != gen.KStr || json.Unmarshal([]byte(n.Lit), &s) != nil || s != v {
				return "string leaf differs"
			}
		case json.Number:
			if n.Kind != gen.KNum || string(v) != n.Lit {
				return "number leaf differs"
			}
		case bool:
			if n.Kind != gen.KBool || strconv.FormatBool(v) != n.Lit {
				return "bool leaf differs"
			}
		case nil:
			if n.Kind != gen.KNull {
				return "null leaf differs"
			}
		}
		if int(dec.InputOffset()) != d.spans[me].End {
			return fmt.Sprintf("span end of node %d: recorded %d, encoding/json %d", me, d.spans[me].End, dec.InputOffset())
		}
		sp := d.span(me)
		if !json.Valid([]byte(sp)) || sp != strings.TrimSpace(sp) {
			return fmt.Sprintf("span text of node %d is not exactly one value", me)
		}
		return ""
	}
	if s := rec(); s != "" {
		return s
	}
	if pre != len(d.nodes) {
		return "node count differs"
	}
	return ""
}

// ---------------------------------------------------------------------------------------
// outcomes

const (
	c14Val = iota
	c14NotExist
	c14Err
)

type c14out struct {
	st  int
	err error
	n   *ast.Node
}

func c14fromPtr(n *ast.Node) c14out {
	if n == nil {
		return c14out{st: c14NotExist, err: ast.ErrNotExist}
	}
	err := n.Check()
	if err == nil {
		return c14out{st: c14Val, n: n}
	}
	if c14isNotExist(err) {
		return c14out{st: c14NotExist, err: err}
	}
	return c14out{st: c14Err, err: err}
}

// c14isNotExist: the property asks that a missing value is REPORTED as not existing; the
// ErrNotExist sentinel and an error node carrying the same code and message ("value not
// exists", returned by Node.Index on an object) both do that.
func c14isNotExist(err error) bool {
	return err == ast.ErrNotExist || (err != nil && err.Error() == ast.ErrNotExist.Error())
}

func c14fromVal(n ast.Node, err error) c14out {
	if err != nil {
		if c14isNotExist(err) {
			return c14out{st: c14NotExist, err: err}
		}
		return c14out{st: c14Err, err: err}
	}
	return c14fromPtr(&n)
}

func (o c14out) String() string {
	switch o.st {
	case c14Val:
		raw, err := o.n.Raw()
		if err != nil {
			return "value whose Raw() fails: " + c14clip(err.Error())
		}
		return "value " + c14clip(raw)
	case c14NotExist:
		return "ErrNotExist"
	}
	return "error " + c14clip(o.err.Error())
}

func c14clip(s string) string {
	if len(s) > 160 {
		return strconv.Quote(s[:160]) + "..."
	}
	return strconv.Quote(s)
}

// rawMatches: a raw (unparsed) node must carry exactly the span text; a parsed node
// re-encodes itself, which must give the same JSON token sequence.
func (d *c14doc) rawMatches(pre int, n *ast.Node) (bool, string) {
	wasRaw := n.IsRaw()
	raw, err := n.Raw()
	if err != nil {
		return false, "Raw() error " + c14clip(err.Error())
	}
	if raw == d.span(pre) {
		return true, ""
	}
	if wasRaw {
		return false, "raw node text " + c14clip(raw)
	}
	e := d.x(pre)
	if raw == e.compact {
		return true, ""
	}
	tk, ok := c14tokens(raw)
	if ok && reflect.DeepEqual(tk, e.toks) {
		return true, ""
	}
	return false, "re-encoded text " + c14clip(raw)
}

// ---------------------------------------------------------------------------------------
// entry points

type c14search struct {
	name string
	nopt int
	run  func(d *c14doc, p []interface{}, o int) c14out
}

var c14searchFns = []c14search{
	{"sonic.Get", 1, func(d *c14doc, p []interface{}, o int) c14out { return c14fromVal(sonic.Get(d.bs, p...)) }},
	{"sonic.GetFromString", 1, func(d *c14doc, p []interface{}, o int) c14out { return c14fromVal(sonic.GetFromString(d.text, p...)) }},
	{"sonic.GetCopyFromString", 1, func(d *c14doc, p []interface{}, o int) c14out {
		return c14fromVal(sonic.GetCopyFromString(d.text, p...))
	}},
	{"sonic.GetWithOptions", 8, func(d *c14doc, p []interface{}, o int) c14out {
		return c14fromVal(sonic.GetWithOptions(d.bs, c14opt(o), p...))
	}},
	{"Searcher.GetByPath", 8, func(d *c14doc, p []interface{}, o int) c14out {
		s := ast.NewSearcher(d.text)
		s.SearchOptions = c14opt(o)
		return c14fromVal(s.GetByPath(p...))
	}},
}

const c14nRoots = 10

func c14mkroot(d *c14doc, kind int) (ast.Node, error) {
	switch kind {
	case 0:
		n := ast.NewRaw(d.text)
		return n, n.Check()
	case 1:
		return sonic.Get(d.bs)
	}
	return sonic.GetWithOptions(d.bs, c14opt(kind-2))
}

func c14rootName(kind int) string {
	switch kind {
	case 0:
		return "NewRaw"
	case 1:
		return "sonic.Get()"
	}
	return "GetWithOptions(" + c14optNames[kind-2] + ")()"
}

func c14chain(root *ast.Node, p []interface{}) *ast.Node {
	n := root
	for _, s := range p {
		switch v := s.(type) {
		case int:
			n = n.Index(v)
		case string:
			n = n.Get(v)
		}
	}
	return n
}

var c14states = [3]string{"fresh", "reused", "LoadAll"}
var c14access = [2]string{"Node.GetByPath", "Node.chain"}

// ---------------------------------------------------------------------------------------
// the run

type c14case struct {
	Doc   string          `json:"doc"`
	Style int             `json:"style"`
	Fam   string          `json:"family,omitempty"`
	Path  json.RawMessage `json:"path,omitempty"`
	EP    string          `json:"ep"`
	Opt   string          `json:"opt,omitempty"`
}

type c14run struct {
	r             *ev.Report
	violate       func(v ev.Violation)
	seen          map[uint64]struct{}
	keyCount      map[string]int // nil in replay mode (every violation is kept)
	nPaths, nViol int64
	nViews        int64
	nPathKind     map[string]int64
	wk            map[c14wk]bool
	// work limits (unused by the current plan: all strata use the full root set)
	lightRoots bool
}

func (x *c14run) fail(d *c14doc, p *c14path, ep, opt, key, what, expd, obs string) {
	if x.keyCount != nil {
		// the report keeps 2 witnesses per key; beyond that only count
		if x.keyCount[key] >= 2 {
			x.nViol++
			return
		}
		x.keyCount[key]++
	}
	cs := c14case{Doc: d.compactText(), Style: d.style, Fam: d.fam, EP: ep, Opt: opt}
	if p != nil {
		cs.Path = json.RawMessage(p.enc)
	}
	x.violate(ev.Violation{Property: "C14", Key: key, What: what, Case: ev.J(cs), Expected: expd,
		Observed: obs + "   [document " + c14clip(d.text) + "]"})
}

func (x *c14run) expString(d *c14doc, res c14res) string {
	switch res.st {
	case c14Found:
		return "value " + c14clip(d.span(res.pre))
	case c14Missing:
		return "ErrNotExist (" + res.kind + " at step " + strconv.Itoa(res.step) + ")"
	}
	return "an error, not a value (" + res.kind + " at step " + strconv.Itoa(res.step) + ")"
}

// agree: does an outcome agree with the expectation?
func (d *c14doc) agree(res c14res, out c14out) (bool, string) {
	switch res.st {
	case c14Found:
		if out.st != c14Val {
			return false, out.String()
		}
		if ok, why := d.rawMatches(res.pre, out.n); !ok {
			return false, why
		}
		return true, ""
	case c14Missing:
		if out.st != c14NotExist {
			return false, out.String()
		}
		return true, ""
	}
	if out.st == c14Val {
		return false, out.String()
	}
	return true, ""
}

// diagnose names the failure: it walks the path step by step (stepFn(i) = outcome of the
// first i+1 steps) and describes the first step whose outcome deviates.
func (x *c14run) diagnose(d *c14doc, p *c14path, nodeMode bool, stepFn func(i int) c14out, contFn func(i int) *ast.Node) string {
	for i := range p.steps {
		res := d.resolve(p.steps[:i+1], nodeMode)
		out := stepFn(i)
		if ok, _ := d.agree(res, out); ok {
			continue
		}
		// the container the step was applied to
		cres := d.resolve(p.steps[:i], nodeMode)
		var feat []string
		if contFn != nil {
			if c := contFn(i); c != nil && c.Valid() {
				if ast.VerifC14Lazy(c) {
					feat = append(feat, "lazy")
				} else {
					feat = append(feat, "loaded")
				}
			}
		}
		var cn *gen.Tree
		if cres.st == c14Found {
			cn = d.nodes[cres.pre]
			if len(cn.Kids) > 16 {
				feat = append(feat, "container>16")
			}
		}
		stepOp := "key-step"
		if _, isInt := p.steps[i].(int); isInt {
			stepOp = "index-step"
			if cn != nil && cn.Kind == gen.KObj {
				stepOp = "index-step-on-object"
			}
		}
		class := ""
		switch res.st {
		case c14Found:
			switch out.st {
			case c14NotExist:
				class = "existing-member-reported-missing"
			case c14Err:
				class = "existing-member-gives-error"
			default:
				class = "returns-unrelated-text"
				raw, err := out.n.Raw()
				if err != nil {
					class = "value-whose-Raw-fails"
					break
				}
				if strings.TrimSpace(raw) == d.span(res.pre) {
					class = "raw-text-has-surrounding-whitespace"
					break
				}
				if cn == nil {
					break
				}
				want := -1
				for j, kp := range d.kids[cres.pre] {
					if kp == res.pre {
						want = j
					}
				}
				for j, kp := range d.kids[cres.pre] {
					if j == want {
						continue
					}
					if ok, _ := d.rawMatches(kp, out.n); !ok {
						continue
					}
					key, isKey := p.steps[i].(string)
					if isKey && cn.Kind == gen.KObj && gen.KeyText(cn.Keys[j]) == key {
						last := j
						for q := j + 1; q < len(cn.Keys); q++ {
							if gen.KeyText(cn.Keys[q]) == key {
								last = q
							}
						}
						if last == j {
							class = "duplicate-key-returns-last"
						} else {
							class = "duplicate-key-returns-later-occurrence"
						}
					} else if j == want+1 {
						class = "returns-next-sibling"
					} else if j == want-1 {
						class = "returns-previous-sibling"
					} else {
						class = "returns-other-sibling"
					}
					break
				}
			}
			if cn != nil && cn.Kind == gen.KObj {
				if key, isKey := p.steps[i].(string); isKey {
					c := 0
					esc := false
					for _, kl := range cn.Keys {
						if gen.KeyText(kl) == key {
							c++
							if strings.IndexByte(kl, '\\') >= 0 {
								esc = true
							}
						}
					}
					if c > 1 && !strings.HasPrefix(class, "duplicate-key") {
						feat = append(feat, "duplicated-key")
					}
					if esc {
						feat = append(feat, "escaped-key")
					}
				}
			}
		case c14Missing:
			if out.st == c14Val {
				class = res.kind + ":returns-value"
			} else if out.err != nil && out.err.Error() == ast.ErrNotExist.Error() {
				// same code and message as ErrNotExist but another error value: one defect
				// whatever the container state, size or index
				return stepOp + c14sentinelClass
			} else {
				class = res.kind + ":error-is-not-ErrNotExist"
			}
		default:
			class = res.kind + ":returns-value"
		}
		return stepOp + ":" + strings.Join(append(feat, class), ":")
	}
	return "every-step-agrees-only-final-view-differs"
}

func (x *c14run) hashPair(d *c14doc, p *c14path) {
	h := fnv.New64a()
	h.Write(d.bs)
	h.Write([]byte{0})
	h.Write([]byte(p.enc))
	x.seen[h.Sum64()] = struct{}{}
}

var c14errClass = [3]string{"value", "ErrNotExist", "other-error"}

func (x *c14run) evalDoc(d *c14doc) {
	r := x.r
	if why := d.crossCheck(); why != "" {
		x.fail(d, nil, "harness", "", "harness:generator-and-encoding/json-disagree", "the generated model and encoding/json disagree about the document (a defect of the CHECK)", "agreement", why)
		return
	}
	d.mkpaths()
	r.Count("documents", 1)
	r.Count("documents_"+d.fam, 1)

	// roots shared by all paths of the document
	var reused, loaded [c14nRoots][2]ast.Node
	var rootOK [c14nRoots]bool
	for k := 0; k < c14nRoots; k++ {
		if x.lightRoots && k != 0 && k != 1 && k != 6 && k != 9 {
			continue
		}
		rootOK[k] = true
		for a := 0; a < 2; a++ {
			var err error
			reused[k][a], err = c14mkroot(d, k)
			r.Evaluations++
			if err == nil {
				if ok, why := d.rawMatches(0, &reused[k][a]); !ok {
					err = fmt.Errorf("root %s", why)
				}
			}
			if err != nil {
				x.fail(d, nil, c14rootName(k), "", "root:"+strings.SplitN(c14rootName(k), "(", 2)[0]+":valid-document-not-returned-whole", "obtaining the root node of a valid document fails or gives other text", "the document", err.Error())
				rootOK[k] = false
				break
			}
			loaded[k][a], _ = c14mkroot(d, k)
			if err := loaded[k][a].LoadAll(); err != nil {
				x.fail(d, nil, c14rootName(k), "", "root:LoadAll-fails-on-valid-document", "LoadAll fails", "nil", err.Error())
				rootOK[k] = false
				break
			}
		}
	}

	for pi := range d.paths {
		p := &d.paths[pi]
		x.hashPair(d, p)
		x.nPaths++
		switch {
		case p.node.st == c14Found && p.search.st == c14Wrong:
			x.nPathKind["index-into-object(search:wrong-kind,Node:i-th-pair)"]++
		case p.node.st == c14Found:
			x.nPathKind["existing"]++
		default:
			x.nPathKind[p.node.kind]++
		}

		// --- search family
		if !p.neg {
			for fi := range c14searchFns {
				f := &c14searchFns[fi]
				cls := -1
				for o := 0; o < f.nopt; o++ {
					out := f.run(d, p.steps, o)
					r.Evaluations++
					ok, why := d.agree(p.search, out)
					if ok && out.st == c14Val && fi == c14viewFn && (o == 1 || o == 6) {
						if vc, ve, vo := x.views(d, p.search.pre, out.n); vc != "" {
							x.fail(d, p, f.name, c14optNames[o], "view:"+vc, "a read-only view of the located node does not describe the addressed value", ve, vo)
						}
					}
					if p.search.st == c14Wrong {
						x.wrongKind(f.name, p.search.kind, out.st)
						if cls >= 0 && cls != out.st && ok {
							x.fail(d, p, f.name, c14optNames[o], f.name+":"+p.search.kind+":error-class-depends-on-options", "the outcome of a wrong-kind path depends on SearchOptions", c14errClass[cls], c14errClass[out.st])
						}
						cls = out.st
					}
					if ok {
						continue
					}
					oo := o
					key := f.name + ":" + x.diagnose(d, p, false, func(i int) c14out { return f.run(d, p.steps[:i+1], oo) }, nil)
					if !x.want(key) {
						continue
					}
					optn := ""
					if f.nopt > 1 {
						optn = c14optNames[o]
					}
					x.fail(d, p, f.name, optn, key, f.name+" does not return exactly the addressed value", x.expString(d, p.search), why)
				}
			}
		}

		// --- node family
		for k := 0; k < c14nRoots; k++ {
			if !rootOK[k] {
				continue
			}
			for a := 0; a < 2; a++ {
				for s := 0; s < 3; s++ {
					var root *ast.Node
					switch s {
					case 0:
						n, _ := c14mkroot(d, k)
						root = &n
					case 1:
						root = &reused[k][a]
					default:
						root = &loaded[k][a]
					}
					var n *ast.Node
					if a == 0 {
						n = root.GetByPath(p.steps...)
					} else {
						n = c14chain(root, p.steps)
					}
					out := c14fromPtr(n)
					r.Evaluations++
					ok, why := d.agree(p.node, out)
					// views: on nodes located by chains on a plain and on a concurrent-read
					// root, fresh and loaded (the reused roots evolve through lookups only)
					if ok && out.st == c14Val && a == 1 && s != 1 && (k == 0 || k == 6) {
						if vc, ve, vo := x.views(d, p.node.pre, out.n); vc != "" {
							x.fail(d, p, c14access[a]+"/"+c14states[s]+"/"+c14rootName(k), "", "view:"+vc, "a read-only view of the located node does not describe the addressed value", ve, vo)
						}
					}
					if p.node.st == c14Wrong {
						x.wrongKind(c14access[a], p.node.kind, out.st)
					}
					if ok {
						continue
					}
					rt := root
					var diag string
					if p.node.st == c14Missing && p.node.step == len(p.steps)-1 && out.st == c14Err && out.err.Error() == ast.ErrNotExist.Error() {
						// fast path of diagnose for the commonest class (same key as there)
						diag = "index-step" + c14sentinelClass
						if c := d.resolve(p.steps[:p.node.step], true); c.st == c14Found && d.nodes[c.pre].Kind == gen.KObj {
							diag = "index-step-on-object" + c14sentinelClass
						}
					} else {
						diag = x.diagnose(d, p, true,
							func(i int) c14out { return c14fromPtr(c14chain(rt, p.steps[:i+1])) },
							func(i int) *ast.Node { return c14chain(rt, p.steps[:i]) })
					}
					ep := c14access[a]
					if a == 1 {
						// name the failing operation
						if strings.HasPrefix(diag, "key-step") {
							ep = "Node.Get"
						} else {
							ep = "Node.Index"
						}
					}
					key := ep + ":" + diag
					if !x.want(key) {
						continue
					}
					x.fail(d, p, c14access[a]+"/"+c14states[s]+"/"+c14rootName(k), "", key, c14access[a]+" on a "+c14states[s]+" root from "+c14rootName(k)+" does not return exactly the addressed value", x.expString(d, p.node), why)
				}
			}
		}
	}

	// --- Preorder
	x.preorder(d)
}

const c14sentinelClass = ":out-of-range:not-exist-error-is-not-the-ErrNotExist-sentinel"

// c14viewFn: the search entry point whose results get the full view check.
const c14viewFn = 4

// want: is another witness of this key still wanted? (the report keeps 2 per key)
func (x *c14run) want(key string) bool {
	if x.keyCount == nil || x.keyCount[key] < 2 {
		return true
	}
	x.nViol++
	return false
}

type c14wk struct {
	ep, kind string
	st       int
}

func (x *c14run) wrongKind(ep, kind string, st int) {
	k := c14wk{ep, kind, st}
	if !x.wk[k] {
		x.wk[k] = true
		x.r.SetAdd("wrong_kind_outcomes", ep+":"+kind+":"+c14errClass[st])
	}
}

// flush moves the cheap counters into the report.
func (x *c14run) flush() {
	x.r.Count("paths", x.nPaths)
	x.r.Count("view_runs", x.nViews)
	for k, v := range x.nPathKind {
		x.r.Count("paths_"+k, v)
	}
	if x.nViol > 0 {
		x.r.Count("violating_cases_total", x.nViol)
	}
	x.nPaths, x.nViol, x.nViews, x.nPathKind = 0, 0, 0, map[string]int64{}
}

// ---------------------------------------------------------------------------------------
// read-only views of a located node

func c14b2i(b bool) int64 {
	if b {
		return 1
	}
	return 0
}

// views returns ("", "", "") or (failure class, expected, observed).
func (x *c14run) views(d *c14doc, pre int, n *ast.Node) (string, string, string) {
	x.nViews++
	t := d.nodes[pre]
	state := "parsed-node"
	if n.IsRaw() {
		state = "raw-node"
	}
	bad := func(acc string, exp, got interface{}) (string, string, string) {
		return acc + ":" + c14kindName(t), fmt.Sprintf("%s = %#v (%s)", acc, exp, state), c14clip(fmt.Sprintf("%#v", got))
	}
	wantType := map[gen.Kind]int{gen.KNull: ast.V_NULL, gen.KArr: ast.V_ARRAY, gen.KObj: ast.V_OBJECT, gen.KStr: ast.V_STRING, gen.KNum: ast.V_NUMBER}[t.Kind]
	if t.Kind == gen.KBool {
		wantType = ast.V_FALSE
		if t.Lit == "true" {
			wantType = ast.V_TRUE
		}
	}
	if n.Type() != wantType || n.TypeSafe() != wantType {
		return bad("Type", wantType, n.Type())
	}
	if !n.Exists() || !n.Valid() {
		return bad("Exists/Valid", true, false)
	}
	if t.Kind == gen.KArr || t.Kind == gen.KObj {
		if n.IsRaw() {
			// independent copies: every order of views starts from the untouched raw node
			c1, c2 := *n, *n
			if a, b, c := x.viewsContainer(d, pre, &c1, 0, state); a != "" {
				return a, b, c
			}
			return x.viewsContainer(d, pre, &c2, 1, state)
		}
		if a, b, c := x.viewsContainer(d, pre, n, 0, state); a != "" {
			return a, b, c
		}
		return x.viewsContainer(d, pre, n, 1, state)
	}
	c := *n
	n = &c
	e := d.x(pre)
	// reference values by strconv
	type num struct {
		i    int64
		f    float64
		iok  bool
		fok  bool
		text string
	}
	parse := func(s string) (v num) {
		var err error
		v.text = s
		v.i, err = strconv.ParseInt(s, 10, 64)
		v.iok = err == nil
		v.f, err = strconv.ParseFloat(s, 64)
		v.fok = err == nil
		return
	}
	var (
		wBool, wSBool                  interface{} = nil, nil // nil = error expected
		wInt, wSInt, wFlt, wSFlt       interface{}
		wNum, wSNum, wStr, wSStr, wLen interface{}
	)
	switch t.Kind {
	case gen.KNum:
		v := parse(t.Lit)
		wNum, wSNum, wStr = json.Number(t.Lit), json.Number(t.Lit), t.Lit
		wFlt, wSFlt = v.f, v.f
		if v.iok {
			wInt, wSInt, wBool = v.i, v.i, v.i != 0
		} else {
			wInt, wBool = int64(v.f), v.f != 0
		}
	case gen.KStr:
		s, _ := e.iface.(string)
		v := parse(s)
		wStr, wSStr, wLen = s, s, len(s)
		if b, err := strconv.ParseBool(s); err == nil {
			wBool = b
		}
		if v.iok {
			wInt = v.i
		} else if v.fok {
			wInt = int64(v.f)
		}
		if v.fok {
			wFlt = v.f
		}
		if v.iok || v.fok {
			wNum = json.Number(s)
		}
	case gen.KBool:
		b := t.Lit == "true"
		wBool, wSBool, wInt, wFlt, wNum, wStr = b, b, c14b2i(b), float64(c14b2i(b)), json.Number(strconv.Itoa(int(c14b2i(b)))), t.Lit
	case gen.KNull:
		wBool, wInt, wFlt, wNum, wStr, wLen = false, int64(0), float64(0), json.Number("0"), "", 0
	}
	chk := func(acc string, want interface{}, got interface{}, err error) (string, string, string) {
		if want == nil {
			if err == nil {
				return bad(acc, "an error", got)
			}
			return "", "", ""
		}
		if err != nil {
			return bad(acc, want, "error "+err.Error())
		}
		if !reflect.DeepEqual(want, got) {
			return bad(acc, want, got)
		}
		return "", "", ""
	}
	{
		v, err := n.Bool()
		if a, b, c := chk("Bool", wBool, v, err); a != "" {
			return a, b, c
		}
	}
	{
		v, err := n.StrictBool()
		if a, b, c := chk("StrictBool", wSBool, v, err); a != "" {
			return a, b, c
		}
	}
	{
		v, err := n.Int64()
		if a, b, c := chk("Int64", wInt, v, err); a != "" {
			return a, b, c
		}
	}
	{
		v, err := n.StrictInt64()
		if a, b, c := chk("StrictInt64", wSInt, v, err); a != "" {
			return a, b, c
		}
	}
	{
		v, err := n.Float64()
		if a, b, c := chk("Float64", wFlt, v, err); a != "" {
			return a, b, c
		}
	}
	{
		v, err := n.StrictFloat64()
		if a, b, c := chk("StrictFloat64", wSFlt, v, err); a != "" {
			return a, b, c
		}
	}
	{
		v, err := n.Number()
		if a, b, c := chk("Number", wNum, v, err); a != "" {
			return a, b, c
		}
	}
	{
		v, err := n.StrictNumber()
		if a, b, c := chk("StrictNumber", wSNum, v, err); a != "" {
			return a, b, c
		}
	}
	{
		v, err := n.String()
		if a, b, c := chk("String", wStr, v, err); a != "" {
			return a, b, c
		}
	}
	{
		v, err := n.StrictString()
		if a, b, c := chk("StrictString", wSStr, v, err); a != "" {
			return a, b, c
		}
	}
	{
		v, err := n.Len()
		if a, b, c := chk("Len", wLen, v, err); a != "" {
			return a, b, c
		}
	}
	{
		v, err := n.Interface()
		if err != nil || !reflect.DeepEqual(v, e.iface) {
			return bad("Interface", e.iface, fmt.Sprint(v, " err=", err))
		}
		v, err = n.InterfaceUseNumber()
		if err != nil || !reflect.DeepEqual(v, e.ifaceNum) {
			return bad("InterfaceUseNumber", e.ifaceNum, fmt.Sprint(v, " err=", err))
		}
	}
	if _, err := n.Map(); err == nil {
		return bad("Map", "an error", "a map")
	}
	if _, err := n.Array(); err == nil {
		return bad("Array", "an error", "a slice")
	}
	if _, err := n.Values(); err == nil {
		return bad("Values", "an error", "an iterator")
	}
	if _, err := n.Properties(); err == nil {
		return bad("Properties", "an error", "an iterator")
	}
	calls, idx := 0, 0
	if err := n.ForEach(func(p ast.Sequence, c *ast.Node) bool { calls++; idx = p.Index; return true }); err != nil || calls != 1 || idx != -1 {
		return bad("ForEach", "one call with Index -1", fmt.Sprint(calls, " call(s), Index ", idx, " err=", err))
	}
	if ok, why := d.rawMatches(pre, n); !ok {
		return bad("Raw-after-views", d.span(pre), why)
	}
	return "", "", ""
}

func c14kindName(t *gen.Tree) string {
	switch t.Kind {
	case gen.KNull:
		return "null"
	case gen.KBool:
		return "bool"
	case gen.KNum:
		return "number"
	case gen.KStr:
		return "string"
	case gen.KArr:
		if len(t.Kids) > 16 {
			return "array>16"
		}
		return "array"
	}
	if len(t.Kids) > 16 {
		return "object>16"
	}
	return "object"
}

func (x *c14run) viewsContainer(d *c14doc, pre int, n *ast.Node, order int, state string) (string, string, string) {
	t := d.nodes[pre]
	e := d.x(pre)
	kids := d.kids[pre]
	nk := len(kids)
	isObj := t.Kind == gen.KObj
	ord := "iterate-first"
	if order == 1 {
		ord = "convert-first"
	}
	bad := func(acc string, exp, got interface{}) (string, string, string) {
		return acc + ":" + c14kindName(t), fmt.Sprintf("%s = %#v (%s, %s)", acc, exp, state, ord), c14clip(fmt.Sprintf("%#v", got))
	}
	hasDup := false
	if isObj {
		seen := map[string]bool{}
		for _, k := range t.Keys {
			if seen[gen.KeyText(k)] {
				hasDup = true
			}
			seen[gen.KeyText(k)] = true
		}
	}
	badD := func(acc string, exp, got interface{}) (string, string, string) {
		if hasDup {
			acc += ":duplicated-key"
		}
		return bad(acc, exp, got)
	}
	iterate := func() (string, string, string) {
		if l, err := n.Len(); err != nil || l > nk {
			return bad("Len-before-load", fmt.Sprint("<= ", nk), fmt.Sprint(l, " err=", err))
		}
		if isObj {
			if _, err := n.Values(); err == nil {
				return bad("Values", "an error", "an iterator")
			}
			it, err := n.Properties()
			if err != nil {
				return bad("Properties", "an iterator", err.Error())
			}
			i := 0
			var pr ast.Pair
			for it.Next(&pr) {
				if i >= nk {
					return bad("Properties", fmt.Sprint(nk, " pairs"), "more")
				}
				if pr.Key != gen.KeyText(t.Keys[i]) {
					return bad("Properties.Key", gen.KeyText(t.Keys[i]), pr.Key)
				}
				if ok, why := d.rawMatches(kids[i], &pr.Value); !ok {
					return bad("Properties.Value", d.span(kids[i]), why)
				}
				i++
			}
			if i != nk {
				return bad("Properties", fmt.Sprint(nk, " pairs"), fmt.Sprint(i, " pairs"))
			}
		} else {
			if _, err := n.Properties(); err == nil {
				return bad("Properties", "an error", "an iterator")
			}
			it, err := n.Values()
			if err != nil {
				return bad("Values", "an iterator", err.Error())
			}
			i := 0
			var v ast.Node
			for it.Next(&v) {
				if i >= nk {
					return bad("Values", fmt.Sprint(nk, " values"), "more")
				}
				if ok, why := d.rawMatches(kids[i], &v); !ok {
					return bad("Values.Next", d.span(kids[i]), why)
				}
				i++
			}
			if i != nk {
				return bad("Values", fmt.Sprint(nk, " values"), fmt.Sprint(i, " values"))
			}
		}
		i, why := 0, ""
		err := n.ForEach(func(p ast.Sequence, c *ast.Node) bool {
			if i >= nk {
				why = "more calls than members"
				return false
			}
			if p.Index != i {
				why = fmt.Sprint("Sequence.Index ", p.Index, " at member ", i)
				return false
			}
			if isObj != (p.Key != nil) || (isObj && *p.Key != gen.KeyText(t.Keys[i])) {
				why = fmt.Sprint("Sequence.Key at member ", i)
				return false
			}
			if ok, w := d.rawMatches(kids[i], c); !ok {
				why = fmt.Sprint("member ", i, ": ", w)
				return false
			}
			i++
			return true
		})
		if err != nil || why != "" || i != nk {
			return bad("ForEach", fmt.Sprint(nk, " members in order"), fmt.Sprint(i, " ok, ", why, " err=", err))
		}
		if l, err := n.Len(); err != nil || l != nk {
			return bad("Len-after-full-iteration", nk, fmt.Sprint(l, " err=", err))
		}
		// positional access
		for i := 0; i < nk; i++ {
			c := n.Index(i)
			if c == nil || c.Check() != nil {
				return bad("Index", d.span(kids[i]), "missing/error")
			}
			if ok, w := d.rawMatches(kids[i], c); !ok {
				return bad("Index", d.span(kids[i]), w)
			}
			if isObj {
				key := gen.KeyText(t.Keys[i])
				pr := n.IndexPair(i)
				if pr == nil || pr.Key != key {
					return bad("IndexPair", key, "nil or other key")
				}
				if ok, w := d.rawMatches(kids[i], &pr.Value); !ok {
					return bad("IndexPair", d.span(kids[i]), w)
				}
				// IndexOrGet: the pair at idx if its key matches, else lookup by key (first)
				c := n.IndexOrGet(i, key)
				if c == nil || c.Check() != nil {
					return badD("IndexOrGet", d.span(kids[i]), "missing/error")
				}
				if ok, w := d.rawMatches(kids[i], c); !ok {
					return badD("IndexOrGet", d.span(kids[i]), w)
				}
				j := (i + 1) % nk
				want := j
				if gen.KeyText(t.Keys[j]) != key {
					for q := 0; q < nk; q++ {
						if gen.KeyText(t.Keys[q]) == key {
							want = q
							break
						}
					}
				}
				c = n.IndexOrGet(j, key)
				if c == nil || c.Check() != nil {
					return badD("IndexOrGet-other-index", d.span(kids[want]), "missing/error")
				}
				if ok, w := d.rawMatches(kids[want], c); !ok {
					return badD("IndexOrGet-other-index", d.span(kids[want]), w)
				}
			}
		}
		if isObj {
			if pr := n.IndexPair(nk); pr != nil {
				return bad("IndexPair(len)", "nil", "a pair")
			}
		} else if pr := n.IndexPair(0); pr != nil {
			return bad("IndexPair-on-array", "nil", "a pair")
		}
		return "", "", ""
	}
	convert := func() (string, string, string) {
		v, err := n.Interface()
		if err != nil || !reflect.DeepEqual(v, e.iface) {
			return badD("Interface", e.iface, fmt.Sprint(v, " err=", err))
		}
		v, err = n.InterfaceUseNumber()
		if err != nil || !reflect.DeepEqual(v, e.ifaceNum) {
			return badD("InterfaceUseNumber", e.ifaceNum, fmt.Sprint(v, " err=", err))
		}
		if isObj {
			m, err := n.Map()
			if err != nil || !reflect.DeepEqual(interface{}(m), e.iface) {
				return badD("Map", e.iface, fmt.Sprint(m, " err=", err))
			}
			m, err = n.MapUseNumber()
			if err != nil || !reflect.DeepEqual(interface{}(m), e.ifaceNum) {
				return badD("MapUseNumber", e.ifaceNum, fmt.Sprint(m, " err=", err))
			}
			if _, err := n.Array(); err == nil {
				return bad("Array-on-object", "an error", "a slice")
			}
			mn, err := n.MapUseNode()
			if err != nil {
				return badD("MapUseNode", "a map", err.Error())
			}
			last := map[string]int{}
			for i, k := range t.Keys {
				last[gen.KeyText(k)] = i
			}
			if len(mn) != len(last) {
				return badD("MapUseNode", fmt.Sprint(len(last), " keys"), fmt.Sprint(len(mn), " keys"))
			}
			for k, i := range last {
				c, ok := mn[k]
				if !ok {
					return badD("MapUseNode", "key "+k, "absent")
				}
				if ok, w := d.rawMatches(kids[i], &c); !ok {
					return badD("MapUseNode", d.span(kids[i]), w)
				}
			}
		} else {
			a, err := n.Array()
			if err != nil || !reflect.DeepEqual(interface{}(a), e.iface) {
				return bad("Array", e.iface, fmt.Sprint(a, " err=", err))
			}
			a, err = n.ArrayUseNumber()
			if err != nil || !reflect.DeepEqual(interface{}(a), e.ifaceNum) {
				return bad("ArrayUseNumber", e.ifaceNum, fmt.Sprint(a, " err=", err))
			}
			if _, err := n.Map(); err == nil {
				return bad("Map-on-array", "an error", "a map")
			}
			an, err := n.ArrayUseNode()
			if err != nil || len(an) != nk {
				return bad("ArrayUseNode", fmt.Sprint(nk, " nodes"), fmt.Sprint(len(an), " err=", err))
			}
			for i := range an {
				if ok, w := d.rawMatches(kids[i], &an[i]); !ok {
					return bad("ArrayUseNode", d.span(kids[i]), w)
				}
			}
		}
		if l, err := n.Len(); err != nil || l != nk {
			return bad("Len-after-conversion", nk, fmt.Sprint(l, " err=", err))
		}
		return "", "", ""
	}
	steps := []func() (string, string, string){iterate, convert}
	if order == 1 {
		steps[0], steps[1] = steps[1], steps[0]
	}
	for _, f := range steps {
		if a, b, c := f(); a != "" {
			return a, b, c
		}
	}
	// scalar accessors on a container are errors
	if _, err := n.Int64(); err == nil {
		return bad("Int64-on-container", "an error", "a value")
	}
	if _, err := n.String(); err == nil {
		return bad("String-on-container", "an error", "a value")
	}
	if _, err := n.Bool(); err == nil {
		return bad("Bool-on-container", "an error", "a value")
	}
	if _, err := n.Number(); err == nil {
		return bad("Number-on-container", "an error", "a value")
	}
	if _, err := n.Float64(); err == nil {
		return bad("Float64-on-container", "an error", "a value")
	}
	if ok, why := d.rawMatches(pre, n); !ok {
		return badD("Raw-after-views", d.span(pre), why)
	}
	return "", "", ""
}

// ---------------------------------------------------------------------------------------
// Preorder

type c14rec struct {
	ev     []string
	only   bool
	skipAt int // ordinal of the container-begin event answered with VisitOPSkip (-1: none)
	nbegin int
}

func (v *c14rec) num(kind string, val string, n json.Number) {
	if v.only {
		kind = "num"
	}
	v.ev = append(v.ev, kind+":"+val+":"+string(n))
}
func (v *c14rec) OnNull() error           { v.ev = append(v.ev, "null"); return nil }
func (v *c14rec) OnBool(b bool) error     { v.ev = append(v.ev, "bool:"+strconv.FormatBool(b)); return nil }
func (v *c14rec) OnString(s string) error { v.ev = append(v.ev, "str:"+s); return nil }
func (v *c14rec) OnInt64(i int64, n json.Number) error {
	v.num("int", strconv.FormatInt(i, 10), n)
	return nil
}
func (v *c14rec) OnFloat64(f float64, n json.Number) error {
	s := strconv.FormatFloat(f, 'g', -1, 64)
	if v.only && f == 0 {
		s = "0"
	}
	v.num("float", s, n)
	return nil
}
func (v *c14rec) begin(tok string) error {
	v.ev = append(v.ev, tok)
	v.nbegin++
	if v.nbegin-1 == v.skipAt {
		return ast.VisitOPSkip
	}
	return nil
}
func (v *c14rec) OnObjectBegin(int) error    { return v.begin("{") }
func (v *c14rec) OnObjectKey(k string) error { v.ev = append(v.ev, "key:"+k); return nil }
func (v *c14rec) OnObjectEnd() error         { v.ev = append(v.ev, "}"); return nil }
func (v *c14rec) OnArrayBegin(int) error     { return v.begin("[") }
func (v *c14rec) OnArrayEnd() error          { v.ev = append(v.ev, "]"); return nil }

// c14events: the reference event list of a tree.
func c14events(d *c14doc, only bool, skipAt int) (evs []string, nbegin int) {
	var rec func(pre int, emit bool)
	rec = func(pre int, emit bool) {
		t := d.nodes[pre]
		put := func(s string) {
			if emit {
				evs = append(evs, s)
			}
		}
		switch t.Kind {
		case gen.KNull:
			put("null")
		case gen.KBool:
			put("bool:" + t.Lit)
		case gen.KStr:
			s, _ := d.x(pre).iface.(string)
			put("str:" + s)
		case gen.KNum:
			if only {
				put("num:0:" + t.Lit)
				break
			}
			if !strings.ContainsAny(t.Lit, ".eE") {
				if i, err := strconv.ParseInt(t.Lit, 10, 64); err == nil {
					put("int:" + strconv.FormatInt(i, 10) + ":" + t.Lit)
					break
				}
			}
			f, _ := strconv.ParseFloat(t.Lit, 64)
			put("float:" + strconv.FormatFloat(f, 'g', -1, 64) + ":" + t.Lit)
		case gen.KArr, gen.KObj:
			op, cl := "[", "]"
			if t.Kind == gen.KObj {
				op, cl = "{", "}"
			}
			put(op)
			inner := emit
			if emit {
				if nbegin == skipAt {
					inner = false
				}
				nbegin++
			}
			for i, kp := range d.kids[pre] {
				if t.Kind == gen.KObj && inner {
					evs = append(evs, "key:"+gen.KeyText(t.Keys[i]))
				}
				rec(kp, inner)
			}
			put(cl)
		}
	}
	rec(0, true)
	return
}

func (x *c14run) preorder(d *c14doc) {
	nb := 0
	for _, only := range []bool{false, true} {
		for skip := -1; skip < nb || skip == -1; skip++ {
			if skip >= 0 && only {
				break
			}
			want, n := c14events(d, only, skip)
			if skip == -1 {
				nb = n
				if nb > 40 {
					nb = 40
				}
			}
			rec := &c14rec{only: only, skipAt: skip}
			var opts *ast.VisitorOptions
			if only {
				opts = &ast.VisitorOptions{OnlyNumber: true}
			}
			err := ast.Preorder(d.text, rec, opts)
			x.r.Evaluations++
			x.r.Count("preorder_runs", 1)
			if err == nil && reflect.DeepEqual(rec.ev, want) {
				continue
			}
			mode := "plain"
			if only {
				mode = "OnlyNumber"
			}
			if skip >= 0 {
				mode = "VisitOPSkip"
			}
			key := "Preorder:" + mode + ":event-sequence-differs"
			if err != nil {
				key = "Preorder:" + mode + ":error-on-valid-document"
			}
			cs := c14case{Doc: d.compactText(), Style: d.style, Fam: d.fam, EP: "Preorder", Opt: fmt.Sprintf("%s skipAt=%d", mode, skip)}
			x.violate(ev.Violation{Property: "C14", Key: key, What: "ast.Preorder callback sequence differs from the document's preorder token list",
				Case: ev.J(cs), Expected: c14clip(strings.Join(want, " ")), Observed: c14clip(strings.Join(rec.ev, " ")) + fmt.Sprint(" err=", err) + "   [document " + c14clip(d.text) + "]"})
		}
	}
}

// ---------------------------------------------------------------------------------------
// fixed families

func c14largeFamily() []*gen.Tree {
	var out []*gen.Tree
	wrap := func(t *gen.Tree) {
		out = append(out, t)
		out = append(out, gen.Obj([]string{`"w"`, `"z"`}, []*gen.Tree{t, gen.Leaf("0")}))
	}
	for _, n := range []int{15, 16, 17, 33} {
		wrap(gen.Large(n, false, false))
		wrap(gen.Large(n, true, false))
		wrap(gen.Large(n, true, true))
		// other positions of the duplicated pair, and container members
		for _, dp := range [][2]int{{0, 1}, {n - 2, n - 1}, {5, 10}} {
			t := gen.Large(n, true, false)
			t.Keys[dp[1]] = t.Keys[dp[0]]
			out = append(out, t)
		}
		t := gen.Large(n, true, true)
		t.Kids[0] = gen.Obj([]string{`"x"`, "\"\\u0078\""}, []*gen.Tree{gen.Leaf("1"), gen.Leaf("2")})
		t.Kids[n-1] = gen.Arr(gen.Leaf("true"), gen.Leaf(`"s"`))
		t.N = 1
		for _, k := range t.Kids {
			t.N += k.N
		}
		out = append(out, t)
		a := gen.Large(n, false, false)
		a.Kids[n-1] = gen.Large(n, true, true)
		a.N = 1
		for _, k := range a.Kids {
			a.N += k.N
		}
		out = append(out, a)
	}
	return out
}

func c14deepFamily() []*gen.Tree {
	var out []*gen.Tree
	for _, depth := range []int{2, 3, 8, 16, 17, 33, 64, 65} {
		for shape := 0; shape < 3; shape++ {
			t := gen.Leaf("0")
			for i := 0; i < depth; i++ {
				obj := shape == 1 || (shape == 2 && i%2 == 0)
				if obj {
					t = gen.Obj([]string{`"a"`, "\"\\u0061\""}, []*gen.Tree{t, gen.Leaf(`"s"`)})
				} else {
					t = gen.Arr(gen.Leaf("[]"), t)
				}
			}
			out = append(out, t)
		}
	}
	return out
}

// c14parse rebuilds a tree from its compact rendering (replay).
func c14parse(s string) (t *gen.Tree, ok bool) {
	defer func() {
		if recover() != nil {
			t, ok = nil, false
		}
	}()
	i := 0
	str := func() string {
		j := i + 1
		for s[j] != '"' {
			if s[j] == '\\' {
				j++
			}
			j++
		}
		r := s[i : j+1]
		i = j + 1
		return r
	}
	var val func() *gen.Tree
	val = func() *gen.Tree {
		switch s[i] {
		case '[':
			i++
			var kids []*gen.Tree
			for s[i] != ']' {
				if s[i] == ',' {
					i++
				}
				kids = append(kids, val())
			}
			i++
			return gen.Arr(kids...)
		case '{':
			i++
			var keys []string
			var kids []*gen.Tree
			for s[i] != '}' {
				if s[i] == ',' {
					i++
				}
				keys = append(keys, str())
				i++ // ':'
				kids = append(kids, val())
			}
			i++
			return gen.Obj(keys, kids)
		case '"':
			return gen.Leaf(str())
		}
		j := i
		for j < len(s) && s[j] != ',' && s[j] != ']' && s[j] != '}' {
			j++
		}
		r := s[i:j]
		i = j
		return gen.Leaf(r)
	}
	t = val()
	return t, i == len(s)
}

// ---------------------------------------------------------------------------------------

type c14stratum struct {
	name         string
	leaves, keys []string
	kAll         int // every tree with <= kAll nodes: all 10 root kinds
	kTop         int // 0, or every tree with exactly kTop nodes: 4 root kinds
}

// c14plan: measured tree counts (gen.Trees) per exact node count 1,2,3,...:
// full 11/66/3542/226710, small 7/28/602/15932/467978, tiny 4/12/116/1404/19108/279084.
// Every tree is rendered in all 3 whitespace styles. One document costs about 2 ms of CPU
// (~800 lookups + ~100 view runs), which fixes the sizes below; the next sizes up (full k=5:
// 1.6e7 trees, small k=6: 1.5e7, tiny k=7: 4e6) do not fit the thorough budget.
func c14plan(thorough bool) []c14stratum {
	if thorough {
		return []c14stratum{
			{"doc-full", gen.LeavesFull, gen.KeysFull, 3, 4},
			{"doc-small", gen.LeavesSmall, gen.KeysSmall, 4, 5},
			{"doc-tiny", c14LeavesTiny, c14KeysTiny, 5, 6},
		}
	}
	return []c14stratum{
		{"doc-full", gen.LeavesFull, gen.KeysFull, 3, 0},
		{"doc-small", gen.LeavesSmall, gen.KeysSmall, 4, 0},
		{"doc-tiny", c14LeavesTiny, c14KeysTiny, 5, 0},
	}
}

func init() {
	ev.Register(&ev.Check{
		ID: "C14", Level: "exploration", Workers: 16, QuickSecs: 150, ThorSecs: 1500,
		Rule: "every tree of DOC(k) over three alphabets in all 3 whitespace styles (quick: full k<=3, small k<=4, tiny k<=5 with all 10 root kinds; thorough adds full k=4, small k=5, tiny k=6 with 4 root kinds: NewRaw, sonic.Get(), GetWithOptions{ConcurrentRead}, GetWithOptions{all}), " +
			"plus the large-shape family (arrays/objects of 15/16/17/33 members, a duplicated key at 4 position pairs, container members, bare / wrapped / nested) and a depth grid (2..65, arrays / objects with an escaped duplicate key / alternating), all styles, all roots, " +
			"each with every path of its tree, every object member by position, and per container a missing key, the raw spelling of an escaped key, a wrong-kind step, index==len, index 2^32, index -1 (Node API), per scalar a key and an index step; " +
			"each (document, path) through sonic.Get/GetFromString/GetCopyFromString, GetWithOptions x 8 SearchOptions, Searcher.GetByPath x 8, and Node.GetByPath / Node.Get+Index chains on 10 kinds of root (NewRaw, sonic.Get(), GetWithOptions(o)()) x {fresh, reused over all paths of the document, LoadAll}; " +
			"oracle: outcome = the node addressed in the generated tree (first occurrence of a duplicated key; Raw() = recorded span text, or the same token sequence for parsed nodes) | ErrNotExist (missing key, index>=len) | some error (wrong-kind step); " +
			"typed accessors (strconv reference), Interface/InterfaceUseNumber/Map/Array(+UseNumber,+UseNode) (encoding/json of the span), Len, Values/Properties/ForEach, Index/IndexPair/IndexOrGet of the located node agree with the subtree; " +
			"ast.Preorder (plain, OnlyNumber, VisitOPSkip at each container) event list = the tree's preorder token list. " +
			"distinct_nontrivial = distinct (document text, path) pairs (64-bit hash)",
		Assume: []string{"the generated tree is the model; it is cross-checked per document against an encoding/json token walk (kinds, decoded keys, leaf values, span ends)",
			"encoding/json.Unmarshal of a span is the reference for Interface/Map/Array (a Go map keeps the last duplicate); strconv for typed accessors",
			"pre-assembled native get_by_path / skip routines are exercised as shipped (AVX2 on this host)"},
		Run: func(c *ev.Ctx, r *ev.Report) {
			x := &c14run{r: r, seen: map[uint64]struct{}{}, keyCount: map[string]int{}, nPathKind: map[string]int64{}, wk: map[c14wk]bool{}}
			defer x.flush()
			x.violate = func(v ev.Violation) { r.Violate(v) }
			// sonic allocates ~1 KB per container touched and pools a 32 KB state machine per
			// validation; a small untouched ballast keeps collections from being back to back
			// on the tiny live heap while the working set stays cache resident (measured: a
			// large heap is 10x slower here, page faults dominate).
			ballast := make([]byte, 8<<20)
			defer runtime.KeepAlive(ballast)
			debug.SetGCPercent(300)
			unit := 0
			stop := false
			doTree := func(t *gen.Tree, fam string, only int) {
				for style := 0; style < 3; style++ {
					if only >= 0 && style != only {
						continue
					}
					d := c14build(t, style, fam)
					c.SetCase(string(ev.J(c14case{Doc: d.compactText(), Style: style, Fam: fam, EP: "*"})))
					x.evalDoc(d)
				}
			}
			// fixed families first (they carry the known-threshold shapes)
			for _, t := range c14largeFamily() {
				unit++
				if c.Mine(unit) {
					doTree(t, "large", -1)
				}
			}
			for _, t := range c14deepFamily() {
				unit++
				if c.Mine(unit) {
					doTree(t, "deep", -1)
				}
			}
			cnt := 0
			for _, st := range c14plan(c.Thorough()) {
				by := gen.Trees(st.kAll, st.leaves, st.keys)
				x.lightRoots = false
				visit := func(t *gen.Tree) bool {
					unit++
					if !c.Mine(unit) {
						return true
					}
					cnt++
					if cnt&0x3f == 0 && c.Expired() {
						stop = true
						r.Exhaustive = false
						return false
					}
					doTree(t, st.name, -1)
					return true
				}
				for n := 1; n <= st.kAll && !stop; n++ {
					for _, t := range by[n] {
						if !visit(t) {
							break
						}
					}
				}
				if !stop && st.kTop > 0 {
					// the largest size is the bulk of the stratum: reduced root set
					x.lightRoots = true
					gen.ForEachTop(by, st.kTop, st.keys, visit)
					x.lightRoots = false
				}
				if stop {
					break
				}
			}
			r.Distinct = int64(len(x.seen))
			r.Sample(map[string]interface{}{"doc": `{"a":[0,{"\u0061":"s"}],"a":null}`, "path": []interface{}{"a", 1, "a"}, "ep": "Searcher.GetByPath", "opt": c14optNames[5]})
			r.Sample(map[string]interface{}{"doc": "Large(17,object,dup)", "path": []interface{}{"k0"}, "ep": "Node.chain/LoadAll/NewRaw"})
		},
		Replay: func(c *ev.Ctx, desc json.RawMessage) *ev.Violation {
			var cs c14case
			if json.Unmarshal(desc, &cs) != nil {
				return nil
			}
			t, ok := c14parse(cs.Doc)
			if !ok {
				return &ev.Violation{Property: "C14", Key: "harness:replay-document-unparseable", What: "replay description unreadable", Case: desc}
			}
			var all []ev.Violation
			x := &c14run{r: ev.NewReport(), seen: map[uint64]struct{}{}, nPathKind: map[string]int64{}, wk: map[c14wk]bool{}}
			x.violate = func(v ev.Violation) { all = append(all, v) }
			x.evalDoc(c14build(t, cs.Style, cs.Fam))
			var first *ev.Violation
			for i := range all {
				var vc c14case
				json.Unmarshal(all[i].Case, &vc)
				if cs.EP == "*" || cs.EP == "" {
					return &all[i]
				}
				if vc.EP == cs.EP && vc.Opt == cs.Opt && bytes.Equal(vc.Path, cs.Path) {
					return &all[i]
				}
				if first == nil && vc.EP == cs.EP {
					first = &all[i]
				}
			}
			return first
		},
	})
}
