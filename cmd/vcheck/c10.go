package main

import (
	"encoding/json"
	"fmt"
	"os"
	"reflect"
	"runtime"
	"runtime/debug"
	"strings"

	"github.com/bytedance/sonic"
	"github.com/bytedance/sonic/verifhooks"

	"verif/internal/ev"
	"verif/internal/gen"
)

// C10: generated code cooperates with the Go runtime (GC, stack growth, tracebacks).
// Engine E4: sonic's own debug seam calls a Go function at EVERY opcode boundary of every
// generated decoder/encoder program; the harness counts the boundaries of one execution and
// then re-runs it once per (boundary, event) - and per pair of boundaries for small programs
// - making the runtime intervene exactly there, and compares with the undisturbed run.

type c10prog struct {
	name   string
	decode bool
	t      reflect.Type
	doc    string             // decode programs
	val    func() interface{} // encode programs
}

// callback types whose methods themselves make the runtime intervene (events inside user
// callbacks invoked from generated code)
var c10inCallback func()

type c10cb struct{ V int }

// The event fires twice inside a callback: on entry, and after the last use of the receiver
// and of the argument - from there on the callback's own frame keeps neither alive, so they
// survive a collection only if the generated frame that made the call (its stack map) or a
// Go caller still references them.
func (c c10cb) MarshalJSON() ([]byte, error) {
	if c10inCallback != nil {
		c10inCallback()
	}
	out := []byte(fmt.Sprintf(`{"cb":%d}`, c.V))
	if c10inCallback != nil {
		c10inCallback()
	}
	return out, nil
}
func (c *c10cb) UnmarshalJSON(b []byte) error {
	if c10inCallback != nil {
		c10inCallback()
	}
	c.V = len(b)
	if c10inCallback != nil {
		c10inCallback()
	}
	return nil
}

// (larger than the tiny-allocator limit and with a pointer: an unreferenced key object is a
// heap object of its own that a collection frees and GODEBUG=clobberfree=1 poisons)
type c10tx struct {
	V int
	S string
	P [2]uintptr
}

func (c c10tx) MarshalText() ([]byte, error) {
	if c10inCallback != nil {
		c10inCallback()
	}
	out := []byte(fmt.Sprintf("tx%d", c.V))
	if c10inCallback != nil {
		c10inCallback()
	}
	return out, nil
}
func (c *c10tx) UnmarshalText(b []byte) error {
	if c10inCallback != nil {
		c10inCallback()
	}
	c.V = len(b)
	c.S = "k:" + string(b)
	if c10inCallback != nil {
		c10inCallback()
	}
	return nil
}

type c10all struct {
	B  bool
	I  int
	I8 int8
	U  uint16
	F  float64
	F3 float32
	S  string
	BS []byte
	P  *int
	PP **string
	SL []string
	AR [2]int
	M  map[string]int
	MI map[int]string
	MT map[c10tx]int
	IF interface{}
	N  json.Number
	R  json.RawMessage
	CB c10cb
	PC *c10cb
	TX c10tx
	SC []c10cb
	E  struct {
		X int
		Y []interface{}
	}
	Rec *gen.Rec
	T   gen.Tagged
}

const c10doc = `{"B":true,"I":-7,"I8":127,"U":65535,"F":1.5e3,"F3":0.25,"S":"str\né","BS":"aGVsbG8=","P":5,"PP":"pp","SL":["a","b\t"],"AR":[1,2],"M":{"k":1,"l":2},"MI":{"1":"one","-2":"m"},"MT":{"abc":1},` +
	`"IF":{"x":[1,"s",null,{"y":true}]},"N":12.5e1,"R":{"raw":[1]},"CB":{"in":1},"PC":[1,2],"TX":"text","SC":[1,{"a":2}],"E":{"X":1,"Y":[1,"two",3.5]},"Rec":{"V":1,"next":{"V":2,"kids":[{"V":3}],"m":{"q":{"V":4}}}},"T":{"a":1,"b":"\"x\"","C":"2.5","d":"7","g":"9","h":[1],"i":{"z":1},"j":[true],"l":"3","unknown":{"skip":[1,2,{"x":"y"}]}}}`

func c10progs() []c10prog {
	var l []c10prog
	dec := func(name string, t interface{}, doc string) {
		l = append(l, c10prog{name: "decode:" + name, decode: true, t: reflect.TypeOf(t), doc: doc})
	}
	dec("all-kinds-struct", c10all{}, c10doc)
	dec("interface", new(interface{}), c10doc)
	dec("map[string]interface", map[string]interface{}{}, c10doc)
	dec("[]interface", []interface{}{}, `[1,"s",{"a":[true,null,1.5,{"b":"c"}]},[[["deep"]]]]`)
	dec("[]callback", []c10cb{}, `[1,"two",{"three":3},[4]]`)
	dec("map[text]callback", map[c10tx]*c10cb{}, `{"k1":1,"key2":[2],"k":{"x":"y"}}`)
	dec("Rec", gen.Rec{}, `{"V":1,"next":{"V":2,"next":{"V":3,"kids":[{"V":4},{"V":5,"m":{"a":{"V":6}}}]}},"kids":[{"V":7}]}`)
	dec("Tagged", gen.Tagged{}, `{"a":1,"b":"\"s\"","C":"1.5","d":"3","g":"4","h":[1,2],"i":{"k":1},"j":"v","l":"9"}`)
	dec("mismatch-skip", dAB{}, `{"a":"not-int","b":[1,2],"zz":{"deep":[{"x":1}]},"a":3}`)
	dec("[][]string", [][]string{}, `[["a","b"],[],["c\n","é","`+strings.Repeat("x", 40)+`"]]`)
	dec("map[string][]float64", map[string][]float64{}, `{"a":[1,2.5,-0,1e10],"b":[],"c":[3]}`)
	dec("**struct", new(*dABp), `{"a":1,"b":{"a":2,"b":{"a":3}},"A":[{"a":4,"b":"x"},{"a":5}]}`)
	dec("[]byte+Number+Raw", dNum{}, `{"a":1.5e10,"b":{"k":[1,2,{"z":null}]},"A":"aGVsbG8gd29ybGQ="}`)
	dec("syntax-error-midway", c10all{}, c10doc[:len(c10doc)/2])
	enc := func(name string, f func() interface{}) { l = append(l, c10prog{name: "encode:" + name, val: f}) }
	mkAll := func() interface{} {
		var v c10all
		if err := json.Unmarshal([]byte(c10doc), &v); err != nil {
			panic(err)
		}
		return &v
	}
	enc("all-kinds-struct", mkAll)
	enc("all-kinds-struct-by-value", func() interface{} { return *(mkAll().(*c10all)) })
	enc("interface-tree", func() interface{} { var v interface{}; json.Unmarshal([]byte(c10doc), &v); return v })
	enc("[]callback", func() interface{} { return []c10cb{{1}, {2}, {3}} })
	enc("[]*callback", func() interface{} { return []*c10cb{{1}, nil, {3}} })
	enc("map[text]callback", func() interface{} { return map[c10tx]c10cb{{V: 1}: {1}, {V: 2}: {2}} })
	enc("Rec", func() interface{} {
		var v gen.Rec
		json.Unmarshal([]byte(`{"V":1,"next":{"V":2,"kids":[{"V":3},{"V":4,"m":{"a":{"V":5}}}]}}`), &v)
		return v
	})
	enc("map[string]interface", func() interface{} {
		return map[string]interface{}{"a": []interface{}{1, "s", nil, 1.5}, "b": map[string]interface{}{"c": true}}
	})
	enc("[]string-escapes", func() interface{} {
		return []string{"plain", "q\"\\", "<&>", "é😀", "\xff", strings.Repeat("y", 70)}
	})
	enc("floats", func() interface{} {
		return []interface{}{1.5, float32(0.1), 1e21, -0.0, 5e-324, int8(-1), uint64(1 << 63)}
	})
	enc("error-midway(NaN)", func() interface{} { return []interface{}{"a", map[string]interface{}{"k": []float64{1, nanValue()}}} })
	return l
}

func nanValue() float64 { var z float64; return z / z }

type c10event struct {
	name string
	do   func()
}

//go:noinline
func c10grow(n int) byte {
	var buf [2048]byte
	buf[n%2048] = byte(n)
	if n > 0 {
		return c10grow(n-1) + buf[(n*7)%2048]
	}
	return buf[0]
}

var c10sink byte
var c10tb = make([]byte, 1<<16)
var c10pcs = make([]uintptr, 128)
var c10lastFrames int

func c10events() []c10event {
	return []c10event{
		{"gc", func() { runtime.GC() }},
		{"stack-growth", func() { c10sink += c10grow(48) }}, // ~100 KiB of frames: the goroutine stack is copied
		{"stack-growth+gc(shrink)", func() { c10sink += c10grow(48); runtime.GC(); runtime.GC() }},
		{"traceback", func() {
			runtime.Stack(c10tb, false)
			n := runtime.Callers(0, c10pcs)
			fr := runtime.CallersFrames(c10pcs[:n])
			k := 0
			for {
				f, more := fr.Next()
				_ = f.Function
				k++
				if !more {
					break
				}
			}
			c10lastFrames = k
		}},
		{"gosched+gc", func() { runtime.Gosched(); runtime.GC() }},
	}
}

type c10case struct {
	Prog   string `json:"program"`
	Event  string `json:"event"`
	Points []int  `json:"points"` // boundary indices at which the event fires (-1 = every boundary)
	InCB   bool   `json:"in_callback,omitempty"`
}

// c10exec runs one program with `fire` called at every opcode boundary and returns the
// observation (after a final GC the decoded value is walked completely).
func c10exec(p *c10prog, fire func(k int), inCB func()) (obs string) {
	k := 0
	hook := func(i, op1, op2 int) {
		// A boundary in front of a `save` opcode is not a point at which the runtime can
		// intervene in production: the preceding opcode has just produced a pointer (e.g. the
		// map iterator) that only `save` makes reachable, and no call-out happens in between;
		// sonic's own SONIC_SYNC_GC seam skips its GC there for the same reason. The boundary
		// is counted (indices stay stable) but nothing is injected.
		name := verifhooks.EncoderOpName(op2)
		if p.decode {
			name = verifhooks.DecoderOpName(op2)
		}
		if fire != nil && !strings.Contains(name, "save") {
			fire(k)
		}
		k++
	}
	verifhooks.SetDecoderInject(hook)
	verifhooks.SetEncoderInject(hook)
	c10inCallback = inCB
	defer func() {
		verifhooks.SetDecoderInject(nil)
		verifhooks.SetEncoderInject(nil)
		c10inCallback = nil
		if x := recover(); x != nil {
			obs = "PANIC:" + clipS(fmt.Sprint(x), 200)
		}
	}()
	if p.decode {
		dst := reflect.New(p.t)
		in := []byte(p.doc) // a fresh input that only the decoded value may keep alive
		err := sonic.Unmarshal(in, dst.Interface())
		in = nil
		runtime.GC()
		runtime.GC()
		return fmt.Sprintf("%s|%v|points=%d", gen.Dump(dst.Elem()), err != nil, k)
	}
	v := p.val()
	out, err := sonic.ConfigStd.Marshal(v)
	runtime.GC()
	return fmt.Sprintf("%s|%v|points=%d", out, err != nil, k)
}

func init() {
	progs := c10progs()
	events := c10events()
	findProg := func(n string) *c10prog {
		for i := range progs {
			if progs[i].name == n {
				return &progs[i]
			}
		}
		return nil
	}
	findEvent := func(n string) *c10event {
		for i := range events {
			if events[i].name == n {
				return &events[i]
			}
		}
		return nil
	}
	var baseline = map[string]string{}
	base := func(p *c10prog) string {
		if b, ok := baseline[p.name]; ok {
			return b
		}
		c10exec(p, nil, nil) // compile
		b := c10exec(p, nil, nil)
		baseline[p.name] = b
		return b
	}
	judge := func(p *c10prog, cs c10case) *ev.Violation {
		e := findEvent(cs.Event)
		want := base(p)
		var fire func(k int)
		var cb func()
		if cs.InCB {
			cb = e.do
		} else {
			set := map[int]bool{}
			all := false
			for _, x := range cs.Points {
				if x < 0 {
					all = true
				}
				set[x] = true
			}
			fire = func(k int) {
				if all || set[k] {
					e.do()
				}
			}
		}
		got := c10exec(p, fire, cb)
		if got != want {
			where := "at-opcode-boundary"
			if cs.InCB {
				where = "inside-user-callback"
			}
			return &ev.Violation{Property: "C10", Key: fmt.Sprintf("%s:%s:%s:result-differs-from-undisturbed-run", strings.SplitN(p.name, ":", 2)[0], cs.Event, where),
				What: "a runtime event during generated code changes the result", Case: ev.J(cs), Expected: clipS(want, 300), Observed: clipS(got, 300)}
		}
		return nil
	}
	ev.Register(&ev.Check{
		ID: "C10", Level: "fault_enumeration", Workers: 16, QuickSecs: 150, ThorSecs: 1500,
		Rule: "25 codec programs (14 decode, 11 encode: a 25-field struct over every kind, interface trees, maps of every key kind, recursive types, (Text)(Un)Marshaler callbacks by value / pointer / as map key / in slices, mismatch and syntax-error exits) x EVERY dynamic opcode boundary of the execution (sonic's own debug seam calls the harness there) x 5 runtime events " +
			"{GC; ~100 KiB stack growth (the stack is copied); growth + GCs (shrink); runtime.Stack + Callers + CallersFrames over the generated frames; Gosched + GC}, one event per run (bound 1), the event at every boundary, the event inside every user callback, and (thorough) all pairs of boundaries for programs with <= 60 boundaries; background GC off so the injected events are the only ones; GODEBUG=clobberfree=1 poisons freed objects. " +
			"Oracle: the process survives (a death is attributed to the announced case), the result equals the undisturbed run, and after two final GCs the decoded value is walked completely. distinct_nontrivial = distinct (program, boundary set, event) cases",
		Assume: []string{"events inside runtime helpers called mid-opcode (mallocgc, mapassign) cannot be positioned individually", "asynchronous preemption has no points in generated code by construction (NoPreempt)", "requires VERIF_INJECT=1 at process start (set by ./check)"},
		Run: func(c *ev.Ctx, r *ev.Report) {
			if os.Getenv("VERIF_INJECT") == "" {
				r.Notes = append(r.Notes, "VERIF_INJECT not set: no opcode-boundary seam, nothing was injected")
				r.Exhaustive = false
				return
			}
			debug.SetGCPercent(-1)
			unit := 0
			for pi := range progs {
				p := &progs[pi]
				b := base(p)
				var n int
				fmt.Sscanf(b[strings.LastIndex(b, "points=")+7:], "%d", &n)
				r.SetAdd("boundaries", fmt.Sprintf("%s=%d", p.name, n))
				if n == 0 {
					r.Notes = append(r.Notes, "program "+p.name+" has no opcode boundaries (seam not active?)")
				}
				run := func(cs c10case) bool {
					unit++
					if !c.Mine(unit) {
						return true
					}
					if c.Expired() {
						r.Exhaustive = false
						return false
					}
					c.SetCase(string(ev.J(cs)))
					r.Evaluations++
					r.Distinct++
					if v := judge(p, cs); v != nil {
						r.Violate(*v)
					}
					if unit%400 == 1 {
						r.Sample(cs)
					}
					return true
				}
				evs := events
				if !c.Thorough() {
					// quick: GC, stack copy + shrink, traceback (the other two are combinations)
					evs = []c10event{events[0], events[2], events[3]}
				}
				for _, e := range evs {
					if !run(c10case{Prog: p.name, Event: e.name, Points: []int{-1}}) {
						return
					}
					if !run(c10case{Prog: p.name, Event: e.name, InCB: true}) {
						return
					}
					for k := 0; k < n; k++ {
						if !run(c10case{Prog: p.name, Event: e.name, Points: []int{k}}) {
							return
						}
					}
					if c.Thorough() && n <= 60 {
						for a := 0; a < n; a++ {
							for bb := a + 1; bb < n; bb++ {
								if !run(c10case{Prog: p.name, Event: e.name, Points: []int{a, bb}}) {
									return
								}
							}
						}
					}
				}
				runtime.GC()
			}
			// companion pass: pointer stores of generated code during a mark phase (free-running)
			if c.Shard == 0 && !c.Expired() {
				c10markPass(r)
			}
			r.Count("programs", int64(len(progs)))
		},
		CrashKey: func(desc string) string {
			var cs c10case
			json.Unmarshal([]byte(desc), &cs)
			where := "at-opcode-boundary"
			if cs.InCB {
				where = "inside-user-callback"
			}
			return fmt.Sprintf("%s:%s:%s:process-died", strings.SplitN(cs.Prog, ":", 2)[0], cs.Event, where)
		},
		Replay: func(c *ev.Ctx, desc json.RawMessage) *ev.Violation {
			var cs c10case
			json.Unmarshal(desc, &cs)
			debug.SetGCPercent(-1)
			if cs.Prog == "concurrent-mark" {
				rr := ev.NewReport()
				c10markPass(rr)
				for i := range rr.Violations {
					if rr.Violations[i].Key != "" {
						return &rr.Violations[i]
					}
				}
				return nil
			}
			if p := findProg(cs.Prog); p != nil && findEvent(cs.Event) != nil {
				return judge(p, cs)
			}
			return nil
		},
	})
}
