package main

import (
	"fmt"

	"github.com/bytedance/sonic"
	"github.com/bytedance/sonic/ast"
	"github.com/bytedance/sonic/decoder"

	"verif/internal/ev"
	"verif/internal/gen"
)

// Suite "errpos" (engine E5, used by C13): WHERE a malformed document is rejected is part of
// the result too. Every length stratum and every short token string, through the entry
// points that report a position, with the position and code in the observation.
func init() {
	xsuites["errpos"] = &xsuite{"errpos", func(c *ev.Ctx, thorough bool, emit func(func() string, string) bool) {
		obs := func(doc []byte) string {
			d := append(make([]byte, 0, len(doc)+16), doc...)
			var v interface{}
			e1 := sonic.Unmarshal(d, &v)
			p1, m1 := -1, ""
			if se, ok := e1.(decoder.SyntaxError); ok {
				p1, m1 = se.Pos, se.Msg
				if m1 == "" {
					m1 = fmt.Sprint(se.Code)
				}
			} else if e1 != nil {
				m1 = "other"
			}
			a, b := decoder.Skip(d)
			_, e3 := sonic.Get(d)
			p3 := -1
			if se, ok := e3.(ast.SyntaxError); ok {
				p3 = se.Pos
			}
			n := ast.NewRaw(string(d))
			e4 := n.Check()
			p4 := -1
			if se, ok := e4.(ast.SyntaxError); ok {
				p4 = se.Pos
			}
			return fmt.Sprintf("unmarshal:%d,%s|skip:%d,%d|get:%d,%v|raw:%d,%v", p1, m1, a, b, p3, e3 != nil, p4, e4 != nil)
		}
		stop := false
		one := func(doc []byte) bool {
			if tailDependent(doc) {
				return true
			}
			dd := doc
			if !emit(func() string { return fmt.Sprintf("%x", dd) }, obs(doc)) {
				stop = true
			}
			return !stop
		}
		for i, s := range c02strata(thorough) {
			if c.Mine(i) && !one(s) {
				return
			}
		}
		n := 3
		if thorough {
			n = 4
		}
		gen.ForEachTok2(gen.Tokens, n, c.Mine, func(idx []int, s []byte) bool { return one(s) })
	}}
}
