package main

import (
	"fmt"

	"github.com/bytedance/sonic/verifhooks"

	"verif/internal/ev"
)

// Suite "hist" (engine E5): the operations of C09 (Marshal by value / through a pointer,
// Unmarshal, Pretouch with compile options, PretouchMany) as two-step histories - every
// operation, from reset caches, followed by every observing operation - so that what a
// back end does in its ahead-of-time compile walk (the interpreter has its own) is compared
// with the other back end's. Both observations of a history are emitted.
func init() {
	xsuites["hist"] = &xsuite{"hist", func(c *ev.Ctx, thorough bool, emit func(func() string, string) bool) {
		ops := c09ops()
		for pi := range ops {
			if !c.Mine(pi) {
				continue
			}
			for oi := range ops {
				if !ops[oi].obs {
					continue
				}
				verifhooks.ResetCodecCaches()
				first := ops[pi].run()
				second := ops[oi].run()
				pi, oi := pi, oi
				if !emit(func() string { return fmt.Sprintf("%s ; %s", ops[pi].name, ops[oi].name) }, first+" ; "+second) {
					return
				}
			}
		}
	}}
}
