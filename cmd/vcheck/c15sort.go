package main

import (
	"bytes"
	"encoding/json"
	"fmt"
	"sort"
	"strings"

	"github.com/bytedance/sonic/ast"

	"verif/internal/ev"
)

// C15, sort sweep: SortKeys on objects whose pairs span 1-4 storage chunks (16 pairs each),
// for every document order of a small key set and structured orders of larger ones, on a
// fresh node / after a soft deletion / after an appended key. The input order of the sorter
// is the document order, which the harness chooses. Model: a stable sort of the live pairs by
// key; oracle: MarshalJSON afterwards lists exactly the model's (key, value) sequence, and
// Get(key) still returns the key's own value (key index maintained across swaps).

type c15sortCase struct {
	Keys    []string `json:"sort_doc_keys"` // document order
	Variant string   `json:"variant"`
}

var c15sortVariants = []string{"fresh", "loaded", "after-unset-middle", "after-set-new", "after-unset-first-and-last"}

func c15sortJudge(keys []string, variant string) (v *ev.Violation) {
	mk := func(cls, exp, obs string) *ev.Violation {
		return &ev.Violation{Property: "C15", Key: "sort-sweep:" + variant + ":" + cls, What: "SortKeys does not leave the object as the stable sort of its live pairs",
			Case: ev.J(c15sortCase{keys, variant}), Expected: clipS(exp, 300), Observed: clipS(obs, 300)}
	}
	defer func() {
		if x := recover(); x != nil {
			v = mk("panic", "no panic", clipS(fmt.Sprint(x), 200))
		}
	}()
	type pair struct {
		k string
		v int
	}
	var model []pair
	var b strings.Builder
	b.WriteByte('{')
	for i, k := range keys {
		if i > 0 {
			b.WriteByte(',')
		}
		kq, _ := json.Marshal(k)
		b.Write(kq)
		fmt.Fprintf(&b, ":%d", i)
		model = append(model, pair{k, i})
	}
	b.WriteByte('}')
	n := ast.NewRaw(b.String())
	del := func(k string) {
		for i := range model {
			if model[i].k == k {
				model = append(model[:i:i], model[i+1:]...)
				return
			}
		}
	}
	switch variant {
	case "loaded":
		n.LoadAll()
	case "after-unset-middle":
		if len(keys) < 1 {
			return nil
		}
		k := keys[len(keys)/2]
		if ok, err := n.Unset(k); !ok || err != nil {
			return mk("setup-unset-failed", "true,nil", fmt.Sprint(ok, err))
		}
		del(k)
	case "after-unset-first-and-last":
		if len(keys) < 2 {
			return nil
		}
		for _, k := range []string{keys[0], keys[len(keys)-1]} {
			if ok, err := n.Unset(k); !ok || err != nil {
				return mk("setup-unset-failed", "true,nil", fmt.Sprint(ok, err))
			}
			del(k)
		}
	case "after-set-new":
		if _, err := n.Set("Zz", ast.NewNumber("-1")); err != nil {
			return mk("setup-set-failed", "nil", fmt.Sprint(err))
		}
		model = append(model, pair{"Zz", -1})
	}
	if err := n.SortKeys(false); err != nil {
		return mk("error", "nil", err.Error())
	}
	sort.SliceStable(model, func(i, j int) bool { return model[i].k < model[j].k })
	var want strings.Builder
	for _, p := range model {
		fmt.Fprintf(&want, "%q:%d ", p.k, p.v)
	}
	out, err := n.MarshalJSON()
	if err != nil {
		return mk("marshal-error", want.String(), err.Error())
	}
	var got strings.Builder
	dec := json.NewDecoder(bytes.NewReader(out))
	dec.UseNumber()
	if t, err := dec.Token(); err != nil || t != json.Delim('{') {
		return mk("marshal-not-an-object", want.String(), clipS(string(out), 200))
	}
	for dec.More() {
		k, e1 := dec.Token()
		val, e2 := dec.Token()
		if e1 != nil || e2 != nil {
			return mk("marshal-malformed", want.String(), clipS(string(out), 200))
		}
		fmt.Fprintf(&got, "%q:%v ", k, val)
	}
	if got.String() != want.String() {
		return mk("order-or-pairing-differs", want.String(), got.String()+fmt.Sprintf("  (document order %q)", keys))
	}
	if nl, err := n.Len(); err != nil || nl != len(model) {
		return mk("len-differs", fmt.Sprint(len(model)), fmt.Sprint(nl, err))
	}
	for _, p := range model {
		x, err := n.Get(p.k).Int64()
		if err != nil || int(x) != p.v {
			return mk("get-after-sort-differs", fmt.Sprintf("Get(%q)=%d", p.k, p.v), fmt.Sprintf("%d,%v", x, err))
		}
	}
	return nil
}

func c15sortSweep(c *ev.Ctx, r *ev.Report) {
	permMax := 6
	if c.Thorough() {
		permMax = 8
	}
	unit := 700000
	for fi := range c03sortFamilies {
		fam := &c03sortFamilies[fi]
		if fam.name == "bytes-over-0x7f" {
			continue // not valid UTF-8: not expressible as JSON keys
		}
		for _, p := range []int{0, 1, 9, 14} {
			for _, variant := range c15sortVariants {
				unit++
				if !c.Mine(unit) {
					continue
				}
				if c.Expired() {
					r.Exhaustive = false
					return
				}
				for n := 0; n <= fam.max; n++ {
					keys := fam.mk(n, p)
					sort.Strings(keys)
					c.SetCase(string(ev.J(c15sortCase{keys, variant})))
					c03orders(keys, permMax, func(o []string) bool {
						r.Evaluations++
						r.Count("sort-sweep-orders", 1)
						if v := c15sortJudge(append([]string(nil), o...), variant); v != nil {
							r.Violate(*v)
							return false
						}
						return true
					})
				}
			}
		}
	}
}

func c15sortReplay(desc json.RawMessage) (*ev.Violation, bool) {
	var cs c15sortCase
	if json.Unmarshal(desc, &cs) != nil || cs.Variant == "" {
		return nil, false
	}
	return c15sortJudge(cs.Keys, cs.Variant), true
}
