package main

import (
	"encoding/json"
	"errors"
	"fmt"
	"io"
	"os"
	"reflect"
	"strings"
	"time"

	"github.com/bytedance/sonic"
	"github.com/bytedance/sonic/ast"
	"github.com/bytedance/sonic/decoder"
	"github.com/bytedance/sonic/encoder"

	"verif/internal/ev"
	"verif/internal/gen"
)

// C07: no input can crash, hang or panic the process, and every error value is usable.
// Engine E1 in crash-isolated worker processes (a dead worker is attributed to the case it
// announced and re-run 5x alone).

type c07entry struct {
	name string
	// run executes the entry point on input; it returns the error (if any) and the input
	// the error positions refer to
	run func(in []byte) error
}

type oneByteReader struct {
	b []byte
	i int
}

func (r *oneByteReader) Read(p []byte) (int, error) {
	if r.i >= len(r.b) {
		return 0, io.EOF
	}
	if len(p) == 0 {
		return 0, nil
	}
	p[0] = r.b[r.i]
	r.i++
	return 1, nil
}

var errNoProgress = errors.New("c07: stream decoder made no progress")

func c07entries() []c07entry {
	var l []c07entry
	add := func(n string, f func(in []byte) error) { l = append(l, c07entry{n, f}) }
	dests := []reflect.Type{
		reflect.TypeOf((*interface{})(nil)).Elem(), reflect.TypeOf(map[string]interface{}{}), reflect.TypeOf([]int{}), reflect.TypeOf(dAB{}), reflect.TypeOf(dMeth{}),
		reflect.TypeOf(dStr{}), reflect.TypeOf(dNum{}), reflect.TypeOf(gen.Rec{}), reflect.TypeOf(gen.Tagged{}), reflect.TypeOf(""), reflect.TypeOf(float32(0)),
		reflect.TypeOf(map[int]string{}), reflect.TypeOf([2]int{}), reflect.TypeOf((**string)(nil)), reflect.TypeOf(json.RawMessage{}),
	}
	for _, t := range dests {
		t := t
		add("Unmarshal:"+t.String(), func(in []byte) error { return sonic.Unmarshal(in, reflect.New(t).Interface()) })
	}
	add("ConfigStd.Unmarshal:interface", func(in []byte) error { var v interface{}; return sonic.ConfigStd.Unmarshal(in, &v) })
	add("ConfigStd.Unmarshal:Tagged", func(in []byte) error { var v gen.Tagged; return sonic.ConfigStd.Unmarshal(in, &v) })
	add("Valid", func(in []byte) error { sonic.Valid(in); return nil })
	add("Get", func(in []byte) error { _, err := sonic.Get(in); return err })
	add("Get(a,0)", func(in []byte) error { _, err := sonic.Get(in, "a", 0); return err })
	add("Get(1)", func(in []byte) error { _, err := sonic.Get(in, 1); return err })
	add("GetWithOptions(novalidate,a)", func(in []byte) error {
		n, err := sonic.GetWithOptions(in, ast.SearchOptions{}, "a")
		if err == nil {
			n.Interface()
			n.Raw()
		}
		return err
	})
	add("decoder.Skip", func(in []byte) error { decoder.Skip(in); return nil })
	add("Preorder", func(in []byte) error { return ast.Preorder(string(in), nopVisitor{}, nil) })
	add("ast.accessors", func(in []byte) error {
		n := ast.NewRaw(string(in))
		// every accessor on the node returned for the input; results ignored, panics are not
		n.Type()
		n.Exists()
		n.Valid()
		n.Check()
		n.Raw()
		n.Bool()
		n.Int64()
		n.StrictInt64()
		n.Float64()
		n.Number()
		n.String()
		n.StrictString()
		n.Len()
		n.Cap()
		n.Interface()
		n.InterfaceUseNumber()
		n.InterfaceUseNode()
		n.Map()
		n.MapUseNumber()
		n.Array()
		n.ArrayUseNumber()
		n.Get("a").Index(0).Raw()
		n.Index(0).Get("a").Interface()
		n.GetByPath("a", 0, "b").Check()
		n.IndexPair(0)
		n.IndexOrGet(1, "a")
		if it, err := n.Values(); err == nil {
			var v ast.Node
			for it.Next(&v) {
				v.Interface()
			}
		}
		if it, err := n.Properties(); err == nil {
			var p ast.Pair
			for it.Next(&p) {
				p.Value.Raw()
			}
		}
		n.ForEach(func(p ast.Sequence, v *ast.Node) bool { v.Type(); return true })
		n.SortKeys(true)
		n.MarshalJSON()
		n.LoadAll()
		c := n
		c.Set("k", ast.NewNumber("1"))
		c.Add(ast.NewNull())
		c.Unset("a")
		c.UnsetByIndex(0)
		c.Pop()
		c.MarshalJSON()
		var m ast.Node
		if len(in) > 0 { // UnmarshalJSON is an adapter for non-empty values handed over by a decoder
			m.UnmarshalJSON(in)
			m.Interface()
		}
		return n.Check()
	})
	add("StreamDecoder(1-byte reads)", func(in []byte) error {
		d := sonic.ConfigDefault.NewDecoder(&oneByteReader{b: in})
		for k := 0; k < len(in)+3; k++ {
			var v interface{}
			if err := d.Decode(&v); err != nil {
				if err == io.EOF {
					return nil
				}
				return err
			}
		}
		return errNoProgress
	})
	return l
}

// c07checkErr: every returned error is usable: Error() terminates with a bounded message and
// reports a position inside the input.
func c07checkErr(err error, in []byte) (verdict string) {
	if err == nil {
		return ""
	}
	defer func() {
		if r := recover(); r != nil {
			verdict = "Error()-panics(" + clipS(fmt.Sprint(r), 80) + ")"
		}
	}()
	msg := err.Error()
	var pos, srclen int = -1, -1
	etype := fmt.Sprintf("%T", err)
	switch e := err.(type) {
	case decoder.SyntaxError:
		pos, srclen = e.Pos, len(e.Src)
		e.Description()
	case *decoder.SyntaxError:
		pos, srclen = e.Pos, len(e.Src)
	case ast.SyntaxError:
		pos, srclen = e.Pos, len(e.Src)
		e.Description()
	case *decoder.MismatchTypeError:
		pos, srclen = e.Pos, len(e.Src)
		e.Description()
	}
	if len(msg) > 400 {
		if srclen >= 0 && pos >= srclen {
			// one root cause: calcBounds echoes the whole source when Pos >= len(Src)
			return fmt.Sprintf("unbounded-message:whole-source-echoed-when-pos>=len:%s(len=%d for input of %d bytes)", etype, len(msg), len(in))
		}
		return fmt.Sprintf("unbounded-message:%s(len=%d for input of %d bytes)", etype, len(msg), len(in))
	}
	if srclen >= 0 && (pos < 0 || pos > srclen) {
		cls := "position-outside-input"
		if (strings.Contains(msg, ": eof") || strings.Contains(msg, "Code:0x1,")) && pos > srclen && pos <= srclen+8 {
			cls = "position-outside-input:eof-reported-up-to-8-bytes-past-the-end"
		}
		return fmt.Sprintf("%s:%s(pos=%d,len=%d)", cls, etype, pos, srclen)
	}
	return ""
}

type c07case struct {
	Kind  string `json:"kind"`
	Entry string `json:"entry,omitempty"`
	Doc   string `json:"doc_hex,omitempty"`
	Spec  string `json:"spec,omitempty"`
}

func c07run(e *c07entry, in []byte) (viol string, detail string) {
	d := append(make([]byte, 0, len(in)), in...)
	var err error
	func() {
		defer func() {
			if r := recover(); r != nil {
				viol = "panic"
				detail = clipS(fmt.Sprint(r), 200)
			}
		}()
		err = e.run(d)
	}()
	if viol != "" {
		return
	}
	if err == errNoProgress {
		return "no-progress", "Decode kept returning nil without reaching the end of the input"
	}
	if c := c07checkErr(err, in); c != "" {
		return "error-value:" + strings.SplitN(c, "(", 2)[0], c + " " + clipS(err.Error(), 160)
	}
	return "", ""
}

// depth grid documents
// c07leaves: what sits at the innermost level of a boundary-depth document: one leaf per
// scanner path (fast / big-decimal float, integer overflow, plain / escaped string, literals,
// empty and non-empty containers, a second element)
var c07leaves = []string{"1", "-0", "1.5", "1.00000000000000011102230246251565404236316680908203125", "123456789012345678901234567890", "1e400", `""`, `"s\n\u00e9"`, "null", "true",
	"{}", "[]", `{"a":1}`, "[1,2]", "1,2", `"k":1`}

func c07deep(shape string, depth int, closed bool) []byte {
	return c07deepLeaf(shape, depth, closed, "1")
}

func c07deepLeaf(shape string, depth int, closed bool, leaf string) []byte {
	var open, cl string
	switch shape {
	case "array":
		open, cl = "[", "]"
	case "object":
		open, cl = `{"a":`, "}"
	case "mixed":
		open, cl = `[{"a":`, "}]"
	}
	var b strings.Builder
	b.Grow(depth*(len(open)+len(cl)) + 8)
	for i := 0; i < depth; i++ {
		b.WriteString(open)
	}
	if closed {
		b.WriteString(leaf)
		for i := 0; i < depth; i++ {
			b.WriteString(cl)
		}
	}
	return []byte(b.String())
}

type c07encCase struct {
	name string
	mk   func() interface{}
}

func c07encCases() []c07encCase {
	type cyc struct {
		P *cyc
		M map[string]*cyc
		S []*cyc
		I interface{}
	}
	l := []c07encCase{
		{"cyclic-pointer", func() interface{} { c := &cyc{}; c.P = c; return c }},
		{"cyclic-map", func() interface{} { c := &cyc{M: map[string]*cyc{}}; c.M["k"] = c; return c }},
		{"cyclic-slice", func() interface{} { c := &cyc{}; c.S = []*cyc{c}; return c }},
		{"cyclic-interface", func() interface{} { c := &cyc{}; c.I = c; return c }},
		{"cyclic-generic-map", func() interface{} { m := map[string]interface{}{}; m["m"] = m; return m }},
		{"cyclic-generic-slice", func() interface{} { s := make([]interface{}, 1); s[0] = s; return s }},
	}
	for _, n := range []int{100, 4000, 4096, 4097, 100000} {
		n := n
		l = append(l, c07encCase{fmt.Sprintf("linked-%d", n), func() interface{} {
			var h *gen.Rec
			for i := 0; i < n; i++ {
				h = &gen.Rec{V: i, Next: h}
			}
			return h
		}})
		l = append(l, c07encCase{fmt.Sprintf("nested-slices-%d", n), func() interface{} {
			var v interface{} = 1
			for i := 0; i < n; i++ {
				v = []interface{}{v}
			}
			return v
		}})
		l = append(l, c07encCase{fmt.Sprintf("nested-maps-%d", n), func() interface{} {
			var v interface{} = 1
			for i := 0; i < n; i++ {
				v = map[string]interface{}{"a": v}
			}
			return v
		}})
	}
	for _, u := range gen.UnsupportedLeaves() {
		u := u
		for d, mk := range []func(reflect.Value) interface{}{
			func(v reflect.Value) interface{} { return v.Interface() },
			func(v reflect.Value) interface{} {
				s := reflect.MakeSlice(reflect.SliceOf(v.Type()), 1, 1)
				s.Index(0).Set(v)
				return s.Interface()
			},
			func(v reflect.Value) interface{} {
				m := reflect.MakeMap(reflect.MapOf(reflect.TypeOf(""), reflect.SliceOf(v.Type())))
				s := reflect.MakeSlice(reflect.SliceOf(v.Type()), 1, 1)
				s.Index(0).Set(v)
				m.SetMapIndex(reflect.ValueOf("k"), s)
				return m.Interface()
			},
		} {
			mk := mk
			vals := gen.Values(u.T, 0)
			l = append(l, c07encCase{fmt.Sprintf("unsupported-%s-depth%d", u.Name, d), func() interface{} { return mk(vals[len(vals)-1]) }})
		}
	}
	return l
}

func init() {
	entries := c07entries()
	find := func(n string) *c07entry {
		for i := range entries {
			if entries[i].name == n {
				return &entries[i]
			}
		}
		return nil
	}
	viol := func(kind, entry, class, detail string, cs c07case) ev.Violation {
		key := kind + ":" + entry + ":" + class
		if strings.HasPrefix(class, "error-value:") {
			key = class // one finding per (defect class, error type), whatever the entry point
		}
		return ev.Violation{Property: "C07", Key: key, What: "an input makes an entry point " + class,
			Case: ev.J(cs), Expected: "an ordinary, usable error value or success", Observed: detail}
	}
	runDepth := func(c *ev.Ctx, r *ev.Report, shape string, depth int, closed bool, leaf int, e *c07entry) {
		spec := fmt.Sprintf("%s/%d/%v", shape, depth, closed)
		if leaf > 0 {
			spec += fmt.Sprintf("/%d", leaf)
		}
		cs := c07case{Kind: "depth", Entry: e.name, Spec: spec}
		if c.Skipped(string(ev.J(cs))) {
			return // an earlier start of this shard died here: attributed by the driver
		}
		c.SetCase(string(ev.J(cs)))
		r.Evaluations++
		if depth >= 65536 && os.Getenv("VERIF_REPLAY_CASE") == "" {
			// documents this deep can exhaust the goroutine stack of a recursive parser, which
			// kills the process: each is run in a process of its own, so that this worker (and
			// the rest of its shard) survives; a death must repeat 5 times to be reported
			caseJ := ev.J(cs)
			v, died, tail := ev.IsolatedReplay("C07", c, caseJ, 5*time.Minute)
			if died {
				n := 1
				for k := 0; k < 4; k++ {
					if _, d2, _ := ev.IsolatedReplay("C07", c, caseJ, 5*time.Minute); d2 {
						n++
					}
				}
				if n == 5 {
					r.Violate(ev.Violation{Property: "C07", Key: "depth(" + shape + ",>4096):" + e.name + ":process-died", What: "process died (crash/hang) while running case",
						Case: caseJ, Expected: "an ordinary, usable error value or success", Observed: "died in 5 of 5 isolated runs: " + tail})
				} else {
					r.Notes = append(r.Notes, fmt.Sprintf("case %s died in %d of 5 isolated runs: not reported", caseJ, n))
				}
			} else if v != nil {
				r.Violate(*v)
			}
			return
		}
		t0 := time.Now()
		if v, d := c07run(e, c07deepLeaf(shape, depth, closed, c07leaves[leaf])); v != "" {
			cls := "<=4096"
			if depth > 4096 {
				cls = ">4096"
			}
			r.Violate(viol("depth("+shape+","+cls+")", e.name, v, d, cs))
		}
		_ = t0
	}
	ev.Register(&ev.Check{
		ID: "C07", Level: "exploration", Workers: 16, QuickSecs: 270, ThorSecs: 1500,
		Rule: "every token string <= n tokens (n=4 quick / 5 thorough) and every single-byte corruption (12 hostile bytes at every position) and truncation of every JSON tree <= 3/4 nodes, through 27 entry points (Unmarshal into 15 destination types, Valid, Get with and without path, Skip, Preorder, ~45 ast accessors and mutators on the node built from the input, the stream decoder fed one byte per Read); " +
			"nesting-depth grid {1,64,4095,4096,4097,65536,10^6,4*10^6} x {array, object, mixed} x {closed, unclosed} x entry points; at the depth limit and one level either side of it, 15 innermost leaves (one per number / string / literal / container scanner path) x shapes x entry points; encoder: cyclic pointer/map/slice/interface graphs, 100..100000-deep linked and nested values, every unsupported kind at depth 0-2, through Marshal / ConfigStd.Marshal / Encode with all-options; " +
			"error objects: Error()/Description() for ALL (Pos, len(Src)) in [-40,len+40] x [0,80] of decoder.SyntaxError, ast.SyntaxError, MismatchTypeError. Oracle: no panic, worker process survives (a death is attributed to the announced case and confirmed 5x in isolation), Decode consumes or errors, every returned error has a bounded message and a position inside the input. " +
			"distinct_nontrivial = distinct (entry point, input) pairs that returned an error or a value",
		Assume: []string{"a 10-minute per-worker watchdog stands in for 'hangs' (cases cost microseconds to seconds)", "Node.UnmarshalJSON is an adapter a decoder calls with a non-empty value: it is only exercised with non-empty input"},
		Run: func(c *ev.Ctx, r *ev.Report) {
			// ---- (d) error objects, exhaustive (cheap; shard 0)
			if c.Shard == 0 {
				c07errObjects(r)
			}
			// ---- (c) encoder
			for i, ec := range c07encCases() {
				if !c.Mine(i) {
					continue
				}
				for _, api := range []struct {
					n string
					f func(interface{}) ([]byte, error)
				}{{"Marshal", sonic.Marshal}, {"ConfigStd.Marshal", sonic.ConfigStd.Marshal}, {"Encode(all-options)", func(v interface{}) ([]byte, error) { return encoder.Encode(v, encOpts(511)) }}} {
					cs := c07case{Kind: "encode", Entry: api.n, Spec: ec.name}
					if c.Skipped(string(ev.J(cs))) {
						continue
					}
					c.SetCase(string(ev.J(cs)))
					r.Evaluations++
					out, err, pan := safeMarshal(api.f, ec.mk())
					cls := strings.SplitN(ec.name, "-", 2)[0]
					if pan != "" {
						r.Violate(viol("encode("+cls+")", api.n, "panic", pan, cs))
					} else if err == nil && (cls == "cyclic" || cls == "unsupported") {
						r.Violate(viol("encode("+cls+")", api.n, "text-for-unrepresentable-value", clipS(string(out), 100), cs))
					} else if err != nil && len(err.Error()) > 600 {
						r.Violate(viol("encode("+cls+")", api.n, "error-value:unbounded-message", fmt.Sprint(len(err.Error())), cs))
					}
					r.Distinct++
				}
			}
			// ---- (b) depth grid
			depths := []int{1, 64, 4095, 4096, 4097, 65536, 1000000}
			if c.Thorough() {
				depths = append(depths, 4000000)
			}
			unit := 1000
			for _, shape := range []string{"array", "object", "mixed"} {
				for _, depth := range depths {
					for _, closed := range []bool{true, false} {
						for ei := range entries {
							unit++
							if !c.Mine(unit) {
								continue
							}
							if c.Expired() {
								r.Exhaustive = false
								return
							}
							if depth > 65536 && strings.HasPrefix(entries[ei].name, "StreamDecoder") {
								// one byte per Read makes the stream decoder re-scan its buffer on every
								// Read: quadratic, i.e. hours at 10^6 bytes, but not a hang; the grid
								// stops at 65536 for this entry point (stated in the evidence rule)
								continue
							}
							runDepth(c, r, shape, depth, closed, 0, &entries[ei])
							r.Distinct++
						}
					}
				}
			}
			// the depth limit itself: every leaf kind at the last permitted level and one level
			// either side of it (the slot written at the limit is the last one of the state stack)
			for _, shape := range []string{"array", "object", "mixed"} {
				for _, depth := range []int{2047, 2048, 2049, 4094, 4095, 4096, 4097} {
					if shape != "mixed" && depth < 4000 {
						continue // 2 levels per repetition of the mixed shape put its limit at 2048
					}
					for leaf := 1; leaf < len(c07leaves); leaf++ {
						unit++
						if !c.Mine(unit) {
							continue
						}
						if c.Expired() {
							r.Exhaustive = false
							return
						}
						for ei := range entries {
							runDepth(c, r, shape, depth, true, leaf, &entries[ei])
							r.Distinct++
						}
					}
				}
			}
			// ---- (a) token strings and corruptions
			n := 4
			if c.Thorough() {
				n = 5
			}
			cnt := 0
			evalDoc := func(doc []byte) bool {
				cnt++
				if cnt&0x3ff == 0 && c.Expired() {
					r.Exhaustive = false
					return false
				}
				for ei := range entries {
					e := &entries[ei]
					r.Evaluations++
					cd := fmt.Sprintf(`{"kind":"doc","entry":%q,"doc_hex":"%x"}`, e.name, doc)
					if c.Skipped(cd) {
						continue
					}
					c.SetCase(cd)
					if v, d := c07run(e, doc); v != "" {
						r.Violate(viol("doc", e.name, v, d+fmt.Sprintf(" doc=%q", clip(doc, 60)), c07case{Kind: "doc", Entry: e.name, Doc: fmt.Sprintf("%x", doc)}))
					}
				}
				r.Distinct += int64(len(entries))
				return true
			}
			stop := false
			gen.ForEachTok2(gen.TokensSmall, n, c.Mine, func(idx []int, s []byte) bool {
				if !evalDoc(s) {
					stop = true
				}
				return !stop
			})
			if stop {
				return
			}
			k := 3
			if c.Thorough() {
				k = 4
			}
			hostile := []byte{0x00, 0x01, '"', '\\', '{', '[', ']', '}', ',', ':', 0xff, 'e'}
			trees := gen.Trees(k, gen.LeavesFull, gen.KeysSmall)
			unit = 100000
			for sz := 1; sz <= k; sz++ {
				for ti, t := range trees[sz] {
					unit++
					if !c.Mine(unit) {
						continue
					}
					txt := gen.RenderTo(nil, t, ti%3, nil)
					for pos := 0; pos < len(txt); pos++ {
						if !evalDoc(txt[:pos]) {
							return
						}
						for _, h := range hostile {
							mu := append([]byte{}, txt...)
							mu[pos] = h
							if !evalDoc(mu) {
								return
							}
						}
					}
				}
			}
			r.Sample(c07case{Kind: "depth", Entry: "Get", Spec: "array/1000000/false"})
			r.Sample(c07case{Kind: "doc", Entry: "ast.accessors", Doc: fmt.Sprintf("%x", `{"a":[1,`)})
		},
		CrashKey: func(desc string) string {
			var cs c07case
			json.Unmarshal([]byte(desc), &cs)
			spec := cs.Spec
			if cs.Kind == "depth" {
				p := strings.Split(cs.Spec, "/")
				cls := "<=4096"
				var d int
				fmt.Sscan(p[1], &d)
				if d > 4096 {
					cls = ">4096"
				}
				spec = p[0] + "," + cls
			} else if cs.Kind == "doc" {
				var doc []byte
				fmt.Sscanf(cs.Doc, "%x", &doc)
				spec = tokenShape(doc)
			}
			return cs.Kind + "(" + spec + "):" + cs.Entry + ":process-died"
		},
		Replay: func(c *ev.Ctx, desc json.RawMessage) *ev.Violation {
			var cs c07case
			json.Unmarshal(desc, &cs)
			switch cs.Kind {
			case "doc":
				var doc []byte
				fmt.Sscanf(cs.Doc, "%x", &doc)
				if e := find(cs.Entry); e != nil {
					if v, d := c07run(e, doc); v != "" {
						x := viol("doc", e.name, v, d, cs)
						return &x
					}
				}
			case "depth":
				p := strings.Split(cs.Spec, "/")
				var d int
				fmt.Sscan(p[1], &d)
				leaf := 0
				if len(p) > 3 {
					fmt.Sscan(p[3], &leaf)
				}
				if e := find(cs.Entry); e != nil && leaf < len(c07leaves) {
					if v, dd := c07run(e, c07deepLeaf(p[0], d, p[2] == "true", c07leaves[leaf])); v != "" {
						cls := "<=4096"
						if d > 4096 {
							cls = ">4096"
						}
						x := viol("depth("+p[0]+","+cls+")", e.name, v, dd, cs)
						return &x
					}
				}
			case "encode":
				for _, ec := range c07encCases() {
					if ec.name == cs.Spec {
						_, _, pan := safeMarshal(sonic.Marshal, ec.mk())
						if pan != "" {
							x := viol("encode", cs.Entry, "panic", pan, cs)
							return &x
						}
					}
				}
			case "errobj":
				rr := ev.NewReport()
				c07errObjects(rr)
				if len(rr.Violations) > 0 {
					return &rr.Violations[0]
				}
			}
			return nil
		},
	})
}

// c07errObjects: Error()/Description() of the three positional error types for ALL
// (Pos, len(Src)) in [-40, len+40] x [0, 80].
func c07errObjects(r *ev.Report) {
	src := strings.Repeat("0123456789abcdef", 5)
	for l := 0; l <= 80; l++ {
		for pos := -40; pos <= l+40; pos++ {
			for k := 0; k < 3; k++ {
				r.Evaluations++
				var msg, pan string
				func() {
					defer func() {
						if x := recover(); x != nil {
							pan = fmt.Sprint(x)
						}
					}()
					switch k {
					case 0:
						e := decoder.SyntaxError{Pos: pos, Src: src[:l], Code: 2}
						msg = e.Error() + e.Description()
					case 1:
						e := ast.SyntaxError{Pos: pos, Src: src[:l], Code: 2}
						msg = e.Error() + e.Description()
					case 2:
						e := &decoder.MismatchTypeError{Pos: pos, Src: src[:l], Type: reflect.TypeOf(0)}
						msg = e.Error() + e.Description()
					}
				}()
				name := []string{"decoder.SyntaxError", "ast.SyntaxError", "decoder.MismatchTypeError"}[k]
				where := "pos-inside"
				if pos < 0 {
					where = "pos-negative"
				} else if pos >= l {
					where = "pos-at-or-beyond-end"
				}
				cs := c07case{Kind: "errobj", Entry: name, Spec: fmt.Sprintf("pos=%d,len=%d", pos, l)}
				if pan != "" {
					r.Violate(ev.Violation{Property: "C07", Key: "errobj:" + name + ":" + where + ":panic", What: "formatting an error value panics", Case: ev.J(cs), Expected: "a message", Observed: clipS(pan, 200)})
				} else if len(msg) > 2*(120+2*40) {
					r.Violate(ev.Violation{Property: "C07", Key: "errobj:" + name + ":" + where + ":unbounded-message", What: "error message grows with the input", Case: ev.J(cs), Expected: "<= ~200 bytes per rendering", Observed: fmt.Sprint(len(msg))})
				}
			}
		}
	}
	r.Distinct += 81 * 3
}
