package main

import (
	"bytes"
	"encoding/json"
	"fmt"
	"math"
	"reflect"
	"strings"
	"unsafe"

	"github.com/bytedance/sonic"
	"github.com/bytedance/sonic/ast"
	"github.com/bytedance/sonic/encoder"
	"github.com/bytedance/sonic/loader/vshim"
	"github.com/bytedance/sonic/option"

	"verif/internal/ev"
	"verif/internal/gen"
)

// C06: returned data is caller-owned; buffers and inputs are never aliased or overrun.
// Engine E2 (histories over a deterministic, inspectable pool) + exhaustive capacity sweep.

// live: everything sonic has ever handed to the caller in this history, with a snapshot
type c06live struct {
	what string
	b    []byte // aliases the returned memory (strings are viewed through unsafe)
	snap []byte
}

type c06state struct {
	live  []c06live
	nodes map[string]*ast.Node
	in    map[string][]byte // caller-owned input buffers by name
}

func (s *c06state) keep(what string, b []byte) {
	s.live = append(s.live, c06live{what, b, append([]byte{}, b...)})
}
func (s *c06state) keepStr(what string, str string) {
	if len(str) == 0 {
		return
	}
	s.keep(what, unsafe.Slice(unsafe.StringData(str), len(str)))
}

// check: every snapshot still equals its slice
func (s *c06state) check() (string, string) {
	for _, l := range s.live {
		if !bytes.Equal(l.b, l.snap) {
			return l.what, fmt.Sprintf("returned %q, now %q", clip(l.snap, 60), clip(l.b, 60))
		}
	}
	return "", ""
}

type c06big struct {
	A string
	B []int
	C map[string]string
}

var (
	c06small = struct {
		K string      `json:"k"`
		N interface{} `json:"n"`
	}{"v<>", 1} // (no multi-key map: without SortMapKeys Go's map order is random)
	c06large = c06big{A: strings.Repeat("x<&>", 40), B: []int{1, 2, 3, 4, 5, 6, 7, 8, 9, 10}, C: map[string]string{"a": strings.Repeat("y", 50)}}
	c06bad   = []interface{}{strings.Repeat("p", 30), math.NaN()}
	c06utf   = []string{"ok", "bad\xffutf", strings.Repeat("z", 70) + "\xfe"}
)

type c06op struct {
	name string
	run  func(s *c06state) string // returns the op's own output (compared with its solo output)
}

func c06ops() []c06op {
	std := sonic.ConfigStd
	def := sonic.ConfigDefault
	var l []c06op
	add := func(n string, f func(s *c06state) string) { l = append(l, c06op{n, f}) }
	enc := func(name string, f func() ([]byte, error)) {
		add(name, func(s *c06state) string {
			b, err := f()
			if err != nil {
				return "ERR"
			}
			s.keep(name, b)
			return string(b)
		})
	}
	enc("Marshal(small)", func() ([]byte, error) { return def.Marshal(c06small) })
	enc("Marshal(large)", func() ([]byte, error) { return def.Marshal(c06large) })
	enc("ConfigStd.Marshal(small)", func() ([]byte, error) { return std.Marshal(c06small) })
	enc("ConfigStd.Marshal(large)", func() ([]byte, error) { return std.Marshal(c06large) })
	enc("ConfigStd.Marshal(invalid-utf8)", func() ([]byte, error) { return std.Marshal(c06utf) })
	enc("Marshal(NaN)->error", func() ([]byte, error) { return def.Marshal(c06bad) })
	enc("MarshalIndent(small)", func() ([]byte, error) { return def.MarshalIndent(c06small, ">", "  ") })
	enc("MarshalIndent(large)", func() ([]byte, error) { return std.MarshalIndent(c06large, "", "\t") })
	add("MarshalString(large)", func(s *c06state) string {
		str, err := def.MarshalToString(c06large)
		if err != nil {
			return "ERR"
		}
		s.keepStr("MarshalString(large)", str)
		return str
	})
	add("MarshalString(small)", func(s *c06state) string {
		str, err := sonic.MarshalString(c06small)
		if err != nil {
			return "ERR"
		}
		s.keepStr("MarshalString(small)", str)
		return str
	})
	add("StreamEncoder.Encode(small,large)", func(s *c06state) string {
		var w bytes.Buffer
		e := def.NewEncoder(&w)
		e.Encode(c06small)
		e.Encode(c06large)
		s.keep("StreamEncoder output", w.Bytes())
		return w.String()
	})
	// validations that FAIL inside nested containers hand their pooled state machine back
	// with a non-empty stack: nothing later may read it
	add("Valid(truncated-nested)->false", func(s *c06state) string {
		return fmt.Sprint(sonic.Valid([]byte(`{"a":[[`)), sonic.Valid([]byte(`[[{"b":[`)))
	})
	add("Get(truncated-nested)->error", func(s *c06state) string {
		_, err := sonic.Get([]byte(`[1,{"a":[[`), 5)
		return fmt.Sprint(err != nil)
	})
	add("ConfigStd.Unmarshal(truncated-nested)->error", func(s *c06state) string {
		var v interface{}
		return fmt.Sprint(std.Unmarshal([]byte(`{"a":[{"b":[`), &v) != nil)
	})
	for _, capn := range []int{0, 7, 300} {
		capn := capn
		add(fmt.Sprintf("EncodeInto(cap=%d,large,EscapeHTML)", capn), func(s *c06state) string {
			buf := make([]byte, 0, capn)
			if err := encoder.EncodeInto(&buf, c06large, encoder.EscapeHTML|encoder.SortMapKeys); err != nil {
				return "ERR"
			}
			s.keep("EncodeInto result", buf)
			return string(buf)
		})
	}
	// ast nodes: outputs are kept, then the caller scribbles over what it was given
	docObj := `{"a":[1,"two",{"b":null}],"c":"d"}`
	mkNode := func(s *c06state, name string) *ast.Node {
		if n := s.nodes[name]; n != nil {
			return n
		}
		var n ast.Node
		switch name {
		case "raw":
			// the text lives in heap memory owned by the node (a copy), not in read-only data
			n = ast.NewRaw(string(append([]byte{}, docObj...)))
		case "get":
			in := append([]byte{}, `{"x":`+docObj+`}`...)
			s.in["get-input"] = in
			n, _ = sonic.Get(in, "x")
		case "loaded":
			n = ast.NewRaw(string(append([]byte{}, docObj...)))
			n.LoadAll()
		}
		s.nodes[name] = &n
		return &n
	}
	for _, nn := range []string{"raw", "get", "loaded"} {
		nn := nn
		add("Node("+nn+").MarshalJSON", func(s *c06state) string {
			b, err := mkNode(s, nn).MarshalJSON()
			if err != nil {
				return "ERR"
			}
			s.keep("Node("+nn+").MarshalJSON", b)
			return string(b)
		})
		add("Node("+nn+").Raw", func(s *c06state) string {
			r, err := mkNode(s, nn).Raw()
			if err != nil {
				return "ERR"
			}
			s.keepStr("Node("+nn+").Raw", r)
			return r
		})
		add("Node("+nn+").Get(a).Index(1).MarshalJSON", func(s *c06state) string {
			b, err := mkNode(s, nn).Get("a").Index(1).MarshalJSON()
			if err != nil {
				return "ERR"
			}
			s.keep("Node("+nn+").child.MarshalJSON", b)
			return string(b)
		})
	}
	// the caller owns every []byte it was given: it may overwrite it
	add("caller-overwrites-every-[]byte-it-was-given", func(s *c06state) string {
		for i := range s.live {
			l := &s.live[i]
			if strings.Contains(l.what, "Raw") || strings.Contains(l.what, "String") {
				continue // strings are immutable for the caller too
			}
			for j := range l.b {
				l.b[j] = '#'
			}
			l.snap = append(l.snap[:0], l.b...)
		}
		return ""
	})
	// decode side: the caller reuses its input buffer after the call
	decDoc := `{"S":"string value \n escaped","M":{"key one":"v"},"I":["elem"],"N":12.5,"R":{"raw":"msg"}}`
	type decT struct {
		S string
		M map[string]string
		I []interface{}
		N json.Number
		R json.RawMessage
	}
	for _, cfgn := range []string{"default", "std(CopyString)", "CopyString"} {
		cfgn := cfgn
		add("Unmarshal([]byte) "+cfgn+" then overwrite input", func(s *c06state) string {
			in := append([]byte{}, decDoc...)
			var v decT
			var err error
			switch cfgn {
			case "default":
				err = def.Unmarshal(in, &v)
			case "std(CopyString)":
				err = std.Unmarshal(in, &v)
			case "CopyString":
				err = sonic.Config{CopyString: true}.Froze().Unmarshal(in, &v)
			}
			if err != nil {
				return "ERR"
			}
			out, _ := json.Marshal(v)
			for i := range in {
				in[i] = '!'
			}
			out2, _ := json.Marshal(v)
			if !bytes.Equal(out, out2) {
				return "ALIASES-INPUT: " + string(out2)
			}
			var iv interface{}
			in2 := append([]byte{}, decDoc...)
			if def.Unmarshal(in2, &iv) == nil {
				o1, _ := json.Marshal(iv)
				for i := range in2 {
					in2[i] = '!'
				}
				o2, _ := json.Marshal(iv)
				if !bytes.Equal(o1, o2) {
					return "ALIASES-INPUT(interface): " + string(o2)
				}
			}
			return string(out)
		})
	}
	add("Get([]byte) then overwrite input", func(s *c06state) string {
		n := mkNode(s, "get")
		before, _ := n.MarshalJSON()
		bs := string(before)
		for i := range s.in["get-input"] {
			s.in["get-input"][i] = '!'
		}
		after, _ := n.Get("c").String()
		raw, _ := n.Raw()
		if after != "d" || raw != docObj {
			return "ALIASES-INPUT: " + raw
		}
		return bs
	})
	return l
}

type c06case struct {
	Ops  []string `json:"ops,omitempty"`
	Kind string   `json:"kind,omitempty"`
	Spec string   `json:"spec,omitempty"`
}

func c06setup() {
	vshim.PoolMode = 1
	vshim.ResetPools()
	option.LimitBufferSize = 256
	option.DefaultEncoderBufferSize = 16
	option.DefaultAstBufferSize = 16
	option.DefaultDecoderBufferSize = 16
}

func init() {
	ops := c06ops()
	find := func(n string) int {
		for i := range ops {
			if ops[i].name == n {
				return i
			}
		}
		return -1
	}
	var solo []string
	names := func(h []int) []string {
		var l []string
		for _, i := range h {
			l = append(l, ops[i].name)
		}
		return l
	}
	runHist := func(h []int) *ev.Violation {
		if solo == nil {
			solo = make([]string, len(ops))
			for i := range ops {
				c06setup()
				st := &c06state{nodes: map[string]*ast.Node{}, in: map[string][]byte{}}
				solo[i] = ops[i].run(st)
			}
		}
		c06setup()
		st := &c06state{nodes: map[string]*ast.Node{}, in: map[string][]byte{}}
		scribbled := false
		for k, oi := range h {
			var out string
			var pan string
			func() {
				defer func() {
					if x := recover(); x != nil {
						pan = fmt.Sprint(x)
					}
				}()
				out = ops[oi].run(st)
			}()
			mk := func(class, exp, obs string) *ev.Violation {
				return &ev.Violation{Property: "C06", Key: "history:" + ops[oi].name + ":" + class, What: "ownership / aliasing violated after a sequence of calls",
					Case: ev.J(c06case{Ops: names(h[:k+1])}), Expected: clipS(exp, 200), Observed: clipS(obs, 200)}
			}
			if pan != "" {
				return mk("panic", "no panic", pan)
			}
			if strings.HasPrefix(out, "ALIASES-INPUT") {
				return mk("decoded-value-aliases-the-caller's-input", solo[oi], out)
			}
			if ops[oi].name == "caller-overwrites-every-[]byte-it-was-given" {
				scribbled = true
			}
			// outputs do not depend on pool state / history - unless the caller's scribbling
			// went through to sonic's own state, which is exactly what is reported
			if out != solo[oi] {
				if scribbled {
					return mk("output-changed-after-the-caller-overwrote-a-[]byte-it-was-given", solo[oi], out)
				}
				return mk("output-depends-on-history", solo[oi], out)
			}
			if what, d := st.check(); what != "" {
				return mk("earlier-result("+what+")-changed-by-a-later-call", "unchanged", d)
			}
		}
		return nil
	}
	ev.Register(&ev.Check{
		ID: "C06", Level: "model_checking", Workers: 16, QuickSecs: 150, ThorSecs: 1500,
		Rule: "every history of <= 3 (quick) / 4 (thorough) operations over ~30 operation instances (Marshal / MarshalString / MarshalIndent / stream Encode / EncodeInto of values on both sides of the pool size limit, with EscapeHTML and ValidateString post-passes, an erroring encode; Node.MarshalJSON / Raw on raw, searched and loaded nodes; the caller overwriting every []byte it was given; Unmarshal([]byte) / Get([]byte) followed by overwriting the input) " +
			"on the real code with sync.Pool replaced by a deterministic LIFO that never drops (maximal reuse) and option.LimitBufferSize lowered to 256; after every operation: every result returned so far still equals its snapshot, the operation's output equals its output on a fresh state, decoded values do not change when the input buffer is overwritten. " +
			"Plus the exhaustive sweep EncodeInto x {10 hand-written values, every (type, value, addressability) case of the encoder grammar TYPE(2) x VAL(T) of C03} x EVERY capacity from 0 to 8 bytes more than the output needs x 2 prefix lengths x 2-4 option sets, with a canary prefix and a canary behind the capacity: nothing behind the capacity changes, the prefix stays, error and output do not depend on the buffer. states = histories, transitions = operations",
		Assume: []string{"the deterministic pool hands back the most recently released object: the schedule with maximal reuse", "strings are immutable for the caller: only []byte results are overwritten"},
		Run: func(c *ev.Ctx, r *ev.Report) {
			depth := 3
			if c.Thorough() {
				depth = 4
			}
			var rec func(h []int)
			rec = func(h []int) {
				if !r.Exhaustive {
					return
				}
				if len(h) > 0 {
					if c.Expired() {
						r.Exhaustive = false
						return
					}
					c.SetCase(string(ev.J(c06case{Ops: names(h)})))
					r.States++
					r.Evaluations++
					r.Transitions += int64(len(h))
					r.Validated++
					if v := runHist(h); v != nil {
						r.Violate(*v)
						return // do not extend a violating history
					}
				}
				if len(h) < depth {
					for oi := range ops {
						if len(h) == 0 && !c.Mine(oi) {
							continue
						}
						rec(append(append([]int{}, h...), oi))
					}
				}
			}
			rec(nil)
			r.Distinct = r.States
			r.SetAdd("depth", fmt.Sprint(depth))
			r.Sample(c06case{Ops: []string{"Node(raw).MarshalJSON", "caller-overwrites-every-[]byte-it-was-given", "Node(raw).Raw"}})
			// ---- capacity sweep
			c06sweep(c, r)
		},
		Replay: func(c *ev.Ctx, desc json.RawMessage) *ev.Violation {
			var cs c06case
			json.Unmarshal(desc, &cs)
			if cs.Kind == "sweep" {
				return c06sweepReplay(cs.Spec)
			}
			var h []int
			for _, n := range cs.Ops {
				i := find(n)
				if i < 0 {
					return nil
				}
				h = append(h, i)
			}
			return runHist(h)
		},
	})
}

// c06sweep: EncodeInto with caller buffers of EVERY capacity from 0 to 8 bytes more than the
// output needs, so that every emitting instruction meets the geometry "exactly as much room
// as it checked for". Values: a hand-written list plus every (type, value, addressability)
// case of the encoder grammar TYPE(2) x VAL(T) shared with C03.
func c06sweepOne(r *ev.Report, spec string, v interface{}, optsets []encoder.Options, fills []byte) {
	for _, o := range optsets {
		want, werr, wpan := safeEncode(v, o)
		if wpan != "" {
			continue // a panicking encode is C07's business
		}
		for capn := 0; capn <= len(want)+3+8; capn++ {
			for _, plen := range []int{0, 3} {
				if plen > capn {
					continue
				}
				for _, fill := range fills {
					r.Evaluations++
					arena := make([]byte, capn+16)
					for i := range arena {
						arena[i] = fill
					}
					prefix := []byte("<p>")[:plen]
					copy(arena, prefix)
					buf := arena[:plen:capn]
					err := encoder.EncodeInto(&buf, v, o)
					cspec := fmt.Sprintf("%s opts=%d cap=%d prefix=%d fill=%#x", spec, o, capn, plen, fill)
					mk := func(class, exp, obs string) {
						r.Violate(ev.Violation{Property: "C06", Key: "EncodeInto:" + class, What: "EncodeInto with a caller-supplied buffer", Case: ev.J(c06case{Kind: "sweep", Spec: cspec}), Expected: clipS(exp, 200), Observed: clipS(obs, 200)})
					}
					if (err == nil) != (werr == nil) {
						mk("error-depends-on-the-buffer", fmt.Sprint(werr), fmt.Sprint(err))
						continue
					}
					// whatever the outcome, nothing behind the capacity may change and the bytes
					// the caller already had in the buffer stay
					for i := capn; i < len(arena); i++ {
						if arena[i] != fill {
							mk("writes-beyond-the-capacity", "untouched", fmt.Sprintf("byte %d behind the capacity changed to %#x (output %q)", i-capn, arena[i], clipS(string(want), 60)))
							break
						}
					}
					if !bytes.Equal(arena[:plen], prefix) {
						mk("prefix-in-the-caller's-array-overwritten", string(prefix), string(arena[:plen]))
					}
					if err != nil {
						continue
					}
					if !bytes.HasPrefix(buf, prefix) {
						cl := "prefix-already-in-the-buffer-modified"
						if o&encoder.EscapeHTML != 0 {
							cl += "(EscapeHTML)"
						}
						mk(cl, string(prefix)+string(want), string(buf))
						continue
					}
					if !bytes.Equal(buf[plen:], want) {
						mk("output-depends-on-capacity-or-prior-contents", string(want), string(buf[plen:]))
					}
				}
			}
		}
	}
}

var c06sweepOpts = []encoder.Options{0, encoder.EscapeHTML, encoder.ValidateString | encoder.SortMapKeys, encoder.EscapeHTML | encoder.ValidateString | encoder.NoEncoderNewline | encoder.SortMapKeys}

func c06sweepHand() []interface{} {
	c06setup()
	return []interface{}{1, "s", "a<b>&", []int{1, 2, 3}, c06small, c06large, map[string]int{}, nil, "bad\xff", 1.5e300}
}

// c06sweep runs the sweep; only (when >= 0) restricts it to one grammar case or hand value.
func c06sweep(c *ev.Ctx, r *ev.Report) {
	before := r.Evaluations
	for vi, v := range c06sweepHand() {
		if !c.Mine(500000 + vi) {
			continue
		}
		c06sweepOne(r, fmt.Sprintf("value#%d", vi), v, c06sweepOpts, []byte{0x00, 0xA5})
	}
	n := 0
	encSuite(c, 2, func(t gen.TypeCase, ti, vi int, addr bool, val interface{}) bool {
		n++
		if n&0xff == 0 && c.Expired() {
			r.Exhaustive = false
			return false
		}
		if typeHas(t.T, func(x reflect.Type) bool { return x.Kind() == reflect.Map || x.Kind() == reflect.Interface }, 0) {
			// more than one key without SortMapKeys: output order is not a function of the value
			c06sweepOne(r, fmt.Sprintf("T%d/V%d/%v", ti, vi, addr), val, c06sweepOpts[2:], []byte{0xA5})
			return true
		}
		c06sweepOne(r, fmt.Sprintf("T%d/V%d/%v", ti, vi, addr), val, []encoder.Options{0, c06sweepOpts[3]}, []byte{0xA5})
		return true
	})
	r.Count("encodeinto_capacity_sweep_cases", r.Evaluations-before)
}

func c06sweepReplay(spec string) *ev.Violation {
	rr := ev.NewReport()
	var vi, ti, tvi int
	var addr bool
	if _, err := fmt.Sscanf(spec, "value#%d", &vi); err == nil {
		if h := c06sweepHand(); vi < len(h) {
			c06sweepOne(rr, fmt.Sprintf("value#%d", vi), h[vi], c06sweepOpts, []byte{0x00, 0xA5})
		}
	} else if _, err := fmt.Sscanf(spec, "T%d/V%d/%t", &ti, &tvi, &addr); err == nil {
		types := gen.Types(2)
		if ti < len(types) {
			vals := gen.Values(types[ti].T, 0)
			if tvi < len(vals) {
				var val interface{} = vals[tvi].Interface()
				if addr {
					p := reflect.New(types[ti].T)
					p.Elem().Set(vals[tvi])
					val = p.Interface()
				}
				c06sweepOne(rr, fmt.Sprintf("T%d/V%d/%v", ti, tvi, addr), val, c06sweepOpts, []byte{0x00, 0xA5})
			}
		}
	}
	for i := range rr.Violations {
		return &rr.Violations[i]
	}
	return nil
}
