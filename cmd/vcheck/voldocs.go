package main

import "strings"

// arityDocs: arrays with exactly as many / more / fewer elements than a fixed-size Go array
// destination holds ([2]int, [0]int, struct fields of those types), closed properly and with
// a trailing or doubled comma: the decoder switches from "decode element i" to "skip the
// rest" at the destination's length.
func arityDocs() []string {
	var l []string
	for _, body := range []string{"", "1", "1,2", "1,2,3", "1,2,3,4"} {
		for _, tail := range []string{"]", ",]", ", ]", ",,]", ",", ",}", ",]x", ",3", ",null]", ",[]]", ",[,]]"} {
			l = append(l, "["+body+tail, `{"a":[`+body+tail+`,"b":[]}`, `{"a":[`+body+tail+`}`)
		}
	}
	return l
}

// volumeDocs: documents with MANY invalid UTF-8 bytes inside string literals. Under
// ValidateString the decoder repairs such input through utf8.CorrectWith, which records the
// positions of invalid bytes in a table of 4096 entries and works in rounds when the table
// fills up; the documents put 4094..4098 and 8191..8193 invalid bytes in front of a stretch of
// valid bytes that carries structure (so that a dropped or duplicated stretch changes the
// verdict or the value), plus spaced-out invalid bytes whose gaps straddle the round boundary.
func volumeDocs() []string {
	var l []string
	for _, n := range []int{17, 4094, 4095, 4096, 4097, 4098, 8191, 8192, 8193} {
		bad := strings.Repeat("\xff", n)
		l = append(l,
			`["`+bad+`", 1 2 ,"`+"\xff"+`"]`,      // malformed once the gap is kept
			`["`+bad+`", [1, "`+"\xff"+`"]]`,      // valid
			`["`+bad+`ab","c`+"\xff"+`d"]`,        // value
			`{"k`+bad+`":"v`+"\xff"+`w\n","b":1}`, // key, escape behind the gap
			`["`+bad+`\","`+"\xc3"+`"]`,           // the gap starts with a backslash
		)
	}
	for _, n := range []int{2047, 2048, 2049, 4096, 4097} {
		l = append(l, `["`+strings.Repeat("\xffa", n)+`","z"]`, `{"a":"`+strings.Repeat("\xe9x", n)+`","b":[true]}`)
	}
	return l
}
