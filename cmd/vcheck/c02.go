package main

import (
	"bytes"
	"encoding/json"
	"fmt"
	"hash/fnv"
	"strings"

	"github.com/bytedance/sonic"
	"github.com/bytedance/sonic/ast"
	"github.com/bytedance/sonic/decoder"

	"verif/internal/ev"
	"verif/internal/gen"
)

// ---------------------------------------------------------------------------------------
// reference: structural validity with string-content leniency

// maskStrings replaces every string literal (opening quote .. first unescaped quote) by
// "x". An unterminated literal is left as it is (so the result is invalid).
func maskStrings(s []byte) []byte {
	out := make([]byte, 0, len(s))
	i := 0
	for i < len(s) {
		c := s[i]
		if c != '"' {
			out = append(out, c)
			i++
			continue
		}
		j := i + 1
		closed := false
		for j < len(s) {
			if s[j] == '\\' {
				j += 2
				continue
			}
			if s[j] == '"' {
				closed = true
				break
			}
			j++
		}
		if !closed {
			out = append(out, s[i:]...)
			return out
		}
		out = append(out, '"', 'x', '"')
		i = j + 1
	}
	return out
}

// lenientValid: the weakest acceptor the property allows.
func lenientValid(s []byte) bool { return json.Valid(maskStrings(s)) }

type capture struct{ b []byte }

func (c *capture) UnmarshalJSON(b []byte) error { c.b = append([]byte{}, b...); return nil }

type skipDst struct {
	Z int `json:"zz"`
}

type c02api struct {
	name string
	// wrap builds the document actually handed to sonic (and judged by the reference)
	wrap func(doc []byte) []byte
	// accept runs the API; judged returns the text the verdict is about (default: the
	// wrapped document)
	accept func(w []byte) (ok bool, judged []byte)
	// stdCmp: for typed destinations, "valid rejected" is only claimed when encoding/json
	// accepts the same call
	stdAccept func(w []byte) bool
}

func ident(d []byte) []byte { return d }

// stdIface: value-range errors (1E400) are not structural; "valid rejected" is claimed for
// Unmarshal into interface{} only when encoding/json accepts the same call.
func stdIface(w []byte) bool { var v interface{}; return json.Unmarshal(w, &v) == nil }
func wrapQ(d []byte) []byte {
	w := make([]byte, 0, len(d)+8)
	w = append(w, `{"q":`...)
	w = append(w, d...)
	return append(w, '}')
}

var cfgDefaultNoCopy = sonic.ConfigDefault

func c02apis() []c02api {
	std := sonic.ConfigStd
	def := sonic.ConfigDefault
	return []c02api{
		{name: "Valid", wrap: ident, accept: func(w []byte) (bool, []byte) { return sonic.Valid(w), nil }},
		{name: "ValidString", wrap: ident, accept: func(w []byte) (bool, []byte) { return sonic.ValidString(string(w)), nil }},
		{name: "Unmarshal-iface-std", wrap: ident, stdAccept: stdIface, accept: func(w []byte) (bool, []byte) {
			var v interface{}
			return std.Unmarshal(w, &v) == nil, nil
		}},
		{name: "Unmarshal-iface-default", wrap: ident, stdAccept: stdIface, accept: func(w []byte) (bool, []byte) {
			var v interface{}
			return def.Unmarshal(w, &v) == nil, nil
		}},
		{name: "Unmarshal-skip-std", wrap: wrapQ, accept: func(w []byte) (bool, []byte) {
			var v skipDst
			return std.Unmarshal(w, &v) == nil, nil
		}},
		{name: "Unmarshal-skip-default", wrap: wrapQ, accept: func(w []byte) (bool, []byte) {
			var v skipDst
			return def.Unmarshal(w, &v) == nil, nil
		}},
		{name: "Unmarshal-rawmessage-std", wrap: ident, accept: func(w []byte) (bool, []byte) {
			var v json.RawMessage
			return std.Unmarshal(w, &v) == nil, nil
		}},
		{name: "Unmarshal-rawmessage-default", wrap: ident, accept: func(w []byte) (bool, []byte) {
			var v json.RawMessage
			return def.Unmarshal(w, &v) == nil, nil
		}},
		{name: "Unmarshal-unmarshaler-default", wrap: ident, accept: func(w []byte) (bool, []byte) {
			var v capture
			return def.Unmarshal(w, &v) == nil, nil
		}},
		{name: "Unmarshal-unmarshaler-field-std", wrap: wrapQ, accept: func(w []byte) (bool, []byte) {
			var v struct {
				Q capture `json:"q"`
			}
			return std.Unmarshal(w, &v) == nil, nil
		}},
		// typed containers: their separators and white space are consumed by the generated
		// (JIT) code itself, not by the native skipper
		{name: "Unmarshal-map[string]int-default", wrap: ident,
			stdAccept: func(w []byte) bool { var v map[string]int; return json.Unmarshal(w, &v) == nil },
			accept:    func(w []byte) (bool, []byte) { var v map[string]int; return def.Unmarshal(w, &v) == nil, nil }},
		{name: "Unmarshal-[]int-std", wrap: ident,
			stdAccept: func(w []byte) bool { var v []int; return json.Unmarshal(w, &v) == nil },
			accept:    func(w []byte) (bool, []byte) { var v []int; return std.Unmarshal(w, &v) == nil, nil }},
		{name: "Unmarshal-[2]int-default", wrap: ident,
			stdAccept: func(w []byte) bool { var v [2]int; return json.Unmarshal(w, &v) == nil },
			accept:    func(w []byte) (bool, []byte) { var v [2]int; return def.Unmarshal(w, &v) == nil, nil }},
		{name: "Unmarshal-[][0]bool-std", wrap: ident,
			stdAccept: func(w []byte) bool { var v [][0]bool; return json.Unmarshal(w, &v) == nil },
			accept:    func(w []byte) (bool, []byte) { var v [][0]bool; return std.Unmarshal(w, &v) == nil, nil }},
		{name: "Unmarshal-struct-default", wrap: ident,
			stdAccept: func(w []byte) bool { var v dAB; return json.Unmarshal(w, &v) == nil },
			accept:    func(w []byte) (bool, []byte) { var v dAB; return def.Unmarshal(w, &v) == nil, nil }},
		{name: "Unmarshal-map[string]RawMessage-std", wrap: ident,
			stdAccept: func(w []byte) bool { var v map[string]json.RawMessage; return json.Unmarshal(w, &v) == nil },
			accept: func(w []byte) (bool, []byte) {
				var v map[string]json.RawMessage
				return std.Unmarshal(w, &v) == nil, nil
			}},
		{name: "Unmarshal-[][]interface-default", wrap: ident,
			stdAccept: func(w []byte) bool { var v [][]interface{}; return json.Unmarshal(w, &v) == nil },
			accept:    func(w []byte) (bool, []byte) { var v [][]interface{}; return def.Unmarshal(w, &v) == nil, nil }},
		{name: "Unmarshal-node-default", wrap: ident, accept: func(w []byte) (bool, []byte) {
			var n ast.Node
			if err := def.Unmarshal(w, &n); err != nil {
				return false, nil
			}
			if err := n.LoadAll(); err != nil {
				return false, nil
			}
			return n.Check() == nil, nil
		}},
		{name: "Get-nopath", wrap: ident, accept: func(w []byte) (bool, []byte) {
			n, err := sonic.Get(w)
			if err != nil || n.Check() != nil {
				return false, nil
			}
			return true, nil
		}},
		{name: "Get-path", wrap: wrapQ, accept: func(w []byte) (bool, []byte) {
			n, err := sonic.Get(w, "q")
			if err != nil || n.Check() != nil {
				return false, nil
			}
			return true, nil
		}},
		{name: "NewRaw", wrap: ident, accept: func(w []byte) (bool, []byte) {
			n := ast.NewRaw(string(w))
			if n.Check() != nil || !n.Exists() {
				return false, nil
			}
			return true, nil
		}},
		{name: "NewRaw-LoadAll", wrap: ident, accept: func(w []byte) (bool, []byte) {
			n := ast.NewRaw(string(w))
			if n.Check() != nil || !n.Exists() {
				return false, nil
			}
			if err := n.LoadAll(); err != nil {
				return false, nil
			}
			return n.Check() == nil, nil
		}},
		{name: "decoder.Skip", wrap: ident, accept: func(w []byte) (bool, []byte) {
			s, e := decoder.Skip(w)
			if s < 0 {
				return false, nil
			}
			if e > len(w) || s > e {
				return true, []byte("\x00out-of-range")
			}
			return true, w[s:e]
		}},
		{name: "Preorder", wrap: ident, accept: func(w []byte) (bool, []byte) {
			return ast.Preorder(string(w), nopVisitor{}, &ast.VisitorOptions{OnlyNumber: true}) == nil, nil
		}},
	}
}

type nopVisitor struct{}

func (nopVisitor) OnNull() error                        { return nil }
func (nopVisitor) OnBool(bool) error                    { return nil }
func (nopVisitor) OnString(string) error                { return nil }
func (nopVisitor) OnInt64(int64, json.Number) error     { return nil }
func (nopVisitor) OnFloat64(float64, json.Number) error { return nil }
func (nopVisitor) OnObjectBegin(int) error              { return nil }
func (nopVisitor) OnObjectKey(string) error             { return nil }
func (nopVisitor) OnObjectEnd() error                   { return nil }
func (nopVisitor) OnArrayBegin(int) error               { return nil }
func (nopVisitor) OnArrayEnd() error                    { return nil }

// c02classify computes the finding key of a violation from the witness.
func c02classify(api string, kind string, w []byte, judged []byte) string {
	if kind == "accept-malformed" {
		if api == "Get-path" {
			// addressed value is the text after {"q": ; if it is well-formed the defect lies in
			// a skipped sibling or after the value (documented: Get expects well-formed input)
			n, err := sonic.Get(w, "q")
			if err == nil {
				raw, _ := n.Raw()
				if lenientValid([]byte(raw)) {
					return api + ":accept-malformed:defect-outside-addressed-value"
				}
			}
		}
		// (a) the input ends inside a string literal which, once closed, completes a
		//     well-formed document. The key carries the content length residue mod 32 so that
		//     acceptance at any other residue is a different finding.
		if i := unterminatedAt(w); i >= 0 {
			content := len(w) - i - 1
			completes := false
			for _, q := range []string{`"`, `""`} {
				for _, cl := range []string{"", "}", "]", "}}", "]]", "]}", "}]"} {
					if lenientValid([]byte(string(w) + q + cl)) {
						completes = true
					}
				}
			}
			if completes {
				carry := ""
				if bytes.IndexByte(w[i+1:], '\\') >= 0 {
					carry = "-with-escape"
				}
				return fmt.Sprintf("%s:accept-malformed:unterminated-string-at-end-of-input:content-len-mod-32=%d%s", api, content%32, carry)
			}
		}
		if (api == "NewRaw" || api == "NewRaw-LoadAll" || api == "Get-nopath" || api == "Preorder") && judged == nil {
			// the API parsed one well-formed value and ignored what follows: some proper
			// prefix of the input is a complete well-formed document
			for i := 1; i < len(w); i++ {
				if lenientValid(w[:i]) {
					return api + ":accept-malformed:trailing-bytes-after-first-value"
				}
			}
		}
		if api == "Get-path" {
			return api + ":accept-malformed:addressed-value-malformed:" + tokenShape(w)
		}
		if unterminatedAt(w) >= 0 {
			return api + ":accept-malformed:unterminated-string:" + tokenShape(w)
		}
		return api + ":accept-malformed:" + tokenShape(w)
	}
	return api + ":" + kind + ":" + tokenShape(w)
}

// unterminatedAt returns the index of the opening quote of an unterminated string
// literal, or -1.
func unterminatedAt(s []byte) int {
	i := 0
	for i < len(s) {
		if s[i] != '"' {
			i++
			continue
		}
		j := i + 1
		closed := false
		for j < len(s) {
			if s[j] == '\\' {
				j += 2
				continue
			}
			if s[j] == '"' {
				closed = true
				break
			}
			j++
		}
		if !closed {
			return i
		}
		i = j + 1
	}
	return -1
}

// tokenShape abstracts a witness to a short shape (for keys of *unknown* violations:
// different shapes give different replay files).
func tokenShape(w []byte) string {
	var b strings.Builder
	for i := 0; i < len(w) && b.Len() < 48; i++ {
		c := w[i]
		switch {
		case c >= '0' && c <= '9':
			if b.Len() == 0 || b.String()[b.Len()-1] != 'd' {
				b.WriteByte('d')
			}
		case c >= 'a' && c <= 'z' || c >= 'A' && c <= 'Z':
			if b.Len() == 0 || b.String()[b.Len()-1] != 'w' {
				b.WriteByte('w')
			}
		case c == ' ' || c == '\n' || c == '\t' || c == '\r':
			if b.Len() == 0 || b.String()[b.Len()-1] != '_' {
				b.WriteByte('_')
			}
		case c < 0x20 || c >= 0x7f:
			b.WriteByte('?')
		default:
			b.WriteByte(c)
		}
	}
	return b.String()
}

type c02case struct {
	API string `json:"api"`
	Doc string `json:"doc_hex"`
}

func c02judge(a *c02api, doc []byte) *ev.Violation {
	w := a.wrap(doc)
	ok, judged := a.accept(w)
	target := w
	if judged != nil {
		target = judged
	}
	if ok && !lenientValid(target) {
		return &ev.Violation{Property: "C02", Key: c02classify(a.name, "accept-malformed", w, judged),
			What:     a.name + " accepts a structurally malformed document",
			Case:     ev.J(c02case{a.name, fmt.Sprintf("%x", doc)}),
			Expected: "rejected (reference: json.Valid with string contents masked = false)",
			Observed: fmt.Sprintf("accepted %q", clip(w, 120))}
	}
	if !ok && json.Valid(w) && (a.stdAccept == nil || a.stdAccept(w)) {
		return &ev.Violation{Property: "C02", Key: c02classify(a.name, "reject-valid", w, nil),
			What:     a.name + " rejects a document encoding/json.Valid accepts",
			Case:     ev.J(c02case{a.name, fmt.Sprintf("%x", doc)}),
			Expected: "accepted",
			Observed: fmt.Sprintf("rejected %q", clip(w, 120))}
	}
	return nil
}

func clip(b []byte, n int) []byte {
	if len(b) > n {
		return append(append([]byte{}, b[:n]...), "..."...)
	}
	return b
}

func init() {
	apis := c02apis()
	find := func(name string) *c02api {
		for i := range apis {
			if apis[i].name == name {
				return &apis[i]
			}
		}
		return nil
	}
	ev.Register(&ev.Check{
		ID: "C02", Level: "exploration", Workers: 16, QuickSecs: 150, ThorSecs: 1500,
		Rule: "every concatenation of <=n tokens of the TOK alphabet (n=5 quick on the small alphabet + n=4 on the full one; n=6/5 thorough), " +
			"length strata (string/number/space/bracket runs of every length 0..136 with closer deleted/doubled/stray byte, escapes at every offset), " +
			"every token-level mutant and byte truncation of DOC(k) documents, each through every consuming API; " +
			"oracle: accept => json.Valid(text with string literals masked); json.Valid(text) => accept. " +
			"distinct_nontrivial = distinct input byte strings (64-bit hash) accepted by the reference or by at least one API",
		Assume: []string{"encoding/json.Valid is the upper reference; the string-masking scanner (30 lines) is the lower one",
			"pre-assembled native routines are exercised as shipped (AVX2 on this host; SSE via C13)"},
		Run: func(c *ev.Ctx, r *ev.Report) {
			nontriv := ev.NewHashSet(29)
			evalDoc := func(doc0 []byte) {
				// private exact-length copy: what lies behind the input is C05's subject
				doc := append(make([]byte, 0, len(doc0)), doc0...)
				c.SetCase(fmt.Sprintf(`{"api":"*","doc_hex":"%x"}`, doc))
				any := lenientValid(doc)
				for i := range apis {
					a := &apis[i]
					r.Evaluations++
					w := a.wrap(doc)
					ok, judged := a.accept(w)
					if ok {
						any = true
					}
					target := w
					if judged != nil {
						target = judged
					}
					if (ok && !lenientValid(target)) || (!ok && json.Valid(w) && (a.stdAccept == nil || a.stdAccept(w))) {
						if v := c02judge(a, doc); v != nil {
							r.Violate(*v)
						}
					}
				}
				if any {
					h := fnv.New64a()
					h.Write(doc)
					nontriv.Add(h.Sum64())
				}
			}
			// --- TOK
			nSmall, nFull := 5, 4
			if c.Thorough() {
				nSmall, nFull = 6, 5
			}
			cnt := 0
			run := func(alpha []string, n int, label string) {
				gen.ForEachTok2(alpha, n, c.Mine, func(idx []int, s []byte) bool {
					cnt++
					if cnt&0xfff == 0 && c.Expired() {
						r.Exhaustive = false
						return false
					}
					evalDoc(s)
					r.Count("inputs_"+label, 1)
					return true
				})
			}
			// --- strata
			unit := 0
			_ = run
			for _, s := range c02strata(c.Thorough()) {
				unit++
				if !c.Mine(unit) {
					continue
				}
				if unit&0xff == 0 && c.Expired() {
					r.Exhaustive = false
					break
				}
				c.SetCase(fmt.Sprintf(`{"api":"*","doc_hex":"%x"}`, s))
				evalDoc(s)
				r.Count("inputs_strata", 1)
				r.SetAdd("length_mod_64", fmt.Sprint(len(s)%64))
			}
			// --- MUT(DOC(k))
			k := 4
			if c.Thorough() {
				k = 5
			}
			trees := gen.Trees(k, gen.LeavesSmall, gen.KeysSmall)
			mtoks := []string{"", "1", ",", ":", "[", "]", "{", "}", `"a"`, `"`, "x", " "}
			for n := 1; n <= k; n++ {
				for ti, t := range trees[n] {
					unit++
					if !c.Mine(unit) {
						continue
					}
					if c.Expired() {
						r.Exhaustive = false
						break
					}
					_ = ti
					txt := gen.RenderTo(nil, t, ti%3, nil)
					// byte truncations
					for cut := 0; cut <= len(txt); cut++ {
						evalDoc(txt[:cut])
						r.Count("inputs_mut", 1)
					}
					// single-position replace / insert with each mutation token
					for pos := 0; pos < len(txt); pos++ {
						for _, m := range mtoks {
							mu := append(append(append([]byte{}, txt[:pos]...), m...), txt[pos+1:]...)
							c.SetCase(fmt.Sprintf(`{"api":"*","doc_hex":"%x"}`, mu))
							evalDoc(mu)
							r.Count("inputs_mut", 1)
						}
					}
				}
			}
			// --- BYTE(DOC(k)): every single-byte substitution and insertion of ALL 256 byte
			// values at every position of every small document in the whitespace-rich styles
			// (catches classification tables indexed modulo something, e.g. a 64-bit space mask)
			kb := 3
			bt := gen.Trees(kb, gen.LeavesSmall, gen.KeysSmall)
			for n := 1; n <= kb; n++ {
				for ti, t := range bt[n] {
					unit++
					if !c.Mine(unit) {
						continue
					}
					if c.Expired() {
						r.Exhaustive = false
						break
					}
					for _, style := range []int{1, 2} {
						if style == 1 && ti%4 != 0 && !c.Thorough() {
							continue
						}
						txt := gen.RenderTo(nil, t, style, nil)
						mu := make([]byte, 0, len(txt)+1)
						for pos := 0; pos <= len(txt); pos++ {
							for b := 0; b < 256; b++ {
								if pos < len(txt) {
									mu = append(append(append(mu[:0], txt[:pos]...), byte(b)), txt[pos+1:]...)
									evalDoc(mu)
								}
								mu = append(append(append(mu[:0], txt[:pos]...), byte(b)), txt[pos:]...)
								evalDoc(mu)
								r.Count("inputs_bytemut", 2)
							}
						}
					}
				}
			}
			// --- TOK last (the bulk of the work; cut by the internal deadline if the machine is slow)
			run(gen.Tokens, nFull, "tok_full")
			run(gen.TokensSmall, nSmall, "tok_small")
			r.Distinct = nontriv.Len()
			r.Sample(map[string]string{"api": "all", "doc": `[1,"a"`})
			r.Sample(map[string]string{"api": "all", "doc": `"` + strings.Repeat("a", 32)})
		},
		Replay: func(c *ev.Ctx, desc json.RawMessage) *ev.Violation {
			var cs c02case
			json.Unmarshal(desc, &cs)
			var doc []byte
			fmt.Sscanf(cs.Doc, "%x", &doc)
			if cs.API == "*" || cs.API == "" {
				for i := range apis {
					if v := c02judge(&apis[i], doc); v != nil {
						return v
					}
				}
				return nil
			}
			a := find(cs.API)
			if a == nil {
				return nil
			}
			return c02judge(a, doc)
		},
	})
}

// c02strata: the LEN strata (DESIGN §4) specialised to structure.
func c02strata(thorough bool) [][]byte {
	var out [][]byte
	add := func(s string) { out = append(out, []byte(s)) }
	// many invalid UTF-8 bytes in string literals (the ValidateString repair pass works in
	// rounds of 4096 positions): structure must survive the repair
	for _, s := range volumeDocs() {
		add(s)
	}
	// arrays around the length of fixed-size destinations with trailing / doubled commas
	for _, s := range arityDocs() {
		add(s)
	}
	maxL := 136
	for L := 0; L <= maxL; L++ {
		f := strings.Repeat("a", L)
		add(`"` + f + `"`)
		add(`"` + f)             // closer deleted
		add(`"` + f + `""`)      // closer doubled
		add(`"` + f + `"x`)      // stray byte
		add(`"` + f + `\`)       // dangling backslash
		add(`"` + f + `\"`)      // escaped quote, unterminated
		add(`["` + f + `"]`)     //
		add(`["` + f + `]`)      // quote missing inside array
		add(`{"` + f + `":1}`)   //
		add(`{"` + f + `:1}`)    //
		add(`{"k":"` + f + `"}`) //
		add(`{"k":"` + f + `}`)  //
		d := strings.Repeat("7", L)
		if L > 0 {
			add(d)
			add(d + ".")
			add(d + ".5")
			add(d + "e")
			add(d + "e5")
			add("-" + d)
			add(d + "-")
			add("[" + d + "]")
			add("[" + d + ",]")
		}
		sp := strings.Repeat(" ", L)
		add(sp + "1")
		add("1" + sp)
		add("1" + sp + "x")
		add(sp + "1" + sp + "1")
		add("[" + sp + "]")
		add("[" + sp)
		add("{" + sp + "}")
		add(`{"a"` + sp + `:` + sp + `1` + sp + `}`)
		add(`{"a"` + sp + `1}`)
		op, cl := strings.Repeat("[", L), strings.Repeat("]", L)
		add(op + cl)
		add(op + "1" + cl)
		if L > 0 {
			add(op + cl[1:])
			add(op + cl + "]")
			add(strings.Repeat(`{"a":`, L) + "1" + strings.Repeat("}", L))
			add(strings.Repeat(`{"a":`, L) + "1" + strings.Repeat("}", L-1))
		}
		add("tru" + sp)
		add("true" + sp)
		add(sp + "nul")
		add(sp + "null" + sp)
	}
	// an escape / quote at every offset of a string of every length (long enough to cross
	// the 64-byte and 32-byte SIMD rounds)
	step := 1
	lens := []int{15, 16, 17, 31, 32, 33, 47, 48, 63, 64, 65, 95, 96, 97, 127, 128, 129}
	if thorough {
		lens = nil
		for L := 1; L <= maxL; L++ {
			lens = append(lens, L)
		}
	}
	for _, L := range lens {
		for off := 0; off < L; off += step {
			for _, p := range []string{`\"`, `\\`, `"`, `\`} {
				if off+len(p) > L {
					continue
				}
				body := strings.Repeat("a", off) + p + strings.Repeat("a", L-off-len(p))
				add(`"` + body + `"`)
				add(`"` + body)
				add(`["` + body + `",1]`)
			}
		}
	}
	// nesting depth family
	for _, d := range []int{200, 1000, 4000} {
		add(strings.Repeat("[", d) + strings.Repeat("]", d))
		add(strings.Repeat("[", d) + strings.Repeat("]", d-1))
		add(strings.Repeat(`{"a":`, d) + "1" + strings.Repeat("}", d))
	}
	return out
}
