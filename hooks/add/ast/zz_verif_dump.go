package ast

// Overlay-only (verification harness): dumps the hidden representation of a node so that
// explicit-state search can tell apart states the public API cannot (DESIGN.md E2/C15).

import (
	"fmt"
	"sort"
	"strings"

	"github.com/bytedance/sonic/internal/native/types"
)

// VerifDump renders every field the implementation branches on: type bits (raw / lazy /
// loaded / any), logical length, parser offset of lazy nodes, physical slot count, which
// slots are unset, whether a hash index exists and its (hash -> slot) content, m != nil.
func VerifDump(n *Node) string {
	var b strings.Builder
	verifDump(&b, n, 0)
	return b.String()
}

func verifDump(b *strings.Builder, n *Node, depth int) {
	if n == nil {
		b.WriteString("<nil>")
		return
	}
	if depth > 12 {
		b.WriteString("<deep>")
		return
	}
	t := n.t
	fmt.Fprintf(b, "(t=%d", int64(t))
	if n.m != nil {
		b.WriteString(",m")
	}
	switch {
	case t == V_ERROR:
		fmt.Fprintf(b, ",err=%d", n.l)
	case t&_V_RAW != 0:
		fmt.Fprintf(b, ",raw=%q", n.toString())
	case t == _V_ARRAY_LAZY:
		p, st := n.getParserAndArrayStack()
		fmt.Fprintf(b, ",l=%d,lazy@%d/%d,skip=%v,nolazy=%v,once=%v,", n.l, p.p, len(p.s), p.skipValue, p.noLazy, p.loadOnce)
		verifNodes(b, &st.v, depth)
	case t == _V_OBJECT_LAZY:
		p, st := n.getParserAndObjectStack()
		fmt.Fprintf(b, ",l=%d,lazy@%d/%d,skip=%v,nolazy=%v,once=%v,", n.l, p.p, len(p.s), p.skipValue, p.noLazy, p.loadOnce)
		verifPairs(b, &st.v, depth)
	case t == types.V_ARRAY:
		fmt.Fprintf(b, ",l=%d,", n.l)
		verifNodes(b, (*linkedNodes)(n.p), depth)
	case t == types.V_OBJECT:
		fmt.Fprintf(b, ",l=%d,", n.l)
		verifPairs(b, (*linkedPairs)(n.p), depth)
	case t == types.V_STRING:
		fmt.Fprintf(b, ",s=%q", n.toString())
	case t == _V_NUMBER:
		fmt.Fprintf(b, ",n=%q", n.toString())
	case t == _V_ANY:
		b.WriteString(",any")
	}
	b.WriteByte(')')
}

func verifNodes(b *strings.Builder, s *linkedNodes, depth int) {
	if s == nil {
		b.WriteString("[nil]")
		return
	}
	fmt.Fprintf(b, "[size=%d,chunks=%d:", s.size, len(s.tail)+1)
	for i := 0; i < s.size; i++ {
		if i > 0 {
			b.WriteByte(' ')
		}
		c := s.At(i)
		if c == nil || c.t == _V_NONE {
			b.WriteString("_")
			continue
		}
		verifDump(b, c, depth+1)
	}
	b.WriteByte(']')
}

func verifPairs(b *strings.Builder, s *linkedPairs, depth int) {
	if s == nil {
		b.WriteString("{nil}")
		return
	}
	fmt.Fprintf(b, "{size=%d,chunks=%d", s.size, len(s.tail)+1)
	if s.index != nil {
		type hs struct {
			h uint64
			i int
		}
		var l []hs
		for h, i := range s.index {
			l = append(l, hs{h, i})
		}
		sort.Slice(l, func(a, c int) bool { return l[a].h < l[c].h })
		b.WriteString(",index=")
		for _, e := range l {
			// identify the hash by the key of a slot carrying it, if any
			name := "?"
			for j := 0; j < s.size; j++ {
				if p := s.At(j); p != nil && p.hash == e.h {
					name = p.Key
					break
				}
			}
			fmt.Fprintf(b, "%s>%d;", name, e.i)
		}
	}
	b.WriteByte(':')
	for i := 0; i < s.size; i++ {
		if i > 0 {
			b.WriteByte(' ')
		}
		p := s.At(i)
		if p == nil || (p.Value.t == _V_NONE && p.Key == "") {
			b.WriteString("_")
			continue
		}
		fmt.Fprintf(b, "%q=", p.Key)
		verifDump(b, &p.Value, depth+1)
	}
	b.WriteByte('}')
}

// VerifIsLazy reports whether the node is a partially loaded container (after resolving
// a raw node the way every accessor does).
func VerifIsLazy(n *Node) bool {
	if n == nil {
		return false
	}
	if n.t&_V_RAW != 0 {
		// a raw container becomes lazy at the first access
		c := n.t &^ _V_RAW
		return c == types.V_ARRAY || c == types.V_OBJECT
	}
	return n.isLazy()
}
