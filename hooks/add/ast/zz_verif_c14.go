package ast

// VerifC14Lazy reports whether the node is a container whose children are still being
// located lazily (as opposed to raw text not yet looked at, or fully loaded). Used by check
// C14 only to *name* a violation (lazy vs loaded container), never to decide one.
func VerifC14Lazy(n *Node) bool { return n != nil && n.isLazy() }
