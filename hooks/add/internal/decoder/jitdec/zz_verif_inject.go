package jitdec

import (
	"os"

	"github.com/bytedance/sonic/internal/jit"
)

// Overlay-only (verification harness, engine E4): when VERIF_INJECT is set at process start
// the decoder's own debug seam (a call to a Go function emitted at EVERY opcode boundary of
// every generated program) is switched on and re-pointed to VerifInject, so that the harness
// can make the runtime intervene (GC, stack growth, traceback) at a chosen boundary.

// VerifInject is called at every opcode boundary: i = instruction index, op1/op2 = opcodes.
var VerifInject func(i, op1, op2 int)

func verifInjectHook(i int, op1 int, op2 int) {
	if f := VerifInject; f != nil {
		f(i, op1, op2)
	}
}

func verifNop() {}

func init() {
	if os.Getenv("VERIF_INJECT") == "" {
		return
	}
	debugSyncGC = true
	_F_println = jit.Func(verifInjectHook)
	_F_gc = jit.Func(verifNop)
	_F_force_gc = jit.Func(verifNop)
}

// VerifOpName names a decoder opcode.
func VerifOpName(op int) string {
	if op >= 0 && op < len(_OpNames) {
		return _OpNames[op]
	}
	return "?"
}
