package optdec

import "github.com/bytedance/sonic/internal/caching"

// Overlay-only (verification harness).
func VerifCache() *caching.ProgramCache { return programCache }
func VerifResetCache()                  { programCache.Reset() }
