package resolver

import "reflect"

// Overlay-only (verification harness): forget resolved struct layouts.
func VerifResetCache() {
	fieldLock.Lock()
	fieldCache = map[reflect.Type][]FieldMeta{}
	fieldLock.Unlock()
}

// VerifSnapshot / VerifRestore: the layout cache is a map mutated in place: copy it.
func VerifSnapshot() map[reflect.Type][]FieldMeta {
	fieldLock.Lock()
	defer fieldLock.Unlock()
	m := make(map[reflect.Type][]FieldMeta, len(fieldCache))
	for k, v := range fieldCache {
		m[k] = v
	}
	return m
}

func VerifRestore(s map[reflect.Type][]FieldMeta) {
	m := make(map[reflect.Type][]FieldMeta, len(s))
	for k, v := range s {
		m[k] = v
	}
	fieldLock.Lock()
	fieldCache = m
	fieldLock.Unlock()
}
