package resolver

import "reflect"

// Overlay-only (verification harness): forget resolved struct layouts.
func VerifResetCache() {
	fieldLock.Lock()
	fieldCache = map[reflect.Type][]FieldMeta{}
	fieldLock.Unlock()
}
