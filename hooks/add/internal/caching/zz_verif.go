package caching

// Overlay-only (verification harness): read-only view of a ProgramCache.

import (
	"sort"
	"sync/atomic"
	"unsafe"

	"github.com/bytedance/sonic/internal/rt"
)

// VerifKeys lists the cached types (printed names, sorted), the entry counter and the
// table size of the current RCU snapshot.
func (self *ProgramCache) VerifKeys() (names []string, n uint64, slots int) {
	m := (*_ProgramMap)(atomic.LoadPointer(&self.p))
	for _, b := range m.b {
		if b.vt != nil {
			names = append(names, b.vt.Pack().String())
		}
	}
	sort.Strings(names)
	return names, atomic.LoadUint64(&m.n), len(m.b)
}

// VerifEntries returns every (key, value) of the snapshot.
func (self *ProgramCache) VerifEntries() (keys []*rt.GoType, vals []interface{}) {
	m := (*_ProgramMap)(atomic.LoadPointer(&self.p))
	for _, b := range m.b {
		if b.vt != nil {
			keys = append(keys, b.vt)
			vals = append(vals, b.fn)
		}
	}
	return
}

// VerifPrefilled builds a cache whose current table has `slots` slots (a power of two; 0 =
// the default initial capacity) and already holds the given entries, built in ONE table (no
// copy-on-write step per entry). A small table puts the rehash boundary (load factor 0.5)
// within a few insertions, so that scenarios around a rehash have short loops: the code
// under test (get/add/copy/rehash/insert) is the same, only the table is smaller.
func VerifPrefilled(slots int, keys []*rt.GoType, vals []interface{}) *ProgramCache {
	m := newProgramMap()
	if slots > 0 {
		m = &_ProgramMap{m: uint32(slots - 1), b: make([]_ProgramEntry, slots)}
	}
	for i, k := range keys {
		m.insert(k, vals[i])
	}
	pc := CreateProgramCache()
	atomic.StorePointer(&pc.p, unsafe.Pointer(m))
	return pc
}

// VerifSnapshot / VerifRestore: the published map is immutable (every add publishes a
// copy), so a snapshot is the pointer itself and restoring it is O(1).
func (self *ProgramCache) VerifSnapshot() unsafe.Pointer { return atomic.LoadPointer(&self.p) }

func (self *ProgramCache) VerifRestore(p unsafe.Pointer) {
	self.m.Lock()
	atomic.StorePointer(&self.p, p)
	self.m.Unlock()
}
