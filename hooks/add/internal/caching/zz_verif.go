package caching

// Overlay-only (verification harness): read-only view of a ProgramCache.

import (
	"sort"
	"sync/atomic"

	"github.com/bytedance/sonic/internal/rt"
)

// VerifKeys lists the cached types (printed names, sorted), the entry counter and the
// table size of the current RCU snapshot.
func (self *ProgramCache) VerifKeys() (names []string, n uint64, slots int) {
	m := (*_ProgramMap)(atomic.LoadPointer(&self.p))
	for _, b := range m.b {
		if b.vt != nil {
			names = append(names, b.vt.Pack().String())
		}
	}
	sort.Strings(names)
	return names, atomic.LoadUint64(&m.n), len(m.b)
}

// VerifEntries returns every (key, value) of the snapshot.
func (self *ProgramCache) VerifEntries() (keys []*rt.GoType, vals []interface{}) {
	m := (*_ProgramMap)(atomic.LoadPointer(&self.p))
	for _, b := range m.b {
		if b.vt != nil {
			keys = append(keys, b.vt)
			vals = append(vals, b.fn)
		}
	}
	return
}
