package x86

import (
	"os"

	"github.com/bytedance/sonic/internal/encoder/ir"
	"github.com/bytedance/sonic/internal/encoder/vars"
	"github.com/bytedance/sonic/internal/jit"
)

// Overlay-only (verification harness, engine E4): see jitdec/zz_verif_inject.go.

var VerifInject func(i, op1, op2 int)

func verifInjectHook(i int, op1 int, op2 int) {
	if f := VerifInject; f != nil {
		f(i, op1, op2)
	}
}

func init() {
	if os.Getenv("VERIF_INJECT") == "" {
		return
	}
	vars.DebugSyncGC = true
	_F_println = jit.Func(verifInjectHook)
}

func VerifOpName(op int) string {
	if op >= 0 && op < len(ir.OpNames) {
		return ir.OpNames[op]
	}
	return "?"
}
