package alg

// Overlay-only (verification harness): drives the map-key sorter with a caller-chosen input
// order (through the public API the order is Go's randomised map iteration order).

import "unsafe"

// VerifSortKeys sorts keys exactly as IteratorStart does and reports whether every value
// stayed attached to its key.
func VerifSortKeys(keys []string) (sorted []string, paired bool) {
	kvs := make([]_MapPair, len(keys))
	tags := make([]int, len(keys))
	for i, k := range keys {
		tags[i] = i
		kvs[i].k = k
		kvs[i].v = unsafe.Pointer(&tags[i])
	}
	if len(kvs) > 1 {
		radixQsort(kvs, 0, maxDepth(len(kvs)))
	}
	paired = true
	sorted = make([]string, len(kvs))
	for i := range kvs {
		sorted[i] = kvs[i].k
		if t := *(*int)(kvs[i].v); keys[t] != kvs[i].k {
			paired = false
		}
	}
	return
}
