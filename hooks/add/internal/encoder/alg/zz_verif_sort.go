package alg

// Overlay-only (verification harness): drives the map-key sorter with a caller-chosen input
// order (through the public API the order is Go's randomised map iteration order).

import (
	"unsafe"

	"github.com/bytedance/sonic/internal/rt"
)

// VerifSortKeys sorts keys exactly as IteratorStart does and reports whether every value
// stayed attached to its key. With own set, every key lives in its pair's own scratch array
// (the layout IteratorStart builds for integer keys: k points into m), so a sorter that moves
// whole elements instead of (k, v) leaves k pointing at another pair's digits.
func VerifSortKeys(keys []string, own bool) (sorted []string, paired bool) {
	kvs := make([]_MapPair, len(keys))
	tags := make([]int, len(keys))
	for i, k := range keys {
		tags[i] = i
		kvs[i].k = k
		if own && len(k) > 0 && len(k) <= len(kvs[i].m) {
			kvs[i].k = rt.Mem2Str(append(kvs[i].m[:0], k...))
		}
		kvs[i].v = unsafe.Pointer(&tags[i])
	}
	if len(kvs) > 1 {
		radixQsort(kvs, 0, maxDepth(len(kvs)))
	}
	paired = true
	sorted = make([]string, len(kvs))
	for i := range kvs {
		sorted[i] = string(append([]byte(nil), kvs[i].k...))
		if t := *(*int)(kvs[i].v); keys[t] != sorted[i] {
			paired = false
		}
	}
	return
}
