// Package verifhooks (virtual, overlay-only) re-exports the few internal entry points the
// verification harness needs. It exists only inside `go build -overlay` builds.
package verifhooks

import (
	"sync/atomic"
	"reflect"
	"unsafe"
	"fmt"
	"strings"

	"github.com/bytedance/sonic/internal/caching"
	"github.com/bytedance/sonic/internal/decoder/jitdec"
	"github.com/bytedance/sonic/internal/decoder/optdec"
	"github.com/bytedance/sonic/internal/encoder/alg"
	"github.com/bytedance/sonic/internal/encoder/vars"
	"github.com/bytedance/sonic/internal/encoder/x86"
	"github.com/bytedance/sonic/internal/resolver"
	"github.com/bytedance/sonic/internal/rt"
)

// ResetCodecCaches empties every per-type program cache and the struct layout cache, as
// if no type had been used yet (loaded code stays mapped; it is unreachable afterwards).
func ResetCodecCaches() {
	vars.ResetProgramCache()
	jitdec.VerifResetCache()
	optdec.VerifResetCache()
	resolver.VerifResetCache()
}

// CacheState is a snapshot of every per-type program cache and of the struct layout cache.
type CacheState struct {
	enc, jd, od unsafe.Pointer
	res         map[reflect.Type][]resolver.FieldMeta
}

// SnapshotCodecCaches / RestoreCodecCaches: the program caches publish immutable maps, so the
// snapshot is three pointers plus a copy of the (small) layout map.
func SnapshotCodecCaches() *CacheState {
	return &CacheState{vars.VerifCache().VerifSnapshot(), jitdec.VerifCache().VerifSnapshot(), optdec.VerifCache().VerifSnapshot(), resolver.VerifSnapshot()}
}

func RestoreCodecCaches(s *CacheState) {
	vars.VerifCache().VerifRestore(s.enc)
	jitdec.VerifCache().VerifRestore(s.jd)
	optdec.VerifCache().VerifRestore(s.od)
	resolver.VerifRestore(s.res)
}

// CacheDump lists the types cached per cache.
func CacheDump() string {
	var b strings.Builder
	for _, c := range []struct {
		name string
		pc   *caching.ProgramCache
	}{{"enc", vars.VerifCache()}, {"jitdec", jitdec.VerifCache()}, {"optdec", optdec.VerifCache()}} {
		names, n, slots := c.pc.VerifKeys()
		fmt.Fprintf(&b, "%s[n=%d,slots=%d]{%s} ", c.name, n, slots, strings.Join(names, ","))
	}
	return b.String()
}

// CacheSizes returns the number of cached types per cache.
func CacheSizes() (enc, jit, opt int) {
	a, _, _ := vars.VerifCache().VerifKeys()
	b, _, _ := jitdec.VerifCache().VerifKeys()
	c, _, _ := optdec.VerifCache().VerifKeys()
	return len(a), len(b), len(c)
}

// ---- component access to the real ProgramCache with fabricated keys ----

type ProgramCache = caching.ProgramCache
type GoType = rt.GoType

func NewProgramCache() *ProgramCache { return caching.CreateProgramCache() }

// FakeType fabricates a cache key with a chosen hash (only the pointer identity and the
// Hash field are used by the cache).
func FakeType(hash uint32) *GoType { return &rt.GoType{Hash: hash} }

func CacheGet(pc *ProgramCache, k *GoType) interface{} { return pc.Get(k) }

func CacheCompute(pc *ProgramCache, k *GoType, compute func() (interface{}, error)) (interface{}, error) {
	return pc.Compute(k, func(*rt.GoType, ...interface{}) (interface{}, error) { return compute() })
}

func CacheEntries(pc *ProgramCache) (keys []*GoType, vals []interface{}) { return pc.VerifEntries() }

// ---- runtime-event injection at opcode boundaries of generated code (engine E4) ----

// SetDecoderInject / SetEncoderInject install the function called at every opcode boundary
// (effective only in processes started with VERIF_INJECT set).
func SetDecoderInject(f func(i, op1, op2 int)) { jitdec.VerifInject = f }
func SetEncoderInject(f func(i, op1, op2 int)) { x86.VerifInject = f }
func DecoderOpName(op int) string               { return jitdec.VerifOpName(op) }
func EncoderOpName(op int) string               { return x86.VerifOpName(op) }

// PrefilledCache: see caching.VerifPrefilled.
func PrefilledCache(slots int, keys []*GoType, vals []interface{}) *ProgramCache {
	return caching.VerifPrefilled(slots, keys, vals)
}

// SortMapKeys runs the encoder's map-key sorter on keys in the given order; own = every key
// lives in its pair's own scratch array (the integer-key layout).
func SortMapKeys(keys []string, own bool) ([]string, bool) { return alg.VerifSortKeys(keys, own) }

// Marking reports whether the collector is in its mark phase (write barriers enabled).
func Marking() bool { return atomic.LoadUintptr(&rt.RuntimeWriteBarrier)&0xff != 0 }
