// Package verifhooks is a virtual package overlaid into the sonic module
// (import path github.com/bytedance/sonic/verifhooks). This file re-exports, for check C20,
// the internal restartable quoting / escaping routines so that they can be driven with an
// output region of every capacity. Nothing here changes behaviour of the library.
package verifhooks

import (
	"runtime"
	"unsafe"

	"github.com/bytedance/sonic/internal/encoder/alg"
	"github.com/bytedance/sonic/internal/native"
	"github.com/bytedance/sonic/internal/native/types"
)

const (
	C20FlagDoubleUnquote  uint64 = types.F_DOUBLE_UNQUOTE
	C20FlagUnicodeReplace uint64 = types.F_UNICODE_REPLACE
	C20MaxRecurse                = types.MAX_RECURSE
)

func strPtr(s string) unsafe.Pointer { return *(*unsafe.Pointer)(unsafe.Pointer(&s)) }

// C20AlgQuote is internal/encoder/alg.Quote (the restart loop around native.Quote).
func C20AlgQuote(buf []byte, val string, double bool) []byte { return alg.Quote(buf, val, double) }

// C20AlgHtmlEscape is internal/encoder/alg.HtmlEscape.
func C20AlgHtmlEscape(dst []byte, src []byte) []byte { return alg.HtmlEscape(dst, src) }

// C20NativeQuote calls native.Quote once: input src (non-empty), output region dst[:dn]
// (len(dst) >= dn, len(dst) > 0). It returns the raw return value and the byte count the
// routine reports as written.
func C20NativeQuote(src string, dst []byte, dn int, flags uint64) (ret int, written int) {
	n := new(int)
	*n = dn
	ret = native.Quote(strPtr(src), len(src), unsafe.Pointer(&dst[0]), n, flags)
	runtime.KeepAlive(src)
	runtime.KeepAlive(dst)
	return ret, *n
}

// C20NativeHTMLEscape calls native.HTMLEscape once (src non-empty, len(dst) > 0).
func C20NativeHTMLEscape(src []byte, dst []byte, dn int) (ret int, written int) {
	n := new(int)
	*n = dn
	ret = native.HTMLEscape(unsafe.Pointer(&src[0]), len(src), unsafe.Pointer(&dst[0]), n)
	runtime.KeepAlive(src)
	runtime.KeepAlive(dst)
	return ret, *n
}

// C20NativeUnquote calls native.Unquote once with the given flags; dst must have room for
// len(src) bytes (len(dst) > 0). Returns the raw return value (>= 0: output length, < 0:
// -error code) and the reported error position.
func C20NativeUnquote(src string, dst []byte, flags uint64) (ret int, epos int) {
	ep := new(int)
	*ep = -1
	ret = native.Unquote(strPtr(src), len(src), unsafe.Pointer(&dst[0]), ep, flags)
	runtime.KeepAlive(src)
	runtime.KeepAlive(dst)
	return ret, *ep
}
