// Package vshim (virtual, overlay-only): drop-in replacements for the parts of sync and
// sync/atomic that sonic uses, with scheduling points, plus the cooperative scheduler and
// the preemption-bounded explorer (engine E3). Outside an exploration every operation
// forwards to the real primitive (pools: see PoolMode).
package vshim

import (
	"fmt"
	rsync "sync"
	ratomic "sync/atomic"
	"unsafe"
)

// ---------------- scheduler ----------------

type thread struct {
	waiting string
	id      int
	wake    chan struct{}
	done    bool
	blocked func() bool // non-nil: waiting until blocked() is false
	result  interface{}
}

type Point struct {
	Enabled        []int
	Chosen         int // index into Enabled
	Running        int
	RunningEnabled bool
}

type Exec struct {
	Points   []Point
	Deadlock bool
	// DeadlockInfo: what every unfinished thread was waiting for
	DeadlockInfo string
	Horizon  bool // execution exceeded MaxPoints (livelock suspicion)
	Results  []interface{}
	Diverged string // non-empty: replay of the forced prefix was impossible (infrastructure error)
}

var (
	active    bool
	threads   []*thread
	cur       *thread
	sched     chan struct{}
	MaxPoints = 200000
	// Trace, when non-nil, receives a label at every scheduling point (replay printing).
	Trace func(tid int, label string)
)

// Active reports whether the calling code runs under the scheduler.
func Active() bool { return active && cur != nil }

// YieldProbe, when set, is called at every scheduling point (development aid: which
// statements generate the points).
var YieldProbe func()

// Yield is a scheduling point.
func Yield() {
	if !active || cur == nil {
		return
	}
	if YieldProbe != nil {
		YieldProbe()
	}
	t := cur
	sched <- struct{}{}
	<-t.wake
}

func block(cond func() bool) {
	t := cur
	t.blocked = cond
	sched <- struct{}{}
	<-t.wake
}

// Run executes bodies under the scheduler, following prefix and then the default policy
// (keep running the current thread; otherwise lowest id).
func Run(prefix []int, bodies ...func() interface{}) (x Exec) {
	active = true
	defer func() { active = false; cur = nil }()
	var trace []Point
	sched = make(chan struct{})
	threads = nil
	resetPools()
	resetLocks()
	for i, b := range bodies {
		t := &thread{id: i, wake: make(chan struct{})}
		threads = append(threads, t)
		b := b
		go func() {
			<-t.wake
			defer func() {
				if r := recover(); r != nil {
					t.result = fmt.Sprintf("PANIC: %v", r)
				}
				t.done = true
				sched <- struct{}{}
			}()
			t.result = b()
		}()
	}
	running := -1
	for step := 0; ; step++ {
		var en []int
		alldone := true
		for _, t := range threads {
			if t.done {
				continue
			}
			alldone = false
			if t.blocked != nil && t.blocked() {
				continue
			}
			en = append(en, t.id)
		}
		if alldone {
			break
		}
		if len(en) == 0 {
			x.Deadlock = true
			for _, t := range threads {
				if !t.done {
					x.DeadlockInfo += fmt.Sprintf("[thread %d waits for %s] ", t.id, t.waiting)
				}
			}
			break
		}
		if step >= MaxPoints {
			x.Horizon = true
			break
		}
		re := false
		for i, id := range en {
			if id == running {
				re = true
				copy(en[1:i+1], en[:i])
				en[0] = running
				break
			}
		}
		c := 0
		if step < len(prefix) {
			c = prefix[step]
			if c >= len(en) {
				x.Diverged = fmt.Sprintf("replay divergence at step %d: choice %d of %d enabled", step, c, len(en))
				break
			}
		}
		trace = append(trace, Point{Enabled: en, Chosen: c, Running: running, RunningEnabled: re})
		t := threads[en[c]]
		t.blocked = nil
		running = t.id
		cur = t
		t.wake <- struct{}{}
		<-sched
		cur = nil
	}
	x.Points = trace
	for _, t := range threads {
		x.Results = append(x.Results, t.result)
	}
	return
}

// Choices extracts the choice list of an execution.
func (x *Exec) Choices() []int {
	c := make([]int, len(x.Points))
	for i, p := range x.Points {
		c[i] = p.Chosen
	}
	return c
}

// Preemptions counts switches away from a still-enabled running thread.
func (x *Exec) Preemptions() int {
	n := 0
	for _, p := range x.Points {
		if p.RunningEnabled && p.Chosen != 0 {
			n++
		}
	}
	return n
}

// Stats of one exploration.
type Stats struct {
	Execs       int
	Transitions int
	MaxPoints   int
	Stopped     bool // check() asked to stop or stop() became true
}

// Explore runs the CHESS recursion with at most `bound` preemptions. mk builds a fresh
// scenario per execution. shard/nshard split the first-level subtrees over processes
// (the root execution itself belongs to shard 0). check returns false to stop.
func Explore(bound int, shard, nshard int, mk func() []func() interface{}, check func(x Exec, choices []int) bool, stop func() bool) (st Stats) {
	// Sharding: the root and every level-1 execution (one deviation from the default
	// schedule) are RUN by every shard, because their points are needed to enumerate the
	// subtrees, but each is CHECKED and counted by one owner only; the level-2 subtrees are
	// dealt out round-robin - they are numerous and of similar size, so the shards finish
	// together (level-1 subtrees differ in size by orders of magnitude).
	var rec func(pfx []int, depth int, mine bool) bool
	unit1, unit2 := 0, 0
	rec = func(pfx []int, depth int, mine bool) bool {
		if stop != nil && stop() {
			st.Stopped = true
			return false
		}
		x := Run(pfx, mk()...)
		choices := x.Choices()
		if mine {
			st.Execs++
			st.Transitions += len(x.Points)
			if len(x.Points) > st.MaxPoints {
				st.MaxPoints = len(x.Points)
			}
			if !check(x, choices) {
				st.Stopped = true
				return false
			}
		}
		if x.Diverged != "" {
			return true
		}
		pre := 0
		for i := 0; i < len(x.Points); i++ {
			p := x.Points[i]
			if i >= len(pfx) {
				for alt := 1; alt < len(p.Enabled); alt++ {
					cost := pre
					if p.RunningEnabled {
						cost++
					}
					if cost > bound {
						continue
					}
					childMine := mine
					if nshard > 1 {
						switch depth {
						case 0:
							unit1++
							childMine = unit1%nshard == shard
						case 1:
							unit2++
							childMine = unit2%nshard == shard
							if !childMine {
								continue // somebody else's subtree
							}
						}
					}
					np := append(append([]int{}, choices[:i]...), alt)
					if !rec(np, depth+1, childMine) {
						return false
					}
				}
			}
			if p.RunningEnabled && p.Chosen != 0 {
				pre++
			}
		}
		return true
	}
	rec(nil, 0, shard == 0 || nshard <= 1)
	return
}

// ---------------- sync shims ----------------

// locks touched under the scheduler are registered so that an execution that ended with a
// lock held (deadlock, horizon, a panic while holding it) cannot poison the next one: global
// locks (program caches, field cache) outlive an execution.
var (
	usedMutexes   []*Mutex
	usedRWMutexes []*RWMutex
)

func resetLocks() {
	for _, m := range usedMutexes {
		m.held, m.owner, m.reg = false, -1, false
	}
	for _, m := range usedRWMutexes {
		m.w, m.r, m.owner, m.reg = false, 0, -1, false
	}
	usedMutexes, usedRWMutexes = nil, nil
}

type Mutex struct {
	held  bool
	owner int
	reg   bool
	real  rsync.Mutex
}

func (m *Mutex) Lock() {
	if !active || cur == nil {
		m.real.Lock()
		return
	}
	Yield()
	if !m.reg {
		m.reg = true
		usedMutexes = append(usedMutexes, m)
	}
	if m.held {
		cur.waiting = fmt.Sprintf("Mutex %p held by thread %d", m, m.owner)
		block(func() bool { return m.held })
		cur.waiting = ""
	}
	m.held = true
	m.owner = cur.id
}

func (m *Mutex) Unlock() {
	if !active || cur == nil {
		m.real.Unlock()
		return
	}
	if !m.held {
		panic("vshim: unlock of unlocked mutex")
	}
	m.held = false
	Yield()
}

type RWMutex struct {
	w     bool
	r     int
	owner int
	reg   bool
	real  rsync.RWMutex
}

func (m *RWMutex) Lock() {
	if !active || cur == nil {
		m.real.Lock()
		return
	}
	Yield()
	if !m.reg {
		m.reg = true
		usedRWMutexes = append(usedRWMutexes, m)
	}
	if m.w || m.r > 0 {
		cur.waiting = fmt.Sprintf("RWMutex %p (write) w=%v r=%d owner=%d", m, m.w, m.r, m.owner)
		block(func() bool { return m.w || m.r > 0 })
		cur.waiting = ""
	}
	m.w = true
	m.owner = cur.id
}

func (m *RWMutex) Unlock() {
	if !active || cur == nil {
		m.real.Unlock()
		return
	}
	if !m.w {
		panic("vshim: Unlock of unlocked RWMutex")
	}
	m.w = false
	Yield()
}

func (m *RWMutex) RLock() {
	if !active || cur == nil {
		m.real.RLock()
		return
	}
	Yield()
	if !m.reg {
		m.reg = true
		usedRWMutexes = append(usedRWMutexes, m)
	}
	if m.w {
		cur.waiting = fmt.Sprintf("RWMutex %p (read) held for writing by thread %d", m, m.owner)
		block(func() bool { return m.w })
		cur.waiting = ""
	}
	m.r++
}

func (m *RWMutex) RUnlock() {
	if !active || cur == nil {
		m.real.RUnlock()
		return
	}
	if m.r <= 0 {
		panic("vshim: RUnlock of unlocked RWMutex")
	}
	m.r--
	Yield()
}

type Once = rsync.Once
type WaitGroup = rsync.WaitGroup
type Locker = rsync.Locker

// ---------------- pools ----------------

// PoolMode: 0 = forward to the real sync.Pool (outside explorations);
// 1 = deterministic LIFO that never drops (maximal reuse), inspectable and resettable.
// Under the scheduler pools are always deterministic LIFO and emptied at the start of
// every execution.
var PoolMode = 0

// PoolEmptyEvery > 0 makes every k-th Get of any pool answer "empty" (environment deviation).
var PoolDropGet func(p *Pool, nth int) bool

type Pool struct {
	New   func() interface{}
	real  rsync.Pool
	mu    rsync.Mutex
	items []interface{}
	reg   bool
	gets  int
}

var (
	poolsMu rsync.Mutex
	pools   []*Pool
)

func (p *Pool) register() {
	if p.reg {
		return
	}
	poolsMu.Lock()
	if !p.reg {
		p.reg = true
		pools = append(pools, p)
	}
	poolsMu.Unlock()
}

func (p *Pool) det() bool { return PoolMode == 1 || (active && cur != nil) }

func (p *Pool) Get() interface{} {
	if !p.det() {
		if v := p.real.Get(); v != nil {
			return v
		}
		if p.New != nil {
			return p.New()
		}
		return nil
	}
	Yield()
	p.register()
	p.mu.Lock()
	p.gets++
	var v interface{}
	drop := PoolDropGet != nil && PoolDropGet(p, p.gets)
	if n := len(p.items); n > 0 && !drop {
		v = p.items[n-1]
		p.items[n-1] = nil
		p.items = p.items[:n-1]
	}
	p.mu.Unlock()
	if v == nil && p.New != nil {
		v = p.New()
	}
	return v
}

func (p *Pool) Put(v interface{}) {
	if !p.det() {
		p.real.Put(v)
		return
	}
	Yield()
	p.register()
	p.mu.Lock()
	p.items = append(p.items, v)
	p.mu.Unlock()
}

// QuietPool is Pool without scheduling points in Get/Put: for pools that are hit thousands of
// times inside one thread-local computation (the assembler's instruction objects), where the
// interesting switches are the few statements around the computation, not every Get. It is
// still deterministic (LIFO, never drops, emptied per execution) under the scheduler.
type QuietPool struct {
	New func() interface{}
	p   Pool
}

func (q *QuietPool) Get() interface{} {
	p := &q.p
	if !p.det() {
		if v := p.real.Get(); v != nil {
			return v
		}
		if q.New != nil {
			return q.New()
		}
		return nil
	}
	p.register()
	p.mu.Lock()
	var v interface{}
	if n := len(p.items); n > 0 {
		v = p.items[n-1]
		p.items[n-1] = nil
		p.items = p.items[:n-1]
	}
	p.mu.Unlock()
	if v == nil && q.New != nil {
		v = q.New()
	}
	return v
}

func (q *QuietPool) Put(v interface{}) {
	p := &q.p
	if !p.det() {
		p.real.Put(v)
		return
	}
	p.register()
	p.mu.Lock()
	p.items = append(p.items, v)
	p.mu.Unlock()
}

func resetPools() {
	poolsMu.Lock()
	for _, p := range pools {
		p.mu.Lock()
		p.items = nil
		p.gets = 0
		p.mu.Unlock()
	}
	poolsMu.Unlock()
}

// ResetPools empties every deterministic pool.
func ResetPools() { resetPools() }

// PoolItems returns the number of idle objects over all deterministic pools and a
// per-pool list of their dynamic types (for state keys).
func PoolItems() (total int, desc []string) {
	poolsMu.Lock()
	defer poolsMu.Unlock()
	for i, p := range pools {
		p.mu.Lock()
		total += len(p.items)
		if len(p.items) > 0 {
			desc = append(desc, fmt.Sprintf("pool%d:%d:%T", i, len(p.items), p.items[0]))
		}
		p.mu.Unlock()
	}
	return
}

// PoolEach calls f for every idle object of every deterministic pool.
func PoolEach(f func(v interface{})) {
	poolsMu.Lock()
	defer poolsMu.Unlock()
	for _, p := range pools {
		p.mu.Lock()
		for _, it := range p.items {
			f(it)
		}
		p.mu.Unlock()
	}
}

// ---------------- atomics ----------------

func StoreInt64(p *int64, v int64)          { Yield(); ratomic.StoreInt64(p, v) }
func LoadInt64(p *int64) int64              { Yield(); return ratomic.LoadInt64(p) }
func AddInt64(p *int64, d int64) int64      { Yield(); return ratomic.AddInt64(p, d) }
func StoreInt32(p *int32, v int32)          { Yield(); ratomic.StoreInt32(p, v) }
func LoadInt32(p *int32) int32              { Yield(); return ratomic.LoadInt32(p) }
func AddInt32(p *int32, d int32) int32      { Yield(); return ratomic.AddInt32(p, d) }
func StoreUint32(p *uint32, v uint32)       { Yield(); ratomic.StoreUint32(p, v) }
func LoadUint32(p *uint32) uint32           { Yield(); return ratomic.LoadUint32(p) }
func AddUint32(p *uint32, d uint32) uint32  { Yield(); return ratomic.AddUint32(p, d) }
func StoreUint64(p *uint64, v uint64)       { Yield(); ratomic.StoreUint64(p, v) }
func AddUint64(p *uint64, d uint64) uint64  { Yield(); return ratomic.AddUint64(p, d) }
func LoadUint64(p *uint64) uint64           { Yield(); return ratomic.LoadUint64(p) }
func LoadPointer(p *unsafe.Pointer) unsafe.Pointer {
	Yield()
	return ratomic.LoadPointer(p)
}
func StorePointer(p *unsafe.Pointer, v unsafe.Pointer) { Yield(); ratomic.StorePointer(p, v) }
func CompareAndSwapPointer(p *unsafe.Pointer, o, n unsafe.Pointer) bool {
	Yield()
	return ratomic.CompareAndSwapPointer(p, o, n)
}
func CompareAndSwapInt32(p *int32, o, n int32) bool {
	Yield()
	return ratomic.CompareAndSwapInt32(p, o, n)
}
func CompareAndSwapInt64(p *int64, o, n int64) bool {
	Yield()
	return ratomic.CompareAndSwapInt64(p, o, n)
}
func CompareAndSwapUint32(p *uint32, o, n uint32) bool {
	Yield()
	return ratomic.CompareAndSwapUint32(p, o, n)
}
