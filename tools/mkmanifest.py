#!/usr/bin/env python3
"""Regenerates /verif/MANIFEST.json from the table below (maintainer-side)."""
import json
BASE = "for m in $(cat /w/out/gomods.txt); do MF=$(cd /repo/$m && . /w/out/goenv.sh && gomodflag); (cd /repo/$m && go test $MF -json -vet=off -count=1 -timeout 25m ./...); done"
E = {
 "E1": "E1 enum: bounded-exhaustive input/type/option enumeration on the real code",
 "E2": "E2 seqx: explicit-state search over operation histories on the real objects",
 "E3": "E3 sched: cooperative scheduler + preemption-bounded exhaustive interleaving exploration (+ free-running -race companion)",
 "E4": "E4 inject: exhaustive (point, event) / environment-answer enumeration into one execution",
 "E5": "E5 xcfg: one process per start-up configuration, case-by-case digest comparison",
}
# id: (engine, level, text, note, technique)
CHECKS = {
 "C05": ("E1", "exploration",
   "token strings, payload/length strata 0..136, runs, blank runs of every short length behind every token boundary, and truncations x 29 in-place entry points x placements {ending at a page end followed by an unmapped page, starting at a page start preceded by one, followed by 8 adversarial continuations, 13/64 start alignments}: observation identical to the same bytes followed by NUL bytes of the same allocation; faults are caught (SetPanicOnFault) or attributed through the crash path",
   "over-reads that stay inside a mapped page and do not change the result are unobservable (harmless by the property's wording); SSE covered by C13",
   "bounded-exhaustive enumeration of (input, memory placement) pairs with a differential oracle and guard pages"),
 "C06": ("E2", "model_checking",
   "every history of <= 3/4 operations over ~33 instances (encode family on both sides of the pool limit, validations that fail inside nested containers, ast MarshalJSON/Raw, the caller overwriting every []byte it was given, decode followed by overwriting the input) with sync.Pool replaced by a deterministic maximal-reuse pool: every earlier result keeps its snapshot, outputs equal their fresh-state outputs; EncodeInto x {10 values, every (type, value) case of the encoder grammar} x EVERY capacity up to 8 bytes more than needed x prefixes x options with canaries",
   "the deterministic pool is the maximal-reuse schedule; strings are immutable for the caller",
   "explicit-state search over operation histories with an invariant checked after every transition + exhaustive capacity sweep"),
 "C07": ("E1", "exploration",
   "token strings and single-byte corruptions/truncations of small documents through 27 entry points; nesting-depth grid up to 10^6 (4*10^6 thorough) x shapes x closed/unclosed, 15 innermost leaf kinds at the depth limit +-1; cyclic / 100000-deep / unsupported encoder inputs; error objects for ALL (Pos, len) in [-40,len+40] x [0,80]; in crash-isolated workers (death attributed to the announced case, confirmed 5x, the shard started again with the case skipped; documents deeper than 65536 levels each in a process of their own)",
   "a 10-minute watchdog stands in for 'hang'; the one-byte-per-Read stream grid stops at depth 65536 (quadratic re-scan, not a hang)",
   "bounded-exhaustive input enumeration in crash-isolated processes; oracle = survival + usable error values"),
 "C08": ("E3", "model_checking",
   "13 scenarios of 2-3 concurrent calls (first use through one or two caches, Pretouch vs use, iterator / stack / state-machine / compaction-buffer pools, the real ProgramCache with fabricated colliding keys around a rehash) explored for every interleaving with <= 1-3 preemptions at every lock/atomic/pool operation and every statement of the cache, pool and module-registration code; results (incl. what a traceback inside the callback sees) must match a sequential order; -race companion pass",
   "shimmed sync/atomic/Pool semantics; compilation is thread-local and not instrumented except for scheduling points around assemble/resolve/release (its instruction pool is deterministic without points of its own)",
   "stateless model checking of the implementation under a controlled scheduler with iterative preemption bounding"),
 "C10": ("E4", "fault_enumeration",
   "25 codec programs x EVERY dynamic opcode boundary (sonic's own debug seam re-pointed to the harness) x {GC, stack copy, stack copy + shrink, traceback, Gosched+GC}, one event per run, the event at every boundary, the event inside every user callback (on entry and after its last use of the receiver), and (thorough) all pairs of boundaries for small programs; background GC off, clobberfree=1; result must equal the undisturbed run and the process must survive; free-running companion pass: 128 objects decoded into a second time inside a mark phase with their previous pointer fields held only by an already scanned stack (write barriers of generated code)",
   "boundaries in front of a `save` opcode are not runtime intervention points (no call-out there in production; sonic's own seam skips them); events inside runtime helpers mid-opcode cannot be positioned",
   "exhaustive enumeration of (execution point, runtime event) injections into one execution"),
 "C01": ("E1", "exploration",
   "strata first (invalid-UTF-8 volume around the 4096-position rounds of the repair pass, array arity around fixed-size destinations with trailing commas, 11 integer map-key widths x 39 spellings, wide structs naming each field), then documents (all token strings <= 4/5 tokens, all JSON trees <= 4/5 nodes in 2 styles, truncations and single-token mutants, binding-rule documents) x 50 destination types x {ConfigStd, ConfigDefault} x {-, UseNumber} + UseInt64: error iff encoding/json errors, else equal canonical dumps",
   "encoding/json is the reference; UseInt64 expectation derived from the reference's UseNumber result by the documented rule",
   "bounded-exhaustive enumeration of (input, program=destination type, configuration) against a reference implementation"),
 "C11": ("E5", "exploration",
   "the C01 decode suite (valid documents: values compared; structurally malformed documents: must be rejected) enumerated in three processes (JIT decoder, SONIC_USE_OPTDEC=1, +SONIC_USE_FASTMAP=1) through the real start-up selection; observation digests compared case by case, mismatches regenerated in full and classified",
   "64-bit digests (collision probability ~1e-12 per run); errors compared as a class",
   "exhaustive enumeration of a bounded input x type x option space replayed per start-up configuration, differential oracle"),
 "C12": ("E5", "exploration",
   "suite hist (every two-step history over C09's operation alphabet incl. Pretouch), the C04 suite (boundary values of ~250 types x all 512 encoder option sets, cyclic/deep/depth-limit values, every case also into a fresh 16-byte buffer) (long strings also through a fresh 16-byte buffer) and the C03 suite enumerated under the JIT back end and under SONIC_ENCODER_USE_VM=1: byte-identical output or both errors",
   "64-bit digests; outputs of maps without SortMapKeys compared as byte multisets (Go map order is random)",
   "exhaustive enumeration of a bounded value x option space replayed per start-up configuration, differential oracle"),
 "C13": ("E5", "exploration",
   "five suites (error positions and codes of every length stratum and token string through the position-reporting entry points; native string/number routines on 20 payloads at every offset of every length 0..136 and 2048 exponents x mantissa patterns; structural validation through 17 APIs; the C03 encode suite; the C01 decode suite) enumerated with AVX2 and with SONIC_MODE=noavx2: bit-identical observations",
   "the host must support AVX2 for the comparison to be non-vacuous (it does here); 64-bit digests",
   "exhaustive enumeration of bounded input strata replayed per instruction-set configuration, differential oracle"),
 "C14": ("E1", "exploration",
   "every JSON tree up to 3-5 nodes over three alphabets in 3 whitespace styles, a large-shape family (15/16/17/33 members, duplicate keys) and a depth grid, each with EVERY path of its tree plus missing / wrong-kind / out-of-range steps, through 79 lookups per path (5 search functions x 8 option sets, Node chains on 10 root kinds fresh / reused / loaded); full read-only view and ast.Preorder event streams",
   "expected results come from the generated tree, cross-checked per document against an encoding/json token walk",
   "bounded-exhaustive enumeration of (document, path, option set, entry point) with expectations known by construction"),
 "C17": ("E4", "fault_enumeration",
   "14k streams (<= 3 values x separators x 25 tails) x 4 buffer sizes x ALL ways of cutting the bytes into Read results (n <= 10/12), zero-byte reads at every position, EOF with or after the last data, a reader error at every byte position; writer failures at every Write call incl. the newline: value sequence and terminal condition equal encoding/json.Decoder on the unchunked bytes",
   "encoding/json.Decoder is the reference, with the tolerances stated in the check (either error when data and reader both fail)",
   "exhaustive enumeration of environment answers (reader/writer scripts) with a reference-model oracle"),
 "C19": ("E1", "exploration",
   "parse: every literal <= 6/7 characters over the number alphabet, boundary integers in 13 spellings into all 11 integer kinds, exact math/big rounding midpoints for all 2047 float64 and 255 float32 exponents incl. 770-1100 digit spellings; format: all exponents x ~4000 mantissa patterns, all d*10^e (d<=9999), all int16/uint16, thorough: ALL 2^32 float32 values; oracles strconv/encoding/json with a math/big arbiter",
   "strconv.ParseFloat / encoding/json are the references, arbitrated by exact math/big.Rat rounding",
   "bounded-exhaustive enumeration of literals and of the complete float32 value space against reference implementations"),
 "C02": ("E1", "exploration",
   "every token string <= n tokens, every length stratum 0..136, every single-token mutant / byte truncation and every single-byte substitution/insertion (all 256 values) of small documents, through 17 consuming entry points, plus the volume and arity strata, against a two-sided reference bracket (json.Valid above, json.Valid with string contents masked below)",
   "trusts encoding/json.Valid and a 30-line string-masking scanner; runs the shipped pre-assembled native routines (AVX2 here, SSE through C13)",
   "bounded-exhaustive input enumeration with a two-sided reference oracle"),
 "C03": ("E1", "exploration",
   "every type of a reflect-built type grammar (depth 2 quick / 3 thorough) x every value of a boundary value set, by value and through a pointer: ConfigStd.Marshal vs encoding/json.Marshal (errors coincide, token streams equal, numbers byte-identical, strings by denotation); long markup / control-character strings and integer-keyed maps past the sorter thresholds, each also into a fresh 16-byte buffer; component: the real map-key sorter driven with chosen input orders in both key layouts (6 key families x prefix 0..24 x 0..48 keys x all permutations <= 7/9 keys and structured orders above)",
   "encoding/json is the reference; comparison tokenizer is encoding/json's Decoder.Token",
   "bounded-exhaustive enumeration of (program=type, input=value) pairs against a reference implementation"),
 "C04": ("E1", "exploration",
   "boundary values of ~250 types x ALL 512 encoder option sets: output well-formed, unrepresentable values are errors, plain data round-trips through sonic and encoding/json modulo the documented option effects; cyclic and 5000-deep values, values at the depth limit +-1, long strings also into a fresh 16-byte buffer, integer-keyed maps past the sorter thresholds",
   "encoding/json decides representability; round trip asserted only for types that are plain data by construction",
   "exhaustive enumeration of the option-set space crossed with a bounded value space"),
 "C09": ("E2", "model_checking",
   "every history of <= 2 (quick) / 3 (thorough) arbitrary operations followed by an observing one over ~66 operation instances on 9 colliding types (incl. a reference cycle across the inline depth, Pretouch with compile options), by iterative deepening on the prefix length with the prefix state snapshotted (immutable cache maps) in front of every observing operation, findings identified by the smallest culprit sub-history,, replayed on the real code from reset caches, differential against the empty history; the real ProgramCache driven with fabricated keys over every insertion order of a colliding alphabet at each rehash boundary and 9000 sequential insertions; 2200/4400 distinct types end to end",
   "loaded machine code cannot be unloaded, so the loader's module list is the one piece of history a reset does not erase",
   "explicit-state search over operation histories on the real implementation with a differential oracle"),
 "C15": ("E2", "model_checking",
   "breadth-first search over all operation histories up to depth 3 (quick) / 4 (thorough) over ~120 operation instances x 11 initial documents (incl. a 20-pair object with a late duplicate) on the real ast.Node, states merged on (model state, hidden representation dump), every result and every state's full read-out compared with a 150-line ordered-tree model; sort sweep: SortKeys on 0..48-pair objects in every document order <= 6/8 keys and structured orders above x 5 variants against a stable sort of the live pairs",
   "the model encodes the documented semantics; undocumented corners (Move out of range, SortKeys on non-objects) are pruned, not guessed",
   "explicit-state search over operation histories against a reference model, with state hashing on hidden representation"),
 "C16": ("E3", "model_checking",
   "every interleaving with <= 2 preemptions (3 where it completes, thorough) of 2-3 documented read operations on one shared node, for 8 node kinds x documents, at every lock/atomic operation and before every statement touching shared node state (every statement in thorough); linearizability against the node run sequentially, deadlock detection; free-running -race companion pass",
   "sync/atomic semantics are modelled by a shim; sub-statement memory-model effects are only covered by the -race companion pass",
   "stateless model checking of the implementation under a controlled scheduler with iterative preemption bounding"),
 "C18": ("E1", "exploration",
   "ALL 2^16 Config values x a probe set judged as neighbour pairs per switch (exact relation per documented effect), and all 512 encoder / 192 legal decoder option sets through 41 alternative entry points compared with the frozen Config (stream decoders decode a second, scrambled document before the first result is observed)",
   "the documented effect of each switch is taken from api.go comments and the property text; encoding/json helpers (HTMLEscape, Compact) define the relations",
   "exhaustive enumeration of the configuration space with relational (metamorphic) oracles"),
 "C20": ("E1", "exploration",
   "all byte strings <= 5 (quick) / 6 (thorough) over a 14-byte alphabet, ~90 payloads at every offset of every length 0..136, all concatenations of <= 4/5 escape tokens, dense escape runs, through 35 entry points incl. every destination capacity for the restartable native routines and string encoding into a fresh 16-byte buffer; oracles: unquote(quote(s))==s, encoding/json, unicode/utf8, json.HTMLEscape",
   "a 60-line unquote reference mirroring encoding/json (self-checked against it on every case)",
   "bounded-exhaustive input enumeration (incl. exhaustive output-capacity sweep) against reference implementations"),
}
PENDING = {}
props = [json.loads(l) for l in open('/verif/properties.jsonl')]
checks = []
na = []
for p in props:
    i = p['id']
    if i in CHECKS:
        eng, lvl, text, note, tech = CHECKS[i]
        checks.append({
          "property_id": i, "quick_cmd": f"./check {i} quick", "thorough_cmd": f"./check {i} thorough",
          "evidence_file": f"/verif/evidence/{i}.json", "replay_cmd_template": f"./check {i} --replay {{path}}",
          "engine": E[eng], "level_claimed": {"category": lvl, "text": text, "design_ref": f"DESIGN.md section 5, {i}"},
          "level_note": note, "technique": tech})
    else:
        na.append({"property_id": i, "reason": PENDING.get(i, "check not built yet in this round (planned, see DESIGN.md section 5); nothing is claimed for it")})
m = {
 "version": 1, "setup_cmd": "./setup.sh",
 "hooks": {"guard": "verif-overlay",
   "enable": "no source changes in /repo: ./check regenerates a `go build -overlay` file from the current /repo tree (added zz_verif_*.go files, a virtual shim package, and for the scheduler flavour rewritten sync imports plus inserted yields); DESIGN.md section 2.1",
   "baseline_off_cmd": BASE, "source_commits": [], "add_only": True},
 "engines": [{"name": k, "path": "/verif/cmd/vcheck + /verif/internal", "kind_free_text": v,
              "serves_properties": [i for i in CHECKS if CHECKS[i][0] == k]} for k, v in E.items()],
 "checks": checks, "not_applicable": na,
 "notes": "All checks are ./check <ID> quick|thorough; they rebuild the harness against /repo's current working tree through a freshly generated overlay. known_findings.json lists genuine defects that are recorded rather than repaired."
}
json.dump(m, open('/verif/MANIFEST.json', 'w'), indent=1)
print(len(checks), 'checks;', len(na), 'not applicable')
