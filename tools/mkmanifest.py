#!/usr/bin/env python3
"""Regenerates /verif/MANIFEST.json from the table below (maintainer-side)."""
import json
BASE = "for m in $(cat /w/out/gomods.txt); do MF=$(cd /repo/$m && . /w/out/goenv.sh && gomodflag); (cd /repo/$m && go test $MF -json -vet=off -count=1 -timeout 25m ./...); done"
E = {
 "E1": "E1 enum: bounded-exhaustive input/type/option enumeration on the real code",
 "E2": "E2 seqx: explicit-state search over operation histories on the real objects",
 "E3": "E3 sched: cooperative scheduler + preemption-bounded exhaustive interleaving exploration (+ free-running -race companion)",
 "E4": "E4 inject: exhaustive (point, event) / environment-answer enumeration into one execution",
 "E5": "E5 xcfg: one process per start-up configuration, case-by-case digest comparison",
}
# id: (engine, level, text, note, technique)
CHECKS = {
 "C02": ("E1", "exploration",
   "every token string <= n tokens, every length stratum 0..136 and every single-token mutant / byte truncation of small documents, through 17 consuming entry points, against a two-sided reference bracket (json.Valid above, json.Valid with string contents masked below)",
   "trusts encoding/json.Valid and a 30-line string-masking scanner; runs the shipped pre-assembled native routines (AVX2 here, SSE through C13)",
   "bounded-exhaustive input enumeration with a two-sided reference oracle"),
}
PENDING = {}
props = [json.loads(l) for l in open('/verif/properties.jsonl')]
checks = []
na = []
for p in props:
    i = p['id']
    if i in CHECKS:
        eng, lvl, text, note, tech = CHECKS[i]
        checks.append({
          "property_id": i, "quick_cmd": f"./check {i} quick", "thorough_cmd": f"./check {i} thorough",
          "evidence_file": f"/verif/evidence/{i}.json", "replay_cmd_template": f"./check {i} --replay {{path}}",
          "engine": E[eng], "level_claimed": {"category": lvl, "text": text, "design_ref": f"DESIGN.md section 5, {i}"},
          "level_note": note, "technique": tech})
    else:
        na.append({"property_id": i, "reason": PENDING.get(i, "check not built yet in this round (planned, see DESIGN.md section 5); nothing is claimed for it")})
m = {
 "version": 1, "setup_cmd": "./setup.sh",
 "hooks": {"guard": "verif-overlay",
   "enable": "no source changes in /repo: ./check regenerates a `go build -overlay` file from the current /repo tree (added zz_verif_*.go files, a virtual shim package, and for the scheduler flavour rewritten sync imports plus inserted yields); DESIGN.md section 2.1",
   "baseline_off_cmd": BASE, "source_commits": [], "add_only": True},
 "engines": [{"name": k, "path": "/verif/cmd/vcheck + /verif/internal", "kind_free_text": v,
              "serves_properties": [i for i in CHECKS if CHECKS[i][0] == k]} for k, v in E.items()],
 "checks": checks, "not_applicable": na,
 "notes": "All checks are ./check <ID> quick|thorough; they rebuild the harness against /repo's current working tree through a freshly generated overlay. known_findings.json lists genuine defects that are recorded rather than repaired."
}
json.dump(m, open('/verif/MANIFEST.json', 'w'), indent=1)
print(len(checks), 'checks;', len(na), 'not applicable')
