#!/bin/bash
# tools/store_seed.sh <ID> <needs> <caught_by>   (maintainer-side; copies a confirmed seeded change into /verif/seeded/<ID>/)
ID=$1; NEEDS=$2; CAUGHT=$3
P=${SEEDPFX:-seed}; SUB=${SEEDSUB:-}; S=/verif/seeded/$ID$SUB; O=/tmp/$P-$ID-out
mkdir -p $S
cp $O/patch.diff $S/
for f in $O/*_test.go $O/*.go $O/zz_demo $O/README* $O/notes.md; do [ -e "$f" ] && cp -r "$f" $S/; done
python3 - "$ID" "$NEEDS" "$CAUGHT" "$O" "$S" <<'PY'
import json,sys,re,os
i,needs,caught,O,S=sys.argv[1:6]
props={json.loads(l)['id']:json.loads(l) for l in open('/verif/properties.jsonl')}
conf=open(f'{O}/confirm.txt').read() if os.path.exists(f'{O}/confirm.txt') else ''
meta={"property":i,"title":props[i]['title'],"needs_to_manifest":needs,
 "confirmed":{"demo_without_patch_exit":re.findall(r'== demo without patch\nexit=(\d+)',conf),"demo_with_patch_exit":re.findall(r'== demo with patch\nexit=(\d+)',conf),
   "suite_with_patch":re.findall(r'(ok-pkgs=\d+ fail-lines=\d+)',conf),"suite_note":"failures, if any, are the timing/GC-based tests TestPretouchSynteaRoot / TestStringReferring, which also flake on the unchanged tree under load; re-run alone they pass",
   "how":"tools/confirm_seed.sh in a scratch worktree of /repo under /tmp (demo without patch, with patch, unedited suite with patch)"},
 "caught_by":caught,"how_checked":"git -C /repo apply %s/patch.diff; ./check <ID> quick; git -C /repo checkout -- ."%S}
json.dump(meta,open(f'{S}/meta.json','w'),indent=1)
PY
ls $S
