// mkoverlay generates a `go build -overlay` file from the *current* /repo working tree.
//
//	mkoverlay <flavour> <outdir>
//
// flavours:
//
//	plain  added zz_verif_* files + virtual packages only (code measured = code shipped)
//	sched  plain + every non-test file importing sync / sync/atomic has that import replaced
//	       by the vshim package, and vshim.Yield() inserted before every statement of the
//	       functions listed in hooks/yields.txt
//
// Nothing under /repo is written. Added files live in /verif/hooks/add/<repo-relative dir>/.
package main

import (
	"encoding/json"
	"fmt"
	"go/ast"
	"go/parser"
	"go/token"
	"os"
	"path/filepath"
	"regexp"
	"sort"
	"strings"
)

const shimPath = "github.com/bytedance/sonic/loader/vshim"

// repo is /repo; VERIF_REPO relocates it (maintainer-side: background batches run against a
// snapshot of /repo's HEAD while seeded changes are being tried in /repo itself)
var repo = func() string {
	if r := os.Getenv("VERIF_REPO"); r != "" {
		return r
	}
	return "/repo"
}()

var verif = func() string {
	if r := os.Getenv("VERIF_ROOT"); r != "" {
		return r
	}
	return "/verif"
}()

var (
	reSync   = regexp.MustCompile("(?m)^(\\s*)(?:import\\s+)?[\"`]sync[\"`]\\s*$")
	reAtomic = regexp.MustCompile("(?m)^(\\s*)(?:import\\s+)?[\"`]sync/atomic[\"`]\\s*$")
)

func die(err error) {
	if err != nil {
		fmt.Fprintln(os.Stderr, "mkoverlay:", err)
		os.Exit(1)
	}
}

type yieldSpec struct {
	narrow *regexp.Regexp // when set (flavour sched): only statements whose header matches
	all   bool
	recvs map[string]bool
	funcs map[string]bool
}

var narrowMode bool

func main() {
	flavour, out := os.Args[1], os.Args[2]
	// schedfull = sched with every statement of the listed functions instrumented;
	// sched honours the narrow=<regexp> filters of hooks/yields.txt
	if flavour == "sched" {
		narrowMode = true
	}
	if flavour == "schedfull" {
		flavour = "sched"
	}
	die(os.MkdirAll(out, 0o755))
	ov := map[string]string{}
	// Development aid (never set by a registered command): VERIF_MUTANT_OVERLAY names a JSON
	// file {"Replace": {"/repo/x.go": "/scratch/x.go"}} whose entries stand in for repo files,
	// so that a deliberate property-breaking change can be tried without touching /repo.
	mut := map[string]string{}
	if mp := os.Getenv("VERIF_MUTANT_OVERLAY"); mp != "" {
		var mo struct{ Replace map[string]string }
		b, err := os.ReadFile(mp)
		die(err)
		die(json.Unmarshal(b, &mo))
		for k, v := range mo.Replace {
			mut[k] = v
			ov[k] = v
		}
		fmt.Fprintf(os.Stderr, "mkoverlay: %d mutant replacement(s) active\n", len(mut))
	}

	// 1. added files: hooks/add/** (all flavours), hooks/add-sched/** (sched only)
	addTree := func(root string) {
		filepath.Walk(root, func(p string, info os.FileInfo, err error) error {
			if err != nil || info.IsDir() || !strings.HasSuffix(p, ".go") {
				return nil
			}
			rel, _ := filepath.Rel(root, p)
			ov[filepath.Join(repo, rel)] = p
			return nil
		})
	}
	addTree(filepath.Join(verif, "hooks", "add"))
	if flavour == "sched" {
		addTree(filepath.Join(verif, "hooks", "add-sched"))
	}
	// the shim package lives (virtually) in the loader module so both modules can import it
	shimFiles, _ := filepath.Glob(filepath.Join(verif, "hooks", "vshim", "*.go"))
	for _, f := range shimFiles {
		ov[filepath.Join(repo, "loader", "vshim", filepath.Base(f))] = f
	}

	if flavour == "sched" {
		yields := readYields()
		var files []string
		for _, dir := range []string{"ast", "internal", "loader", "encoder", "decoder", "option", "utf8", "unquote", "."} {
			root := filepath.Join(repo, dir)
			if dir == "." {
				ents, _ := os.ReadDir(repo)
				for _, e := range ents {
					if !e.IsDir() && strings.HasSuffix(e.Name(), ".go") {
						files = append(files, filepath.Join(repo, e.Name()))
					}
				}
				continue
			}
			filepath.Walk(root, func(p string, info os.FileInfo, err error) error {
				if err != nil {
					return nil
				}
				if info.IsDir() {
					if info.Name() == "testdata" || info.Name() == "iasm" {
						return filepath.SkipDir
					}
					return nil
				}
				if strings.HasSuffix(p, ".go") && !strings.HasSuffix(p, "_test.go") {
					files = append(files, p)
				}
				return nil
			})
		}
		sort.Strings(files)
		n := 0
		for _, f := range files {
			rel, _ := filepath.Rel(repo, f)
			// not rewritten: the write-barrier stub
			if rel == "internal/rt/gcwb.go" || strings.HasPrefix(rel, "loader/vshim") {
				continue
			}
			// the assembler back end recycles instruction objects through a sync.Pool thousands
			// of times inside one thread-local compilation: a scheduling point per Get/Put would
			// drown the schedule space, so its pool becomes a QuietPool (deterministic, no
			// points) and the switches are the yields of hooks/yields.txt around assemble /
			// resolve / release
			quiet := rel == "internal/jit/backend.go" || rel == "internal/jit/assembler_amd64.go"
			rf := f
			if m, ok := mut[f]; ok {
				rf = m
			}
			b, err := os.ReadFile(rf)
			die(err)
			src := string(b)
			ys, wantY := yields[rel]
			usesSync := reSync.MatchString(src) || reAtomic.MatchString(src)
			if !usesSync && !wantY {
				continue
			}
			s := src
			ny := 0
			if wantY {
				s, ny = insertYields(f, s, ys)
			}
			s = reSync.ReplaceAllString(s, `${1}sync "`+shimPath+`"`)
			if quiet {
				s = strings.ReplaceAll(s, "sync.Pool", "sync.QuietPool")
			}
			s = reAtomic.ReplaceAllString(s, `${1}atomic "`+shimPath+`"`)
			if ny > 0 {
				// a dedicated import for the yields (never clashes, always used)
				s = addImport(s, "vshimY", shimPath)
			}
			if s == src {
				continue
			}
			dst := filepath.Join(out, strings.ReplaceAll(rel, "/", "__"))
			die(os.WriteFile(dst, []byte(s), 0o644))
			ov[f] = dst
			n++
		}
		fmt.Fprintf(os.Stderr, "mkoverlay: %d repo files rewritten for sched\n", n)
	}
	b, _ := json.MarshalIndent(map[string]interface{}{"Replace": ov}, "", " ")
	die(os.WriteFile(filepath.Join(out, "overlay.json"), b, 0o644))
}

func addImport(src, name, path string) string {
	// insert a separate import declaration right after the package clause line
	fset := token.NewFileSet()
	f, err := parser.ParseFile(fset, "", src, parser.PackageClauseOnly)
	die(err)
	off := fset.Position(f.Name.End()).Offset
	return src[:off] + "; import " + name + " \"" + path + "\"" + src[off:]
}

// hooks/yields.txt: lines "<repo-relative file> all" | "<file> recv=A,B" | "<file> func=a,b"
func readYields() map[string]yieldSpec {
	m := map[string]yieldSpec{}
	b, err := os.ReadFile(filepath.Join(verif, "hooks", "yields.txt"))
	if err != nil {
		return m
	}
	for _, ln := range strings.Split(string(b), "\n") {
		ln = strings.TrimSpace(ln)
		if ln == "" || strings.HasPrefix(ln, "#") {
			continue
		}
		fs := strings.Fields(ln)
		ys := m[fs[0]]
		if ys.recvs == nil {
			ys.recvs = map[string]bool{}
			ys.funcs = map[string]bool{}
		}
		for _, a := range fs[1:] {
			switch {
			case a == "all":
				ys.all = true
			case strings.HasPrefix(a, "recv="):
				for _, r := range strings.Split(a[5:], ",") {
					ys.recvs[r] = true
				}
			case strings.HasPrefix(a, "narrow!="): // filter applied in every scheduler flavour
				ys.narrow = regexp.MustCompile(a[8:])
			case strings.HasPrefix(a, "narrow="):
				if narrowMode {
					ys.narrow = regexp.MustCompile(a[7:])
				}
			case strings.HasPrefix(a, "func="):
				for _, r := range strings.Split(a[5:], ",") {
					ys.funcs[r] = true
				}
			}
		}
		m[fs[0]] = ys
	}
	return m
}

func hasPragma(fd *ast.FuncDecl) bool {
	if fd.Doc == nil {
		return false
	}
	for _, c := range fd.Doc.List {
		if strings.HasPrefix(c.Text, "//go:nosplit") || strings.HasPrefix(c.Text, "//go:linkname") ||
			strings.HasPrefix(c.Text, "//go:noescape") || strings.HasPrefix(c.Text, "//go:nowritebarrier") ||
			strings.HasPrefix(c.Text, "//go:systemstack") {
			return true
		}
	}
	return false
}

func insertYields(file, src string, ys yieldSpec) (string, int) {
	fset := token.NewFileSet()
	f, err := parser.ParseFile(fset, file, src, parser.ParseComments)
	die(err)
	var offs []int
	for _, d := range f.Decls {
		fd, ok := d.(*ast.FuncDecl)
		if !ok || fd.Body == nil || hasPragma(fd) {
			continue
		}
		want := ys.all || ys.funcs[fd.Name.Name]
		if !want && fd.Recv != nil && len(fd.Recv.List) > 0 {
			rt := fd.Recv.List[0].Type
			if st, ok := rt.(*ast.StarExpr); ok {
				rt = st.X
			}
			if id, ok := rt.(*ast.Ident); ok && ys.recvs[id.Name] {
				want = true
			}
		}
		if !want {
			continue
		}
		ast.Inspect(fd.Body, func(n ast.Node) bool {
			var list []ast.Stmt
			switch b := n.(type) {
			case *ast.BlockStmt:
				list = b.List
			case *ast.CaseClause:
				list = b.Body
			case *ast.CommClause:
				list = b.Body
			case *ast.FuncLit:
				return false
			}
			for _, st := range list {
				switch st.(type) {
				case *ast.LabeledStmt, *ast.CaseClause, *ast.CommClause:
					continue
				}
				if ys.narrow != nil {
					// header text: up to the opening brace of a compound statement
					a, b := fset.Position(st.Pos()).Offset, fset.Position(st.End()).Offset
					switch x := st.(type) {
					case *ast.IfStmt:
						b = fset.Position(x.Body.Lbrace).Offset
					case *ast.ForStmt:
						b = fset.Position(x.Body.Lbrace).Offset
					case *ast.RangeStmt:
						b = fset.Position(x.Body.Lbrace).Offset
					case *ast.SwitchStmt:
						b = fset.Position(x.Body.Lbrace).Offset
					case *ast.TypeSwitchStmt:
						b = fset.Position(x.Body.Lbrace).Offset
					case *ast.SelectStmt:
						b = fset.Position(x.Body.Lbrace).Offset
					case *ast.BlockStmt:
						b = a + 1
					}
					if !ys.narrow.MatchString(src[a:b]) {
						continue
					}
				}
				offs = append(offs, fset.Position(st.Pos()).Offset)
			}
			return true
		})
	}
	sort.Sort(sort.Reverse(sort.IntSlice(offs)))
	for _, o := range offs {
		src = src[:o] + "vshimY.Yield();" + src[o:]
	}
	return src, len(offs)
}
