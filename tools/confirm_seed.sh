#!/bin/bash
# tools/confirm_seed.sh <ID> <demo-setup-cmd> <demo-run-cmd>
# Confirms a seeded change in its scratch worktree /tmp/seed-<ID>: demo passes without the
# patch, fails with it, and the repository's own suite still passes with it.
# Runs under a global lock so that confirmations do not pile up on the machine.
ID=$1; SETUP=$2; RUN=$3
P=${SEEDPFX:-seed}; W=/tmp/$P-$ID; O=/tmp/$P-$ID-out
export GOPROXY=off GOSUMDB=off GOTOOLCHAIN=local
exec 9>/var/tmp/vwork/confirm.lock; flock 9
cd $W || exit 1
git checkout -q -- . ; git clean -fdq
{
echo "== demo without patch"; eval "$SETUP"; ( eval "$RUN" ) > $O/demo-nopatch.log 2>&1; echo "exit=$?"; tail -3 $O/demo-nopatch.log
echo "== apply patch"; git apply $O/patch.diff && echo applied
echo "== demo with patch"; ( eval "$RUN" ) > $O/demo-patch.log 2>&1; echo "exit=$?"; tail -3 $O/demo-patch.log
echo "== suite with patch"
git clean -fdq   # remove the demo so that the suite is the unedited one
for m in $(cat /w/out/gomods.txt); do (cd $W/$m && go test -vet=off -count=1 -timeout 25m ./... 2>&1); done > $O/suite-patch.log
echo "ok-pkgs=$(grep -c '^ok' $O/suite-patch.log) fail-lines=$(grep -cE '^(FAIL|--- FAIL|panic)' $O/suite-patch.log)"
# timing-based tests (e.g. issue_test TestPretouchSynteaRoot compares two wall-clock durations) flake on a
# loaded machine: re-run each failed top-level test alone, up to 3 times
for t in $(grep -E '^--- FAIL: ' $O/suite-patch.log | awk '{print $3}' | cut -d/ -f1 | sort -u); do
  okk=no
  for m in $(cat /w/out/gomods.txt); do
    for k in 1 2 3; do
      if (cd $W/$m && go test -vet=off -count=1 -run "^$t\$" ./... 2>&1 | grep -q "^--- FAIL"); then :; else okk=yes; fi
    done
  done
  echo "retry $t alone: pass-in-some-run=$okk"
done
git checkout -q -- . ; git clean -fdq
} > $O/confirm.txt 2>&1
