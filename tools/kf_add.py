#!/usr/bin/env python3
"""Maintainer-side helper (never run by a check): add the violation keys printed by a check
run to known_findings.json after they were classified by hand as genuine-but-not-repaired.
usage: kf_add.py <property> <check-output-file> <description-prefix> [key-substring-filter]"""
import json, sys, re
prop, out, desc = sys.argv[1:4]
flt = sys.argv[4] if len(sys.argv) > 4 else ''
path = '/verif/known_findings.json'
try: kf = json.load(open(path))
except Exception: kf = {"findings": []}
have = {(f['property'], f['key']) for f in kf['findings']}
txt = open(out).read()
for m in re.finditer(r'VIOLATION property=(\S+) replay=\S+\n\s+key=(.*)\n\s+what=(.*)\n\s+expected=.*\n\s+observed=(.*)\n', txt):
    p, key, what, obs = m.groups()
    if p != prop or flt not in key or (p, key) in have: continue
    kf['findings'].append({"property": p, "key": key, "status": "known", "what": f"{desc}: {what}; witness {obs[:160]}"})
    have.add((p, key))
json.dump(kf, open(path, 'w'), indent=1)
print(len(kf['findings']), 'findings')
