#!/usr/bin/env python3
import json, sys, glob
from jsonschema import Draft202012Validator as V
ms = json.load(open('/root/.vp/MANIFEST.schema.json')); es = json.load(open('/root/.vp/EVIDENCE.schema.json'))
m = json.load(open('/verif/MANIFEST.json'))
errs = list(V(ms).iter_errors(m))
for e in errs: print('MANIFEST:', e.message[:200])
ids = [c['property_id'] for c in m['checks']]
print('manifest checks:', len(ids), 'not_applicable:', [n['property_id'] for n in m.get('not_applicable', [])])
for f in sorted(glob.glob('/verif/evidence/*.json')):
    e = json.load(open(f))
    er = list(V(es).iter_errors(e))
    c = e['coverage']
    print(f.split('/')[-1], 'OK' if not er else 'INVALID', e['tier'], 'eval=%s distinct=%s exhaustive=%s wall=%.0fs' % (c.get('evaluations'), c.get('distinct_nontrivial'), c.get('exhaustive'), e['wall_s']))
    for x in er: print('   ', x.message[:200])
