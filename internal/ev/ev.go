// Package ev: evidence files, known findings, violations, replay files and the
// sharded worker-process driver shared by all checks.
package ev

import (
	"crypto/sha256"
	"encoding/hex"
	"encoding/json"
	"fmt"
	"os"
	"os/exec"
	"path/filepath"
	"sort"
	"strconv"
	"strings"
	"sync"
	"syscall"
	"time"
)

// Root is the verification tree (overridable for scratch copies of /verif).
var Root = func() string {
	if r := os.Getenv("VERIF_ROOT"); r != "" {
		return r
	}
	return "/verif"
}()

// Violation is one failing case. Key identifies the *kind* of failure (used to match
// known findings); Case is whatever the check needs to replay it.
type Violation struct {
	Property string          `json:"property"`
	Key      string          `json:"key"`
	What     string          `json:"what"`
	Case     json.RawMessage `json:"case"`
	Expected string          `json:"expected,omitempty"`
	Observed string          `json:"observed,omitempty"`
	Shard    int             `json:"shard,omitempty"` // the worker shard that reported it
}

// Report is what one worker (or an unsharded check) produces; reports are merged.
type Report struct {
	Evaluations int64            `json:"evaluations"`
	Distinct    int64            `json:"distinct_nontrivial"`
	States      int64            `json:"states,omitempty"`
	Transitions int64            `json:"transitions,omitempty"`
	Validated   int64            `json:"traces_validated_against_impl,omitempty"`
	Counters    map[string]int64 `json:"counters,omitempty"`
	// Sets are merged by union; their sizes are reported as "<name>_distinct".
	Sets       map[string]map[string]bool `json:"sets,omitempty"`
	Samples    []interface{}              `json:"samples,omitempty"`
	Violations []Violation                `json:"violations,omitempty"`
	Exhaustive bool                       `json:"exhaustive"`
	Notes      []string                   `json:"notes,omitempty"`
	Skipped    int64                      `json:"skipped,omitempty"`
}

func NewReport() *Report {
	return &Report{Counters: map[string]int64{}, Sets: map[string]map[string]bool{}, Exhaustive: true}
}

func (r *Report) Count(name string, n int64) { r.Counters[name] += n }

func (r *Report) SetAdd(name, v string) {
	s := r.Sets[name]
	if s == nil {
		s = map[string]bool{}
		r.Sets[name] = s
	}
	if len(s) < 100000 {
		s[v] = true
	}
}

func (r *Report) Sample(v interface{}) {
	if len(r.Samples) < 6 {
		r.Samples = append(r.Samples, v)
	}
}

const maxViol = 400

func (r *Report) Violate(v Violation) {
	// keep at most 2 witnesses per key so that one noisy class cannot hide another
	n := 0
	for i := range r.Violations {
		if r.Violations[i].Key == v.Key {
			n++
		}
	}
	r.Count("violating_cases_total", 1)
	if n >= 2 {
		return
	}
	if len(r.Violations) < maxViol {
		r.Violations = append(r.Violations, v)
	} else {
		r.Count("violations_dropped_over_cap", 1)
	}
}

func (r *Report) Merge(o *Report) {
	r.Evaluations += o.Evaluations
	r.Distinct += o.Distinct
	r.States += o.States
	r.Transitions += o.Transitions
	r.Validated += o.Validated
	r.Skipped += o.Skipped
	for k, v := range o.Counters {
		r.Counters[k] += v
	}
	for k, s := range o.Sets {
		for v := range s {
			r.SetAdd(k, v)
		}
	}
	for _, s := range o.Samples {
		if len(r.Samples) < 12 {
			r.Samples = append(r.Samples, s)
		}
	}
	for _, v := range o.Violations {
		r.Violate(v)
	}
	r.Exhaustive = r.Exhaustive && o.Exhaustive
	r.Notes = append(r.Notes, o.Notes...)
}

// ---------------------------------------------------------------------------------------
// Context

type Ctx struct {
	ID       string
	Tier     string // quick | thorough
	Seed     int64
	Shard    int
	NShard   int
	Deadline time.Time
	cur      []byte // mmap'ed current-case region (worker only)
	Start    time.Time
	skip     map[string]bool
}

func (c *Ctx) Thorough() bool { return c.Tier == "thorough" }

// Mine reports whether shard-unit i belongs to this worker.
func (c *Ctx) Mine(i int) bool {
	if c.NShard <= 1 {
		return true
	}
	return (i+int(c.Seed))%c.NShard == c.Shard
}

// Expired reports whether the internal deadline was hit (the check must then stop,
// set Exhaustive=false and return normally).
func (c *Ctx) Expired() bool { return time.Now().After(c.Deadline) }

// OverMemory reports whether this worker's resident set exceeds its budget (VERIF_MEM_MB,
// default 1536): generated code is never unloaded, so a worker that compiles for every case
// grows without bound; like the deadline, the budget ends the enumeration early
// (Exhaustive=false), it never produces a verdict.
func (c *Ctx) OverMemory() bool {
	b, err := os.ReadFile("/proc/self/statm")
	if err != nil {
		return false
	}
	f := strings.Fields(string(b))
	if len(f) < 2 {
		return false
	}
	pages, _ := strconv.ParseInt(f[1], 10, 64)
	limit := int64(1536)
	if v, err := strconv.ParseInt(os.Getenv("VERIF_MEM_MB"), 10, 64); err == nil && v > 0 {
		limit = v
	}
	return pages*int64(os.Getpagesize()) > limit<<20
}

// Skipped reports whether the driver put this case on the worker's skip list because an
// earlier start of the shard died on it (the death itself is attributed and reported by the
// driver): the worker goes on with the rest of its shard.
func (c *Ctx) Skipped(desc string) bool {
	if c.skip == nil {
		c.skip = map[string]bool{}
		if p := os.Getenv("VERIF_SKIP_FILE"); p != "" {
			b, _ := os.ReadFile(p)
			for _, l := range strings.Split(string(b), "\n") {
				if l != "" {
					c.skip[l] = true
				}
			}
		}
	}
	return len(c.skip) > 0 && c.skip[desc]
}

// SetCase records the case about to run so that a crash can be attributed to it.
func (c *Ctx) SetCase(desc string) {
	if c.cur == nil {
		return
	}
	n := len(desc)
	if n > len(c.cur)-8 {
		n = len(c.cur) - 8
	}
	copy(c.cur[8:], desc[:n])
	c.cur[0], c.cur[1], c.cur[2], c.cur[3] = byte(n), byte(n>>8), byte(n>>16), byte(n>>24)
}

func curPath(id string, shard int) string {
	return filepath.Join(Root, ".build", "run", fmt.Sprintf("%s-w%d.cur", id, shard))
}

func (c *Ctx) mapCur() {
	p := curPath(c.ID, c.Shard)
	os.MkdirAll(filepath.Dir(p), 0o755)
	f, err := os.OpenFile(p, os.O_RDWR|os.O_CREATE|os.O_TRUNC, 0o644)
	if err != nil {
		return
	}
	defer f.Close()
	f.Truncate(1 << 16)
	m, err := syscall.Mmap(int(f.Fd()), 0, 1<<16, syscall.PROT_READ|syscall.PROT_WRITE, syscall.MAP_SHARED)
	if err == nil {
		c.cur = m
	}
}

func readCur(id string, shard int) string {
	b, err := os.ReadFile(curPath(id, shard))
	if err != nil || len(b) < 8 {
		return ""
	}
	n := int(b[0]) | int(b[1])<<8 | int(b[2])<<16 | int(b[3])<<24
	if n > len(b)-8 {
		n = len(b) - 8
	}
	return string(b[8 : 8+n])
}

// ---------------------------------------------------------------------------------------
// Check registry

type Check struct {
	ID        string
	Level     string // exploration | model_checking | fault_enumeration
	Rule      string
	Assume    []string
	Workers   int // 0 = run in-process unsharded (still in a child process for isolation)
	QuickSecs int
	ThorSecs  int
	Run       func(c *Ctx, r *Report)
	// Replay re-executes one case (as stored in Violation.Case) and returns the violation
	// if it still fails, or nil.
	Replay func(c *Ctx, desc json.RawMessage) *Violation
	// CrashKey maps a crash-attributed case description to a finding key.
	CrashKey func(desc string) string
	// Extra coverage keys for the evidence file, computed from the merged report.
	Extra func(r *Report) map[string]interface{}
}

var Checks = map[string]*Check{}

func Register(c *Check) { Checks[c.ID] = c }

// ---------------------------------------------------------------------------------------
// Known findings

type Finding struct {
	Property string `json:"property"`
	Key      string `json:"key"`
	What     string `json:"what"`
	Status   string `json:"status"` // "known" or "fixed"
	Commit   string `json:"commit,omitempty"`
}

func loadFindings() []Finding {
	var fs struct {
		Findings []Finding `json:"findings"`
	}
	b, err := os.ReadFile(filepath.Join(Root, "known_findings.json"))
	if err != nil {
		return nil
	}
	if err := json.Unmarshal(b, &fs); err != nil {
		fmt.Fprintln(os.Stderr, "known_findings.json unreadable:", err)
		return nil
	}
	return fs.Findings
}

func knownFor(id string) map[string]Finding {
	m := map[string]Finding{}
	for _, f := range loadFindings() {
		if f.Property == id && f.Status == "known" {
			m[f.Key] = f
		}
	}
	return m
}

// ---------------------------------------------------------------------------------------
// Driver

func Main() {
	if len(os.Args) < 2 {
		fmt.Fprintln(os.Stderr, "usage: vcheck <ID> quick|thorough [--replay file]")
		os.Exit(2)
	}
	id := os.Args[1]
	ck := Checks[id]
	if ck == nil {
		fmt.Fprintln(os.Stderr, "unknown check", id)
		os.Exit(2)
	}
	tier := "quick"
	replay := ""
	for i := 2; i < len(os.Args); i++ {
		switch os.Args[i] {
		case "quick", "thorough":
			tier = os.Args[i]
		case "--replay":
			i++
			if i < len(os.Args) {
				replay = os.Args[i]
			}
		}
	}
	if t := os.Getenv("VERIF_TIER"); t == "quick" || t == "thorough" {
		tier = t
	}
	seed, _ := strconv.ParseInt(os.Getenv("VERIF_SEED"), 10, 64)
	if seed < 0 {
		seed = -seed
	}
	ctx := &Ctx{ID: id, Tier: tier, Seed: seed, NShard: 1, Start: time.Now()}
	secs := ck.QuickSecs
	if tier == "thorough" {
		secs = ck.ThorSecs
	}
	if secs == 0 {
		secs = 120
	}
	if s, err := strconv.Atoi(os.Getenv("VERIF_DEADLINE_S")); err == nil && s > 0 {
		secs = s
	}
	ctx.Deadline = time.Now().Add(time.Duration(secs) * time.Second)

	if w := os.Getenv("VERIF_WORKER"); w != "" {
		// worker mode: "i/n"
		parts := strings.Split(w, "/")
		ctx.Shard, _ = strconv.Atoi(parts[0])
		ctx.NShard, _ = strconv.Atoi(parts[1])
		ctx.mapCur()
		rep := NewReport()
		if rf := os.Getenv("VERIF_REPLAY_CASE"); rf != "" {
			b, _ := os.ReadFile(rf)
			var v Violation
			json.Unmarshal(b, &v)
			if ck.Replay == nil {
				fmt.Fprintln(os.Stderr, "check has no replay function")
				os.Exit(2)
			}
			ctx.SetCase("replay:" + string(v.Case))
			if nv := ck.Replay(ctx, v.Case); nv != nil {
				rep.Violate(*nv)
			}
			rep.Evaluations = 1
		} else {
			ck.Run(ctx, rep)
		}
		out := os.NewFile(3, "report")
		if out == nil {
			out = os.Stdout
		}
		for i := range rep.Violations {
			rep.Violations[i].Shard = ctx.Shard
		}
		enc := json.NewEncoder(out)
		if err := enc.Encode(rep); err != nil {
			fmt.Fprintln(os.Stderr, "report encode:", err)
			os.Exit(2)
		}
		os.Exit(0)
	}

	if replay != "" {
		os.Exit(doReplay(ck, ctx, replay))
	}
	os.Exit(drive(ck, ctx, secs))
}

type workerResult struct {
	rep   *Report
	err   error
	crash string // case description when the worker died
	tail  string
}

// RunOther runs check `id` of another harness binary (e.g. the -race build) as one worker
// and returns its report, or an error plus the tail of its output.
func RunOther(bin, id string, ctx *Ctx, extraEnv []string, timeout time.Duration) (*Report, string, error) {
	ck := Checks[id]
	wr := spawnBin(bin, ck, ctx, 300+ctx.Shard, 1, extraEnv, timeout)
	return wr.rep, wr.tail, wr.err
}

func spawn(ck *Check, ctx *Ctx, shard, n int, extraEnv []string, timeout time.Duration) workerResult {
	self, _ := os.Executable()
	return spawnBin(self, ck, ctx, shard, n, extraEnv, timeout)
}

func spawnBin(self string, ck *Check, ctx *Ctx, shard, n int, extraEnv []string, timeout time.Duration) workerResult {
	cmd := exec.Command(self, ck.ID, ctx.Tier)
	cmd.Env = append(os.Environ(),
		fmt.Sprintf("VERIF_WORKER=%d/%d", shard, n),
		fmt.Sprintf("VERIF_SEED=%d", ctx.Seed),
		"VERIF_TIER="+ctx.Tier,
		fmt.Sprintf("VERIF_DEADLINE_S=%d", int(time.Until(ctx.Deadline).Seconds())+1),
	)
	cmd.Env = append(cmd.Env, extraEnv...)
	pr, pw, _ := os.Pipe()
	cmd.ExtraFiles = []*os.File{pw}
	tail := &tailBuf{}
	cmd.Stdout = tail
	cmd.Stderr = tail
	os.Remove(curPath(ck.ID, shard))
	if err := cmd.Start(); err != nil {
		return workerResult{err: err}
	}
	pw.Close()
	var rep Report
	done := make(chan error, 1)
	go func() {
		dec := json.NewDecoder(pr)
		done <- dec.Decode(&rep)
	}()
	timer := time.AfterFunc(timeout, func() { cmd.Process.Kill() })
	werr := cmd.Wait()
	timedOut := !timer.Stop()
	derr := <-done
	pr.Close()
	if werr != nil || derr != nil {
		desc := readCur(ck.ID, shard)
		msg := fmt.Sprint(werr, " / ", derr)
		if timedOut {
			msg = "watchdog timeout: " + msg
		}
		return workerResult{err: fmt.Errorf("%s", msg), crash: desc, tail: tail.String()}
	}
	if rep.Counters == nil {
		rep.Counters = map[string]int64{}
	}
	if rep.Sets == nil {
		rep.Sets = map[string]map[string]bool{}
	}
	return workerResult{rep: &rep, tail: tail.String()}
}

type tailBuf struct {
	mu sync.Mutex
	b  []byte
}

func (t *tailBuf) Write(p []byte) (int, error) {
	t.mu.Lock()
	defer t.mu.Unlock()
	t.b = append(t.b, p...)
	if len(t.b) > 1<<16 {
		t.b = t.b[len(t.b)-(1<<15):]
	}
	return len(p), nil
}
func (t *tailBuf) String() string { t.mu.Lock(); defer t.mu.Unlock(); return string(t.b) }

func drive(ck *Check, ctx *Ctx, secs int) int {
	n := ck.Workers
	if n <= 0 {
		n = 1
	}
	if n > 16 {
		n = 16
	}
	total := NewReport()
	results := make([]workerResult, n)
	var wg sync.WaitGroup
	// generous watchdog: internal deadline + grace; the check itself stops at Deadline.
	// (the E5 checks re-enumerate their suite once more after the deadline to regenerate
	// mismatching cases in full; single cases of C07 take minutes on a busy machine)
	grace := 10 * time.Minute
	if g := 2 * time.Duration(secs) * time.Second; g > grace {
		grace = g
	}
	wd := time.Duration(secs)*time.Second + grace
	// A worker that dies on a case is started again with that case on its skip list (checks
	// consult Ctx.Skipped before a case that can kill the process), so that the rest of its
	// shard is still explored; every death is attributed and confirmed below.
	deaths := make([][]workerResult, n)
	for i := 0; i < n; i++ {
		wg.Add(1)
		go func(i int) {
			defer wg.Done()
			var skips []string
			for attempt := 0; ; attempt++ {
				var env []string
				if len(skips) > 0 {
					sp := filepath.Join(Root, ".build", "run", fmt.Sprintf("%s-skip-%d.txt", ck.ID, i))
					os.WriteFile(sp, []byte(strings.Join(skips, "\n")), 0o644)
					env = []string{"VERIF_SKIP_FILE=" + sp}
				}
				wr := spawn(ck, ctx, i, n, env, wd)
				again := false
				for _, s := range skips {
					again = again || s == wr.crash
				}
				if wr.rep != nil || wr.crash == "" || strings.HasPrefix(wr.crash, "replay:") || attempt >= 8 || again || ctx.Expired() {
					results[i] = wr
					return
				}
				deaths[i] = append(deaths[i], wr)
				skips = append(skips, wr.crash)
			}
		}(i)
	}
	wg.Wait()
	infra := 0
	type shardResult struct {
		workerResult
		shard     int
		recovered bool // a later start of the same shard completed with this case skipped
	}
	var flat []shardResult
	for i := range results {
		for _, d := range deaths[i] {
			flat = append(flat, shardResult{d, i, results[i].rep != nil})
		}
		flat = append(flat, shardResult{results[i], i, false})
	}
	for _, sr := range flat {
		i, wr := sr.shard, sr.workerResult
		if wr.rep != nil {
			total.Merge(wr.rep)
			if os.Getenv("VERIF_VERBOSE") != "" && wr.tail != "" {
				fmt.Printf("--- worker %d output ---\n%s\n", i, wr.tail)
			}
			continue
		}
		// worker died: attribute to the recorded case, re-run that case 5x alone.
		fmt.Printf("worker %d died: %v\n  case: %.300s\n  output tail:\n%s\n", i, wr.err, wr.crash, lastLines(wr.tail, 25))
		if !sr.recovered {
			total.Exhaustive = false
		}
		if wr.crash == "" || strings.HasPrefix(wr.crash, "replay:") || ck.Replay == nil {
			if strings.Contains(wr.err.Error(), "signal: killed") && !strings.Contains(wr.err.Error(), "watchdog timeout") {
				total.Notes = append(total.Notes, fmt.Sprintf("worker %d was killed from outside (SIGKILL) before announcing a case; shard incomplete", i))
				continue
			}
			infra++
			continue
		}
		v := Violation{Property: ck.ID, What: "process died (crash/hang) while running case", Case: json.RawMessage(wr.crash)}
		if !json.Valid(v.Case) {
			b, _ := json.Marshal(wr.crash)
			v.Case = b
		}
		if ck.CrashKey != nil {
			v.Key = ck.CrashKey(wr.crash)
		} else {
			v.Key = "crash:" + shortHash(wr.crash)
		}
		// confirm 5x in fresh processes
		tmp := filepath.Join(Root, ".build", "run", fmt.Sprintf("%s-crash-%d.json", ck.ID, i))
		b, _ := json.Marshal(v)
		os.WriteFile(tmp, b, 0o644)
		fails := 0
		var cmu sync.Mutex
		var cwg sync.WaitGroup
		for k := 0; k < 5; k++ {
			cwg.Add(1)
			go func(k int) {
				defer cwg.Done()
				rr := spawn(ck, ctx, 1000+i*8+k, 1, []string{"VERIF_REPLAY_CASE=" + tmp}, 3*time.Minute)
				if rr.rep == nil || len(rr.rep.Violations) > 0 {
					cmu.Lock()
					fails++
					cmu.Unlock()
				}
			}(k)
		}
		cwg.Wait()
		if fails == 5 {
			v.Observed = "died in 5 of 5 isolated re-runs: " + lastLines(wr.tail, 6)
			total.Violate(v)
		} else if strings.Contains(wr.err.Error(), "signal: killed") && !strings.Contains(wr.err.Error(), "watchdog timeout") {
			// SIGKILL that is not this driver's watchdog comes from outside (the kernel's OOM
			// killer on a machine shared with other work): the shard is incomplete, not refuted
			fmt.Printf("  not reproducible in isolation (%d/5) and killed from outside (SIGKILL): shard %d left incomplete\n", fails, i)
			total.Notes = append(total.Notes, fmt.Sprintf("worker %d was killed from outside (SIGKILL, e.g. the OOM killer); its case passes in isolation (%d/5 deaths); shard incomplete", i, fails))
		} else {
			// the announced case passes alone: either the death is external, or an EARLIER case
			// of the shard damaged the process. The shard is deterministic: run it again.
			fmt.Printf("  not reproducible in isolation (%d/5): running shard %d again\n", fails, i)
			rr := spawn(ck, ctx, i, n, nil, wd)
			if rr.rep != nil {
				total.Merge(rr.rep)
				total.Notes = append(total.Notes, fmt.Sprintf("worker %d died once on a case that passes in isolation; the re-run of its shard completed (external cause)", i))
			} else {
				v.Key += ":only-within-its-shard"
				v.What = fmt.Sprintf("process died twice while running shard %d/%d although the announced case passes alone (an earlier case of the shard damages the process)", i, n)
				v.Observed = "first death: " + lastLines(wr.tail, 4) + " | second death at case " + fmt.Sprintf("%.200s", rr.crash) + ": " + lastLines(rr.tail, 4)
				total.Violate(v)
			}
		}
	}
	confirmViolations(ck, ctx, total, n, secs, wd)
	return finish(ck, ctx, total, infra)
}

// confirmViolations: "the same case must fail every time". A violation with an unlisted key
// is replayed alone in fresh processes; if it passes there, the verdict was either produced
// by what EARLIER cases of its shard left behind (pools, caches - a genuine, reproducible
// history dependence) or is not a function of the case at all (e.g. a routine with a
// recorded over-read looked at whatever the allocator had left behind a private copy of the
// input). The shard is deterministic, so it is run once more: the violation is kept iff it
// shows up again.
func confirmViolations(ck *Check, ctx *Ctx, total *Report, n, secs int, wd time.Duration) {
	if ck.Replay == nil || os.Getenv("VERIF_NO_CONFIRM") != "" || len(total.Violations) == 0 {
		return
	}
	known := knownFor(ck.ID)
	first := map[string]Violation{}
	var order []string
	for _, v := range total.Violations {
		if _, ok := known[v.Key]; ok {
			continue
		}
		if _, ok := first[v.Key]; !ok {
			first[v.Key] = v
			order = append(order, v.Key)
		}
	}
	if len(order) > 12 {
		return // a dozen distinct unlisted keys are not a coincidence of memory contents
	}
	drop := map[string]bool{}
	for i, k := range order {
		v := first[k]
		if strings.HasPrefix(k, "race:") || strings.Contains(v.What, "process died") {
			continue
		}
		tmp := filepath.Join(Root, ".build", "run", fmt.Sprintf("%s-confirm-%d.json", ck.ID, i))
		b, _ := json.Marshal(v)
		os.WriteFile(tmp, b, 0o644)
		alone := false
		for r := 0; r < 3 && !alone; r++ {
			rr := spawn(ck, ctx, 400+r, 1, []string{"VERIF_REPLAY_CASE=" + tmp, "VERIF_DEADLINE_S=300"}, 5*time.Minute)
			alone = rr.rep == nil || len(rr.rep.Violations) > 0
		}
		os.Remove(tmp)
		if alone {
			continue
		}
		rr := spawn(ck, ctx, v.Shard, n, []string{fmt.Sprintf("VERIF_DEADLINE_S=%d", secs)}, wd)
		again := rr.rep == nil
		if rr.rep != nil {
			for _, w := range rr.rep.Violations {
				if w.Key == k {
					again = true
				}
			}
		}
		if again {
			continue
		}
		drop[k] = true
		fmt.Printf("UNCONFIRMED: property=%s key=%s - the case passes when replayed alone (3 fresh processes) and does not recur when its shard is run again: not a function of the case, not reported\n   case=%.300s\n", ck.ID, k, string(v.Case))
		total.Notes = append(total.Notes, "unconfirmed and dropped (passes alone, does not recur on a re-run of its shard): "+k)
	}
	if len(drop) == 0 {
		return
	}
	kept := total.Violations[:0]
	for _, v := range total.Violations {
		if !drop[v.Key] {
			kept = append(kept, v)
		}
	}
	total.Violations = kept
}

func lastLines(s string, n int) string {
	l := strings.Split(strings.TrimRight(s, "\n"), "\n")
	if len(l) > n {
		l = l[len(l)-n:]
	}
	return strings.Join(l, "\n")
}

func shortHash(s string) string {
	h := sha256.Sum256([]byte(s))
	return hex.EncodeToString(h[:6])
}

func finish(ck *Check, ctx *Ctx, total *Report, infra int) int {
	known := knownFor(ck.ID)
	seenKnown := map[string]int{}
	var unknown []Violation
	for _, v := range total.Violations {
		if _, ok := known[v.Key]; ok {
			seenKnown[v.Key]++
		} else {
			unknown = append(unknown, v)
		}
	}
	keys := make([]string, 0, len(seenKnown))
	for k := range seenKnown {
		keys = append(keys, k)
	}
	sort.Strings(keys)
	for _, k := range keys {
		fmt.Printf("KNOWN-FINDING: property=%s %s [key=%s, %d case(s) this run]\n", ck.ID, known[k].What, k, seenKnown[k])
	}
	// distinct violation keys → replay files
	os.MkdirAll(filepath.Join(Root, "replays"), 0o755)
	byKey := map[string]Violation{}
	var order []string
	for _, v := range unknown {
		if _, ok := byKey[v.Key]; !ok {
			byKey[v.Key] = v
			order = append(order, v.Key)
		}
	}
	for _, k := range order {
		v := byKey[k]
		v.Property = ck.ID
		p := filepath.Join(Root, "replays", fmt.Sprintf("%s-%s.json", ck.ID, shortHash(k)))
		b, _ := json.MarshalIndent(v, "", " ")
		os.WriteFile(p, b, 0o644)
		fmt.Printf("VIOLATION property=%s replay=%s\n   key=%s\n   what=%s\n   expected=%.400s\n   observed=%.400s\n   case=%.400s\n", ck.ID, p, v.Key, v.What, v.Expected, v.Observed, string(v.Case))
	}
	writeEvidence(ck, ctx, total, len(unknown), seenKnown)
	wall := time.Since(ctx.Start).Seconds()
	fmt.Printf("%s %s: evaluations=%d distinct_nontrivial=%d states=%d transitions=%d exhaustive=%v violations=%d known=%d wall=%.1fs\n",
		ck.ID, ctx.Tier, total.Evaluations, total.Distinct, total.States, total.Transitions, total.Exhaustive, len(unknown), len(seenKnown), wall)
	if len(unknown) > 0 {
		return 1
	}
	if infra > 0 {
		fmt.Println("INFRASTRUCTURE-ERROR: a worker failed for reasons not attributable to a case; see output above")
		return 2
	}
	return 0
}

func writeEvidence(ck *Check, ctx *Ctx, total *Report, nviol int, seenKnown map[string]int) {
	cov := map[string]interface{}{
		"evaluations":         total.Evaluations,
		"distinct_nontrivial": total.Distinct,
		"rule":                ck.Rule,
		"samples":             total.Samples,
		"exhaustive":          total.Exhaustive,
	}
	if ck.Level == "model_checking" {
		cov["states"] = total.States
		cov["transitions"] = total.Transitions
		cov["traces_validated_against_impl"] = total.Validated
	}
	for k, v := range total.Counters {
		cov[k] = v
	}
	for k, s := range total.Sets {
		cov[k+"_distinct"] = len(s)
		if len(s) <= 40 {
			l := make([]string, 0, len(s))
			for v := range s {
				l = append(l, v)
			}
			sort.Strings(l)
			cov[k] = l
		}
	}
	if total.Skipped > 0 {
		cov["skipped_by_rule"] = total.Skipped
	}
	if len(total.Notes) > 0 {
		cov["notes"] = total.Notes
	}
	if len(seenKnown) > 0 {
		cov["known_findings_met"] = seenKnown
	}
	if !total.Exhaustive {
		cov["explanation_not_exhaustive"] = "an internal deadline or a worker failure cut the enumeration short; counts are what was covered"
	}
	if ck.Extra != nil {
		for k, v := range ck.Extra(total) {
			cov[k] = v
		}
	}
	if total.Samples == nil {
		cov["samples"] = []interface{}{}
	}
	e := map[string]interface{}{
		"property_id": ck.ID,
		"tier":        ctx.Tier,
		"seed":        ctx.Seed,
		"level":       ck.Level,
		"coverage":    cov,
		"assumptions": ck.Assume,
		"wall_s":      time.Since(ctx.Start).Seconds(),
		"violations":  nviol,
	}
	b, _ := json.MarshalIndent(e, "", " ")
	os.MkdirAll(filepath.Join(Root, "evidence"), 0o755)
	os.WriteFile(filepath.Join(Root, "evidence", ck.ID+".json"), b, 0o644)
}

func doReplay(ck *Check, ctx *Ctx, path string) int {
	if ck.Replay == nil {
		fmt.Println("check", ck.ID, "has no replay function")
		return 2
	}
	abs, _ := filepath.Abs(path)
	fails := 0
	var last *Violation
	for k := 0; k < 2; k++ {
		rr := spawn(ck, ctx, 200+k, 1, []string{"VERIF_REPLAY_CASE=" + abs}, 5*time.Minute)
		if rr.rep == nil {
			fails++
			fmt.Printf("replay run %d: process died: %v\n%s\n", k, rr.err, lastLines(rr.tail, 15))
		} else if len(rr.rep.Violations) > 0 {
			fails++
			last = &rr.rep.Violations[0]
		}
	}
	if fails == 0 {
		fmt.Println("replay: case passes")
		return 0
	}
	if last != nil {
		fmt.Printf("replay: case FAILS (%d/2)\n  key=%s\n  what=%s\n  expected=%.600s\n  observed=%.600s\n", fails, last.Key, last.What, last.Expected, last.Observed)
	}
	fmt.Printf("VIOLATION property=%s replay=%s\n", ck.ID, abs)
	return 1
}

// J marshals a case description.
func J(v interface{}) json.RawMessage {
	b, err := json.Marshal(v)
	if err != nil {
		panic(err)
	}
	return b
}

// HashSet counts distinct 64-bit hashes in bounded memory (a 2^k-bit bitmap): Add reports
// whether the hash was new. Two hashes falling on the same bit are counted once, so Len is a
// lower bound of the number of distinct hashes (with 2^29 bits and 10^7 entries it is short
// by about 1%); the verdict of a check never depends on it.
type HashSet struct {
	bits []uint64
	mask uint64
	n    int64
}

func NewHashSet(log2bits uint) *HashSet {
	return &HashSet{bits: make([]uint64, 1<<(log2bits-6)), mask: 1<<log2bits - 1}
}

func (s *HashSet) Add(h uint64) bool {
	h ^= h >> 29
	h *= 0x9E3779B97F4A7C15
	h ^= h >> 32
	i := h & s.mask
	w, b := i>>6, uint64(1)<<(i&63)
	if s.bits[w]&b != 0 {
		return false
	}
	s.bits[w] |= b
	s.n++
	return true
}

func (s *HashSet) Len() int64 { return s.n }

// IsolatedReplay runs one case through the check's Replay function in a fresh process of
// this binary: for cases that are expected to be able to kill the process (the worker that
// asks survives). died reports an abnormal exit of the child.
func IsolatedReplay(id string, ctx *Ctx, caseJSON json.RawMessage, timeout time.Duration) (viol *Violation, died bool, tail string) {
	ck := Checks[id]
	tmp := filepath.Join(Root, ".build", "run", fmt.Sprintf("%s-iso-%d.json", id, ctx.Shard))
	b, _ := json.Marshal(Violation{Property: id, Case: caseJSON})
	os.WriteFile(tmp, b, 0o644)
	defer os.Remove(tmp)
	rr := spawn(ck, ctx, 2000+ctx.Shard, 1, []string{"VERIF_REPLAY_CASE=" + tmp, "VERIF_DEADLINE_S=600"}, timeout)
	if rr.rep == nil {
		return nil, true, lastLines(rr.tail, 6)
	}
	if len(rr.rep.Violations) > 0 {
		return &rr.rep.Violations[0], false, ""
	}
	return nil, false, ""
}
