package gen

import (
	"strconv"
	"strings"
)

type Kind int

const (
	KNull Kind = iota
	KBool
	KNum
	KStr
	KArr
	KObj
)

// Tree is a JSON document tree that knows its own text. Leaves carry their literal;
// objects carry raw key literals (with quotes, possibly escaped spelling).
type Tree struct {
	Kind  Kind
	Lit   string   // leaf literal text
	Keys  []string // raw key literals, parallel to Kids (objects)
	Kids  []*Tree
	Start int // byte span in the last rendering
	End   int
	N     int // number of nodes in the subtree
}

// Leaves and Keys alphabets (DESIGN §4 DOC(k)).
var (
	LeavesFull  = []string{`0`, `-1`, `12.5`, `1e2`, `"s"`, `""`, "\"\u00e9\\n\"", `true`, `null`, `{}`, `[]`}
	LeavesSmall = []string{`0`, `"s"`, `true`, `null`, `{}`, `[]`, `-1.5e1`}
	KeysFull    = []string{`"a"`, `"A"`, `"b"`, "\"\\u0061\"", `""`}
	KeysSmall   = []string{`"a"`, `"b"`, "\"\\u0061\""}
)

func leaf(lit string) *Tree {
	t := &Tree{Lit: lit, N: 1}
	switch {
	case lit == "null":
		t.Kind = KNull
	case lit == "true" || lit == "false":
		t.Kind = KBool
	case lit[0] == '"':
		t.Kind = KStr
	case lit == "{}":
		t.Kind = KObj
		t.Lit = ""
	case lit == "[]":
		t.Kind = KArr
		t.Lit = ""
	default:
		t.Kind = KNum
	}
	return t
}

// Leaf builds a leaf tree from a literal.
func Leaf(lit string) *Tree { return leaf(lit) }

// Arr / Obj build containers.
func Arr(kids ...*Tree) *Tree {
	t := &Tree{Kind: KArr, Kids: kids, N: 1}
	for _, k := range kids {
		t.N += k.N
	}
	return t
}

func Obj(keys []string, kids []*Tree) *Tree {
	t := &Tree{Kind: KObj, Keys: keys, Kids: kids, N: 1}
	for _, k := range kids {
		t.N += k.N
	}
	return t
}

// Trees returns all trees with exactly n nodes, for n = 1..k (index 0 unused).
// Trees are shared between parents (immutable except for the Start/End span, which Render
// rewrites for the tree being rendered; never render two trees concurrently).
func Trees(k int, leaves, keys []string) [][]*Tree {
	by := make([][]*Tree, k+1)
	for _, l := range leaves {
		by[1] = append(by[1], leaf(l))
	}
	// seqs[n] = all sequences of trees with total node count n
	for n := 2; n <= k; n++ {
		// children sequences totalling n-1 nodes, at least one child
		var seqs [][]*Tree
		var rec func(rem int, cur []*Tree)
		rec = func(rem int, cur []*Tree) {
			if rem == 0 {
				seqs = append(seqs, append([]*Tree{}, cur...))
				return
			}
			for m := 1; m <= rem; m++ {
				for _, t := range by[m] {
					rec(rem-m, append(cur, t))
				}
			}
		}
		rec(n-1, nil)
		for _, s := range seqs {
			by[n] = append(by[n], &Tree{Kind: KArr, Kids: s, N: n})
			// objects: every key assignment
			ks := make([]int, len(s))
			for {
				keyl := make([]string, len(s))
				for i, ki := range ks {
					keyl[i] = keys[ki]
				}
				by[n] = append(by[n], &Tree{Kind: KObj, Kids: s, Keys: keyl, N: n})
				i := 0
				for ; i < len(ks); i++ {
					ks[i]++
					if ks[i] < len(keys) {
						break
					}
					ks[i] = 0
				}
				if i == len(ks) {
					break
				}
			}
		}
	}
	return by
}

// Render writes the tree in whitespace style 0 (compact), 1 (", " and ": "), or
// 2 (newline/space padding around every token) and records every node's span.
// Returned subtrees' spans are valid until the next Render of an overlapping tree;
// because subtrees are shared, Render *copies* spans into a fresh span table instead.
type Span struct{ Start, End int }

type Rendered struct {
	Text  []byte
	Spans map[*Tree]Span // only valid for trees without shared subtrees; use Walk instead
}

// RenderTo appends the text of t to buf. If spans != nil it receives the span of every
// node in preorder (the same order Walk visits).
func RenderTo(buf []byte, t *Tree, style int, spans *[]Span) []byte {
	var idx int
	if spans != nil {
		idx = len(*spans)
		*spans = append(*spans, Span{})
	}
	start := len(buf)
	switch t.Kind {
	case KArr:
		buf = append(buf, '[')
		for i, k := range t.Kids {
			if i > 0 {
				buf = append(buf, ',')
				if style == 1 {
					buf = append(buf, ' ')
				}
			}
			if style == 2 {
				buf = append(buf, '\n', ' ')
			}
			buf = RenderTo(buf, k, style, spans)
			if style == 2 {
				buf = append(buf, ' ')
			}
		}
		if style == 2 && len(t.Kids) == 0 {
			buf = append(buf, ' ')
		}
		buf = append(buf, ']')
	case KObj:
		buf = append(buf, '{')
		for i, k := range t.Kids {
			if i > 0 {
				buf = append(buf, ',')
				if style == 1 {
					buf = append(buf, ' ')
				}
			}
			if style == 2 {
				buf = append(buf, '\n', '\t')
			}
			buf = append(buf, t.Keys[i]...)
			if style == 2 {
				buf = append(buf, ' ')
			}
			buf = append(buf, ':')
			if style >= 1 {
				buf = append(buf, ' ')
			}
			buf = RenderTo(buf, k, style, spans)
			if style == 2 {
				buf = append(buf, '\r', '\n')
			}
		}
		if style == 2 && len(t.Kids) == 0 {
			buf = append(buf, '\t')
		}
		buf = append(buf, '}')
	default:
		buf = append(buf, t.Lit...)
	}
	if spans != nil {
		(*spans)[idx] = Span{start, len(buf)}
	}
	return buf
}

// Walk visits nodes in preorder with their path (keys are *decoded* strings, indexes ints)
// and preorder index (matching the spans slice of RenderTo). For objects with duplicated
// decoded keys every pair is visited; dup reports whether an earlier sibling has the same
// decoded key (so path lookup must find the earlier one, not this).
func Walk(t *Tree, f func(n *Tree, path []interface{}, pre int, dup bool)) {
	pre := 0
	var rec func(n *Tree, path []interface{}, dup bool)
	rec = func(n *Tree, path []interface{}, dup bool) {
		f(n, path, pre, dup)
		pre++
		switch n.Kind {
		case KArr:
			for i, k := range n.Kids {
				rec(k, append(path[:len(path):len(path)], i), dup)
			}
		case KObj:
			seen := map[string]bool{}
			for i, k := range n.Kids {
				dk := KeyText(n.Keys[i])
				d := seen[dk]
				seen[dk] = true
				rec(k, append(path[:len(path):len(path)], dk), dup || d)
			}
		}
	}
	rec(t, nil, false)
}

// KeyText decodes a raw key literal of the alphabets above.
func KeyText(raw string) string {
	s, err := strconv.Unquote(raw)
	if err != nil {
		// alphabets only contain \uXXXX and \n escapes, which strconv handles
		return strings.Trim(raw, `"`)
	}
	return s
}

// Large builds the fixed large-shape family: objects/arrays with n members, with an
// optional duplicated key (the first key repeated at the end) — the chunk (16) and
// hash-index (>16) thresholds of ast/buffer.go and ast/node.go.
func Large(n int, object, dup bool) *Tree {
	var keys []string
	var kids []*Tree
	for i := 0; i < n; i++ {
		keys = append(keys, `"k`+strconv.Itoa(i)+`"`)
		kids = append(kids, leaf(strconv.Itoa(i)))
	}
	if dup && n > 1 {
		keys[n-1] = keys[0]
	}
	if object {
		return Obj(keys, kids)
	}
	return Arr(kids...)
}

// ForEachTop streams every tree with exactly n nodes (n >= 2) built from the materialised
// smaller trees by[1..n-1] (as returned by Trees(n-1, ...)), in the same order Trees would
// list them, without storing them: the top level of DOC(k) is by far the largest and need
// not be kept in memory. f returns false to stop.
func ForEachTop(by [][]*Tree, n int, keys []string, f func(t *Tree) bool) {
	stop := false
	var rec func(rem int, cur []*Tree)
	emit := func(cur []*Tree) {
		s := append([]*Tree{}, cur...)
		if !f(&Tree{Kind: KArr, Kids: s, N: n}) {
			stop = true
			return
		}
		ks := make([]int, len(s))
		for {
			keyl := make([]string, len(s))
			for i, ki := range ks {
				keyl[i] = keys[ki]
			}
			if !f(&Tree{Kind: KObj, Kids: s, Keys: keyl, N: n}) {
				stop = true
				return
			}
			i := 0
			for ; i < len(ks); i++ {
				ks[i]++
				if ks[i] < len(keys) {
					break
				}
				ks[i] = 0
			}
			if i == len(ks) {
				return
			}
		}
	}
	rec = func(rem int, cur []*Tree) {
		if stop {
			return
		}
		if rem == 0 {
			emit(cur)
			return
		}
		for m := 1; m <= rem && m < len(by); m++ {
			for _, t := range by[m] {
				rec(rem-m, append(cur, t))
				if stop {
					return
				}
			}
		}
	}
	rec(n-1, nil)
}
