package gen

import (
	"encoding/json"
	"errors"
	"fmt"
	"math"
	"reflect"
	"sort"
	"strconv"
	"strings"
)

// ---------------------------------------------------------------------------------------
// Named types with methods (cannot be built with reflect)

type MInt int
type MStr string
type MBool bool
type MFloat float64

// VM: value-receiver MarshalJSON, pointer-receiver UnmarshalJSON
type VM struct{ V int }

func (v VM) MarshalJSON() ([]byte, error) { return []byte(fmt.Sprintf(`{"vm":%d}`, v.V)), nil }
func (v *VM) UnmarshalJSON(b []byte) error {
	v.V = len(b)*1000 + int(b[0])
	return nil
}

// PM: pointer-receiver MarshalJSON and UnmarshalJSON
type PM struct{ V int }

func (p *PM) MarshalJSON() ([]byte, error) {
	if p == nil {
		return []byte(`"nilpm"`), nil
	}
	return []byte(fmt.Sprintf(` [ %d , "pm" ] `, p.V)), nil
}
func (p *PM) UnmarshalJSON(b []byte) error { p.V = len(b)*1000 + int(b[len(b)-1]); return nil }

// EM: MarshalJSON returning an error / invalid JSON depending on V
type EM struct{ V int }

func (e EM) MarshalJSON() ([]byte, error) {
	switch e.V {
	case 1:
		return nil, errors.New("em-error")
	case 2:
		return []byte(`{"a":`), nil
	case 3:
		return []byte(``), nil
	case 4:
		return []byte("\"<&> \""), nil
	}
	return []byte(`true`), nil
}
func (e *EM) UnmarshalJSON(b []byte) error {
	if len(b) > 0 && b[0] == '[' {
		return errors.New("em-reject-array")
	}
	e.V = len(b)
	return nil
}

// VT: value-receiver MarshalText, pointer-receiver UnmarshalText
type VT struct{ V int }

func (v VT) MarshalText() ([]byte, error) { return []byte(fmt.Sprintf("vt<%d>\"\n", v.V)), nil }
func (v *VT) UnmarshalText(b []byte) error {
	if string(b) == "bad" {
		return errors.New("vt-bad")
	}
	v.V = len(b)
	return nil
}

// PT: pointer-receiver MarshalText and UnmarshalText
type PT struct{ V int }

func (p *PT) MarshalText() ([]byte, error) {
	if p == nil {
		return []byte("nilpt"), nil
	}
	return []byte(fmt.Sprintf("pt%d", p.V)), nil
}
func (p *PT) UnmarshalText(b []byte) error { p.V = len(b) + 100; return nil }

// TKey: string kind with text methods (map keys)
type TKey string

func (k TKey) MarshalText() ([]byte, error) { return []byte("K:" + string(k)), nil }
func (k *TKey) UnmarshalText(b []byte) error { *k = TKey("U:" + string(b)); return nil }

// IKey: int kind with text methods (map keys: text method wins over the integer kind)
type IKey int

func (k IKey) MarshalText() ([]byte, error) { return []byte("I" + strconv.Itoa(int(k))), nil }
func (k *IKey) UnmarshalText(b []byte) error { *k = IKey(len(b)); return nil }

// hand-written struct shapes reflect.StructOf cannot express
type Rec struct {
	V    int
	Next *Rec           `json:"next,omitempty"`
	Kids []Rec          `json:"kids,omitempty"`
	M    map[string]Rec `json:"m,omitempty"`
}

type inner struct {
	A int
	B string `json:"b"`
}
type Inner2 struct {
	A int // clashes with inner.A at the same depth when both embedded
	C int
}
type Emb struct {
	inner
	*Inner2
	D int
}
type EmbPtr struct {
	*Inner2
	X int `json:"A"` // shallower than Inner2.A: wins
}
type Unexp struct {
	a int
	B int
	c string `json:"c"`
}
type CaseFold struct {
	Ab  int
	AB  int `json:"aB"`
	Abc int `json:"ABC"`
	K   int `json:"K"` // Kelvin sign folds to k
}
type Tagged struct {
	A int     `json:"a,omitempty"`
	B string  `json:"b,omitempty,string"`
	C float64 `json:",string"`
	D *int    `json:"d,string"`
	E bool    `json:"-"`
	F bool    `json:"-,"`
	G int64   `json:"g,string,omitempty"`
	H []int   `json:"h,omitempty"`
	I map[string]int `json:"i,omitempty"`
	J interface{}    `json:"j,omitempty"`
	K [0]int         `json:"k,omitempty"`
	L uint8          `json:"l,string"`
}
type Deep struct {
	L1 struct {
		L2 struct {
			L3 struct {
				L4 struct {
					L5 struct{ V int }
				}
			}
		}
	}
}

// Big has more than 50 fields (the field-matching cut-off of the decoder).
var BigType = func() reflect.Type {
	var fs []reflect.StructField
	for i := 0; i < 60; i++ {
		fs = append(fs, reflect.StructField{Name: fmt.Sprintf("F%02d", i), Type: reflect.TypeOf(0), Tag: reflect.StructTag(fmt.Sprintf(`json:"f%02d"`, i))})
	}
	return reflect.StructOf(fs)
}()

// ---------------------------------------------------------------------------------------
// TYPE(d)

type TypeCase struct {
	Name string
	T    reflect.Type
}

func tc(v interface{}) TypeCase {
	t := reflect.TypeOf(v)
	return TypeCase{t.String(), t}
}

func ptrTo(v interface{}) reflect.Type { return reflect.TypeOf(v).Elem() }

// LeafTypes: the leaves of the type grammar.
func LeafTypes() []TypeCase {
	l := []TypeCase{
		tc(false), tc(int(0)), tc(int8(0)), tc(int16(0)), tc(int32(0)), tc(int64(0)),
		tc(uint(0)), tc(uint8(0)), tc(uint16(0)), tc(uint32(0)), tc(uint64(0)), tc(uintptr(0)),
		tc(float32(0)), tc(float64(0)), tc(""), tc([]byte(nil)),
		{"interface {}", ptrTo((*interface{})(nil))},
		tc(json.Number("")), tc(json.RawMessage(nil)),
		tc(MInt(0)), tc(MStr("")), tc(MBool(false)), tc(MFloat(0)),
		tc(VM{}), tc(PM{}), tc(EM{}), tc(VT{}), tc(PT{}), tc(TKey("")), tc(IKey(0)),
	}
	return l
}

// UnsupportedLeaves: kinds with no JSON representation.
func UnsupportedLeaves() []TypeCase {
	return []TypeCase{tc(make(chan int)), tc(func() {}), tc(complex128(0))}
}

// RepLeaves: representative leaves for depth-3 types.
func RepLeaves() []TypeCase {
	return []TypeCase{tc(int(0)), tc(""), tc(float64(0)), {"interface {}", ptrTo((*interface{})(nil))}, tc(VM{}), tc(PT{})}
}

// HandTypes: hand-written shapes.
func HandTypes() []TypeCase {
	return []TypeCase{tc(Rec{}), tc(Emb{}), tc(EmbPtr{}), tc(Unexp{}), tc(CaseFold{}), tc(Tagged{}), tc(Deep{}), {"Big60", BigType}}
}

// MapKeyTypes: key kinds for map[K]T.
func MapKeyTypes() []TypeCase {
	return []TypeCase{tc(""), tc(MStr("")), tc(int(0)), tc(int8(0)), tc(uint64(0)), tc(float64(0)), tc(false), tc(TKey("")), tc(IKey(0)), tc(VT{}), tc(PT{})}
}

// Constructors applied to an element type. The struct shapes are built with StructOf
// (exported fields only).
func Construct(e TypeCase) []TypeCase {
	var out []TypeCase
	add := func(name string, t reflect.Type) { out = append(out, TypeCase{name, t}) }
	T := e.T
	add("*"+e.Name, reflect.PtrTo(T))
	add("**"+e.Name, reflect.PtrTo(reflect.PtrTo(T)))
	add("[]"+e.Name, reflect.SliceOf(T))
	add("[0]"+e.Name, reflect.ArrayOf(0, T))
	add("[2]"+e.Name, reflect.ArrayOf(2, T))
	add("[]*"+e.Name, reflect.SliceOf(reflect.PtrTo(T)))
	for _, k := range MapKeyTypes() {
		if !k.T.Comparable() {
			continue
		}
		add("map["+k.Name+"]"+e.Name, reflect.MapOf(k.T, T))
	}
	sf := func(name string, t reflect.Type, tag string) reflect.StructField {
		return reflect.StructField{Name: name, Type: t, Tag: reflect.StructTag(tag)}
	}
	intT := reflect.TypeOf(0)
	add("struct{A "+e.Name+"}", reflect.StructOf([]reflect.StructField{sf("A", T, "")}))
	add("struct{A "+e.Name+" `x`; B int}", reflect.StructOf([]reflect.StructField{sf("A", T, `json:"x"`), sf("B", intT, "")}))
	add("struct{A "+e.Name+" `a,omitempty`; B int}", reflect.StructOf([]reflect.StructField{sf("A", T, `json:"a,omitempty"`), sf("B", intT, `json:"b,omitempty"`)}))
	add("struct{A "+e.Name+" `a,string`}", reflect.StructOf([]reflect.StructField{sf("A", T, `json:"a,string"`)}))
	add("struct{A "+e.Name+" `-`; B "+e.Name+" `-,`}", reflect.StructOf([]reflect.StructField{sf("A", T, `json:"-"`), sf("B", T, `json:"-,"`)}))
	add("struct{A *"+e.Name+" `a,omitempty`; Z "+e.Name+" `a2`}", reflect.StructOf([]reflect.StructField{sf("A", reflect.PtrTo(T), `json:"a,omitempty"`), sf("Z", T, `json:"a2"`)}))
	add("struct{Ab "+e.Name+"; AB "+e.Name+" `aB`}", reflect.StructOf([]reflect.StructField{sf("Ab", T, ""), sf("AB", T, `json:"aB"`)}))
	return out
}

// Types enumerates TYPE(d): leaves, then constructors applied d-1 times (depth 3 only
// over the representative leaves), plus the hand-written shapes.
func Types(depth int) []TypeCase {
	var out []TypeCase
	leaves := append(LeafTypes(), UnsupportedLeaves()...)
	out = append(out, leaves...)
	out = append(out, HandTypes()...)
	if depth >= 2 {
		for _, l := range append(leaves, HandTypes()[:2]...) {
			out = append(out, Construct(l)...)
		}
	}
	if depth >= 3 {
		for _, l := range RepLeaves() {
			for _, m := range Construct(l) {
				out = append(out, Construct(m)...)
			}
		}
	}
	return out
}

// ---------------------------------------------------------------------------------------
// VAL(T)

var (
	strVals = []string{"", "a", "\"\\", "<&>", " é", "\xff\x00", strings.Repeat("a", 40)}
	f64Vals = []float64{0, math.Copysign(0, -1), 1, -1.5, 1e21, 1e-7, 5e-324, math.MaxFloat64, 1e20, 123456789.125, math.NaN(), math.Inf(1), math.Inf(-1)}
	f32Vals = []float32{0, float32(math.Copysign(0, -1)), 1, 1e21, 1e-7, 1e-45, math.MaxFloat32, 16777216, 0.1, float32(math.NaN()), float32(math.Inf(1))}
)

// Values returns the boundary value set of t (DESIGN §4 VAL). Struct values vary one
// field at a time (sum, not product); containers: nil / empty / one / three elements.
func Values(t reflect.Type, depth int) []reflect.Value {
	var out []reflect.Value
	add := func(v interface{}) { out = append(out, reflect.ValueOf(v).Convert(t)) }
	switch t {
	case reflect.TypeOf(json.Number("")):
		for _, s := range []string{"", "1", "-1.5e5", "abc", "1e400"} {
			add(json.Number(s))
		}
		return out
	case reflect.TypeOf(json.RawMessage(nil)):
		out = append(out, reflect.Zero(t))
		for _, s := range []string{`{"a":1}`, ` [1 , 2] `, `{bad`, ``, `"<&>"`} {
			add(json.RawMessage(s))
		}
		return out
	case reflect.TypeOf(EM{}):
		for i := 0; i <= 4; i++ {
			add(EM{i})
		}
		return out
	}
	switch t.Kind() {
	case reflect.Bool:
		add(false)
		add(true)
	case reflect.Int, reflect.Int8, reflect.Int16, reflect.Int32, reflect.Int64:
		bits := t.Bits()
		for _, v := range []int64{0, 1, -1, math.MinInt64 >> (64 - bits), math.MaxInt64 >> (64 - bits)} {
			x := reflect.New(t).Elem()
			x.SetInt(v)
			out = append(out, x)
		}
	case reflect.Uint, reflect.Uint8, reflect.Uint16, reflect.Uint32, reflect.Uint64, reflect.Uintptr:
		bits := t.Bits()
		for _, v := range []uint64{0, 1, math.MaxUint64 >> (64 - bits)} {
			x := reflect.New(t).Elem()
			x.SetUint(v)
			out = append(out, x)
		}
	case reflect.Float64:
		for _, v := range f64Vals {
			add(v)
		}
	case reflect.Float32:
		for _, v := range f32Vals {
			add(v)
		}
	case reflect.String:
		for _, v := range strVals {
			add(v)
		}
	case reflect.Interface:
		out = append(out, reflect.Zero(t))
		for _, v := range []interface{}{1, "s<", 1.5, true, map[string]interface{}{"b": 1, "a": nil}, []interface{}{1, "x"}, VM{3}, &PM{4}, int8(-3), uint64(math.MaxUint64), float32(0.1), []byte("hi"), json.Number("12"), math.NaN()} {
			x := reflect.New(t).Elem()
			x.Set(reflect.ValueOf(v))
			out = append(out, x)
		}
	case reflect.Ptr:
		out = append(out, reflect.Zero(t))
		for _, e := range limit(Values(t.Elem(), depth+1), 6) {
			p := reflect.New(t.Elem())
			p.Elem().Set(e)
			out = append(out, p)
		}
	case reflect.Slice:
		out = append(out, reflect.Zero(t))
		out = append(out, reflect.MakeSlice(t, 0, 0))
		ev := Values(t.Elem(), depth+1)
		if t.Elem().Kind() == reflect.Uint8 {
			s := reflect.MakeSlice(t, 3, 3)
			reflect.Copy(s, reflect.ValueOf([]byte{1, 2, 255}))
			out = append(out, s)
			s4 := reflect.MakeSlice(t, 4, 4)
			out = append(out, s4)
			return out
		}
		if len(ev) > 0 {
			for _, e := range limit(ev, 5) {
				s := reflect.MakeSlice(t, 1, 1)
				s.Index(0).Set(e)
				out = append(out, s)
			}
			s := reflect.MakeSlice(t, 3, 3)
			for i := 0; i < 3; i++ {
				s.Index(i).Set(ev[(i+1)%len(ev)])
			}
			out = append(out, s)
		}
	case reflect.Array:
		out = append(out, reflect.Zero(t))
		ev := Values(t.Elem(), depth+1)
		if t.Len() > 0 && len(ev) > 1 {
			a := reflect.New(t).Elem()
			for i := 0; i < t.Len(); i++ {
				a.Index(i).Set(ev[(i+1)%len(ev)])
			}
			out = append(out, a)
		}
	case reflect.Map:
		out = append(out, reflect.Zero(t))
		out = append(out, reflect.MakeMap(t))
		kv := mapKeys(t.Key())
		ev := Values(t.Elem(), depth+1)
		if len(kv) > 0 && len(ev) > 0 {
			m := reflect.MakeMap(t)
			m.SetMapIndex(kv[0], ev[len(ev)-1])
			out = append(out, m)
			m3 := reflect.MakeMap(t)
			for i, k := range kv {
				m3.SetMapIndex(k, ev[i%len(ev)])
			}
			out = append(out, m3)
		}
	case reflect.Struct:
		zero := reflect.New(t).Elem()
		out = append(out, zero)
		if depth > 3 {
			return out
		}
		for i := 0; i < t.NumField(); i++ {
			f := t.Field(i)
			if f.PkgPath != "" && !f.Anonymous {
				continue
			}
			if f.PkgPath != "" {
				continue
			}
			if t == reflect.TypeOf(Rec{}) && depth > 1 {
				continue
			}
			for _, fv := range limit(Values(f.Type, depth+1), 8) {
				s := reflect.New(t).Elem()
				s.Field(i).Set(fv)
				out = append(out, s)
			}
		}
	case reflect.Chan:
		out = append(out, reflect.Zero(t), reflect.MakeChan(t, 0))
	case reflect.Func:
		out = append(out, reflect.Zero(t), reflect.ValueOf(func() {}))
	case reflect.Complex128:
		add(complex(1, 2))
	}
	return out
}

func limit(v []reflect.Value, n int) []reflect.Value {
	if len(v) <= n {
		return v
	}
	// keep first, last and an even spread
	out := make([]reflect.Value, 0, n)
	for i := 0; i < n; i++ {
		out = append(out, v[i*(len(v)-1)/(n-1)])
	}
	return out
}

func mapKeys(k reflect.Type) []reflect.Value {
	var out []reflect.Value
	conv := func(v interface{}) { out = append(out, reflect.ValueOf(v).Convert(k)) }
	switch k.Kind() {
	case reflect.String:
		for _, s := range []string{"2", "10", "-1", "", "<a>"} {
			conv(s)
		}
	case reflect.Int, reflect.Int8, reflect.Int64:
		for _, s := range []int{2, 10, -1} {
			conv(s)
		}
	case reflect.Uint64:
		for _, s := range []uint64{2, 10, math.MaxUint64} {
			conv(s)
		}
	case reflect.Float64:
		for _, s := range []float64{2, 10.5, -1} {
			conv(s)
		}
	case reflect.Bool:
		conv(true)
		conv(false)
	case reflect.Struct:
		for i := 0; i < 3; i++ {
			x := reflect.New(k).Elem()
			x.Field(0).SetInt(int64(i * 7))
			out = append(out, x)
		}
	}
	return out
}

// ---------------------------------------------------------------------------------------
// canonical dump of a decoded value: type tags, float bits, nil vs empty, pointer graph
// structure (no addresses).

func Dump(v reflect.Value) string {
	var b strings.Builder
	dump(&b, v, 0)
	return b.String()
}

func dump(b *strings.Builder, v reflect.Value, d int) {
	if d > 40 {
		b.WriteString("<deep>")
		return
	}
	if !v.IsValid() {
		b.WriteString("<invalid>")
		return
	}
	switch v.Kind() {
	case reflect.Bool:
		fmt.Fprintf(b, "%v", v.Bool())
	case reflect.Int, reflect.Int8, reflect.Int16, reflect.Int32, reflect.Int64:
		fmt.Fprintf(b, "%s(%d)", v.Type().Kind(), v.Int())
	case reflect.Uint, reflect.Uint8, reflect.Uint16, reflect.Uint32, reflect.Uint64, reflect.Uintptr:
		fmt.Fprintf(b, "%s(%d)", v.Type().Kind(), v.Uint())
	case reflect.Float32:
		fmt.Fprintf(b, "f32(%08x)", math.Float32bits(float32(v.Float())))
	case reflect.Float64:
		fmt.Fprintf(b, "f64(%016x)", math.Float64bits(v.Float()))
	case reflect.String:
		fmt.Fprintf(b, "%q", v.String())
	case reflect.Interface:
		if v.IsNil() {
			b.WriteString("iface(nil)")
			return
		}
		fmt.Fprintf(b, "iface[%s](", v.Elem().Type())
		dump(b, v.Elem(), d+1)
		b.WriteByte(')')
	case reflect.Ptr:
		if v.IsNil() {
			b.WriteString("nil")
			return
		}
		b.WriteByte('&')
		dump(b, v.Elem(), d+1)
	case reflect.Slice:
		if v.IsNil() {
			b.WriteString("nilslice")
			return
		}
		if v.Type().Elem().Kind() == reflect.Uint8 {
			fmt.Fprintf(b, "bytes(%x)", v.Bytes())
			return
		}
		b.WriteByte('[')
		for i := 0; i < v.Len(); i++ {
			if i > 0 {
				b.WriteByte(' ')
			}
			dump(b, v.Index(i), d+1)
		}
		b.WriteByte(']')
	case reflect.Array:
		b.WriteString("arr[")
		for i := 0; i < v.Len(); i++ {
			if i > 0 {
				b.WriteByte(' ')
			}
			dump(b, v.Index(i), d+1)
		}
		b.WriteByte(']')
	case reflect.Map:
		if v.IsNil() {
			b.WriteString("nilmap")
			return
		}
		type kv struct{ k, v string }
		var l []kv
		it := v.MapRange()
		for it.Next() {
			var kb, vb strings.Builder
			dump(&kb, it.Key(), d+1)
			dump(&vb, it.Value(), d+1)
			l = append(l, kv{kb.String(), vb.String()})
		}
		sort.Slice(l, func(i, j int) bool { return l[i].k < l[j].k })
		b.WriteString("map{")
		for i, e := range l {
			if i > 0 {
				b.WriteByte(' ')
			}
			b.WriteString(e.k + ":" + e.v)
		}
		b.WriteByte('}')
	case reflect.Struct:
		b.WriteByte('{')
		for i := 0; i < v.NumField(); i++ {
			if i > 0 {
				b.WriteByte(' ')
			}
			b.WriteString(v.Type().Field(i).Name + ":")
			dump(b, v.Field(i), d+1)
		}
		b.WriteByte('}')
	default:
		fmt.Fprintf(b, "<%s>", v.Kind())
	}
}
