// Package gen: the shared finite spaces (DESIGN §4): TOK(n), DOC(k), MUT, strata.
package gen

// Tokens is the TOK alphabet. Order: simplest first, so the first counterexample of an
// odometer enumeration is also (nearly) the shortest.
var Tokens = []string{
	"1", "[", "]", "{", "}", ",", ":", `"a"`, "null", " ",
	`""`, "0", "-0", "12", "1.5", "1e2", "true", "false", `"A"`, `"b"`,
	"\"\\u0061\"", "\"\u00e9\"", "\"\\u00e9\\n\"", "\n",
	// malformed pieces
	`"a`, `"\x"`, "\"\x01\"", "\"\xff\"", "1E400", "-", "01", "1.", "tru", "x",
}

// TokensSmall is the sub-alphabet used where the product with other dimensions is large.
var TokensSmall = []string{
	"1", "[", "]", "{", "}", ",", ":", `"a"`, "null", " ", `"b"`, "-0", "1.5", "true", `"a`, "x", "-", "1E400", "\"\\u0061\"",
}

// ForEachTok enumerates every concatenation of 0..n tokens from alpha. The callback gets
// the token index list (do not retain) and the text. unit is the index of the first token
// (or -1 for the empty string) and is what sharding is decided on.
func ForEachTok(alpha []string, n int, mine func(unit int) bool, f func(idx []int, s []byte) bool) {
	if mine(-1+1) { // the empty input belongs with unit 0
		if !f(nil, nil) {
			return
		}
	}
	idx := make([]int, 0, n)
	buf := make([]byte, 0, 64)
	var rec func(depth int) bool
	rec = func(depth int) bool {
		for i, t := range alpha {
			if depth == 0 && !mine(i) {
				continue
			}
			idx = append(idx, i)
			l := len(buf)
			buf = append(buf, t...)
			if !f(idx, buf) {
				return false
			}
			if depth+1 < n {
				if !rec(depth + 1) {
					return false
				}
			}
			buf = buf[:l]
			idx = idx[:len(idx)-1]
		}
		return true
	}
	rec(0)
}

// ForEachTok2 is ForEachTok sharded on the first *two* tokens (finer units for 16 workers).
func ForEachTok2(alpha []string, n int, mine func(unit int) bool, f func(idx []int, s []byte) bool) {
	A := len(alpha)
	if mine(0) {
		if !f(nil, nil) {
			return
		}
	}
	idx := make([]int, 0, n)
	buf := make([]byte, 0, 64)
	var rec func(depth int) bool
	rec = func(depth int) bool {
		for i, t := range alpha {
			idx = append(idx, i)
			l := len(buf)
			buf = append(buf, t...)
			ok := true
			switch {
			case depth == 0:
				// length-1 strings belong to unit i*A (first token i, "no second token")
				if mine(i * A) {
					ok = f(idx, buf)
				}
			case depth == 1:
				if mine(idx[0]*A + i + 1) {
					ok = f(idx, buf)
				} else {
					buf = buf[:l]
					idx = idx[:len(idx)-1]
					continue
				}
			default:
				ok = f(idx, buf)
			}
			if !ok {
				return false
			}
			if depth+1 < n {
				if !rec(depth + 1) {
					return false
				}
			}
			buf = buf[:l]
			idx = idx[:len(idx)-1]
		}
		return true
	}
	rec(0)
}
